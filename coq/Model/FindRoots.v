(* Executable model of findRoots / FilterArtifactType / FilterAnnotation
   (extendedcopy.go) and of the stack of internal/copyutil/stack.go.
   No proofs in this file (Proofs/FindRoots.v).

   Nodes are natural numbers: a node stands for one descriptor key
   (descriptor.FromOCI = media type x digest x size).  What the source serves
   for a node and what the manifest bytes of a node say are two different
   things and both are part of the model:

     s_preds   Predecessors(node) as served by the source, in the served order
               (Go map order = this list order; theorems quantify over it),
               each predecessor as a descriptor that may or may not carry
               artifactType / annotations;
     s_kind    media type class of the node (part of its key);
     s_mat     "artifactType" member of the manifest content ("" = absent);
     s_mcfg    "config.mediaType" member of the manifest content;
     s_mann    "annotations" member of the manifest content (None = absent/null).

     s_lister  the source implements registry.ReferrerLister (remote repository):
               the first filter that is installed then filters the served referrer
               descriptors as they are, without fetching missing fields. *)
From Oras Require Import Base.Prelude Generated.GC03.

Inductive mkind := KImage | KDocker | KIndex | KDockerList | KArtifact | KOther.

Definition kind_eqb (a c : mkind) : bool :=
  match a, c with
  | KImage, KImage | KDocker, KDocker | KIndex, KIndex | KDockerList, KDockerList
  | KArtifact, KArtifact | KOther, KOther => true
  | _, _ => false
  end.

(* the media type constants as they are spelled in the case lists that
   tools/gosrc2v re-reads from extendedcopy.go (Generated/GC03.v) *)
Definition kind_of_selector (sel : str) : mkind :=
  if str_eqb sel (b "ocispec.MediaTypeImageManifest") then KImage
  else if str_eqb sel (b "docker.MediaTypeManifest") then KDocker
  else if str_eqb sel (b "ocispec.MediaTypeImageIndex") then KIndex
  else if str_eqb sel (b "docker.MediaTypeManifestList") then KDockerList
  else if str_eqb sel (b "spec.MediaTypeArtifactManifest") then KArtifact
  else KOther.

Definition in_cases (cases : list str) (k : mkind) : bool :=
  existsb (fun sel => kind_eqb k (kind_of_selector sel)) cases.

Definition annots := list (str * str).

Fixpoint lookup (k : str) (m : annots) : option str :=
  match m with
  | [] => None
  | (k', v) :: m' => if str_eqb k k' then Some v else lookup k m'
  end.

(* ocispec.Descriptor projected on what findRoots and the filters read *)
Record desc := mkDesc {
  d_id : nat;                (* the key: descriptor.FromOCI *)
  d_at : str;                (* ArtifactType, "" = not present *)
  d_ann : option annots      (* Annotations, None = nil map *)
}.

Record source := mkSource {
  s_preds : nat -> list desc;
  s_kind : nat -> mkind;
  s_mat : nat -> str;
  s_mcfg : nat -> str;
  s_mann : nat -> option annots;
  s_lister : bool
}.

Definition is_empty (s : str) : bool := match s with [] => true | _ => false end.

(* fetchArtifactType, interpreted from the table tools/gosrc2v re-reads from its source on every
   run (Generated/GC03.v fetchArtifactType_rules): per media type case a list of steps
   (guard field, returned field); the first step whose guard field is non-empty -- or whose guard
   is "" -- gives the result; no case (default) = "".  A field is named by its selector path
   below the decoded manifest.  On the repaired tree this is: artifactType, for image manifests
   falling back to the config media type (the rule of registry.Referrers and the distribution
   spec); indexes carry artifactType too (Proofs: fetch_artifact_type_table). *)
Definition field_of (s : source) (id : nat) (name : str) : str :=
  if str_eqb name (b "ArtifactType") then s_mat s id
  else if str_eqb name (b "Config.MediaType") then s_mcfg s id
  else [].

Fixpoint eval_rule (s : source) (id : nat) (steps : list (str * str)) : str :=
  match steps with
  | [] => []
  | (g, f) :: rest =>
    if (is_empty g || negb (is_empty (field_of s id g)))%bool then field_of s id f
    else eval_rule s id rest
  end.

Definition fetch_artifact_type (s : source) (id : nat) : str :=
  match find (fun c => kind_eqb (s_kind s id) (kind_of_selector (fst c))) fetchArtifactType_rules with
  | Some c => eval_rule s id (snd c)
  | None => []
  end.

(* which media types make FilterArtifactType fetch the manifest *)
Definition at_fetch_kind (k : mkind) : bool := in_cases filterArtifactType_cases k.

(* the pinned (pre-fix) source: image manifests always answer with the config
   media type and indexes are never fetched *)
Definition fetch_artifact_type_prefix (s : source) (id : nat) : str :=
  match s_kind s id with
  | KArtifact => s_mat s id
  | KImage => s_mcfg s id
  | _ => []
  end.

Definition at_fetch_kind_prefix (k : mkind) : bool :=
  match k with KArtifact | KImage => true | _ => false end.

(* fetchAnnotations: never nil *)
Definition fetch_annotations (s : source) (id : nat) : annots :=
  match s_mann s id with Some m => m | None => [] end.

Definition ann_fetch_kind (k : mkind) : bool := in_cases filterAnnotation_cases k.

(* one call of opts.FilterArtifactType(regex) / opts.FilterAnnotation(key, regex);
   a regular expression is its MatchString function, None = nil regex *)
Inductive filter :=
| FArt (re : option (str -> bool))
| FAnn (key : str) (re : option (str -> bool)).

Definition fill_at_gen (fk : mkind -> bool) (ft : source -> nat -> str) (s : source) (p : desc) : desc :=
  if is_empty (d_at p) then
    if fk (s_kind s (d_id p)) then mkDesc (d_id p) (ft s (d_id p)) (d_ann p) else p
  else p.

Definition fill_at := fill_at_gen at_fetch_kind fetch_artifact_type.
Definition fill_at_prefix := fill_at_gen at_fetch_kind_prefix fetch_artifact_type_prefix.

Definition fill_ann (s : source) (p : desc) : desc :=
  match d_ann p with
  | None => if ann_fetch_kind (s_kind s (d_id p))
            then mkDesc (d_id p) (d_at p) (Some (fetch_annotations s (d_id p))) else p
  | Some _ => p
  end.

Definition keep_ann (key : str) (re : option (str -> bool)) (p : desc) : bool :=
  match d_ann p with
  | None => false
  | Some m => match lookup key m with
              | None => false
              | Some v => match re with None => true | Some f => f v end
              end
  end.

Definition apply_filter_gen (fill : source -> desc -> desc) (s : source) (f : filter) (ps : list desc) : list desc :=
  match f with
  | FArt None => ps                                   (* regex == nil: opts unchanged *)
  | FArt (Some re) => List.filter (fun p => re (d_at p)) (map (fill s) ps)
  | FAnn key re => List.filter (keep_ann key re) (map (fill_ann s) ps)
  end.

Definition apply_filter := apply_filter_gen fill_at.
Definition apply_filter_prefix := apply_filter_gen fill_at_prefix.

(* the branch `if rf, ok := src.(registry.ReferrerLister); ok` of a filter that was
   installed while opts.FindPredecessors was still nil: keep(r) on each served
   referrer, page by page, nothing fetched *)
Definition apply_lister (f : filter) (ps : list desc) : list desc :=
  match f with
  | FArt None => ps
  | FArt (Some re) => List.filter (fun p => re (d_at p)) ps
  | FAnn key re => List.filter (keep_ann key re) ps
  end.

(* FilterArtifactType(nil) returns without touching opts *)
Definition is_noop (f : filter) : bool := match f with FArt None => true | _ => false end.

(* state: (opts.FindPredecessors is still nil, predecessors so far) *)
Definition step_gen fill (s : source) (acc : bool * list desc) (f : filter) : bool * list desc :=
  if is_noop f then acc
  else if (fst acc && s_lister s)%bool then (false, apply_lister f (snd acc))
  else (false, apply_filter_gen fill s f (snd acc)).

(* opts.FindPredecessors after the calls [fs] (in call order);
   [] = the default src.Predecessors *)
Definition find_preds_gen fill (s : source) (fs : list filter) (id : nat) : list desc :=
  snd (fold_left (step_gen fill s) fs (true, s_preds s id)).

(* the caller set opts.FindPredecessors = custom before calling the filters: every filter takes
   the generic branch (fp != nil), the ReferrerLister shortcut is never used *)
Definition find_preds_custom (s : source) (custom : nat -> list desc) (fs : list filter) (id : nat) : list desc :=
  snd (fold_left (step_gen fill_at s) fs (false, custom id)).

Definition find_preds := find_preds_gen fill_at.
Definition find_preds_prefix := find_preds_gen fill_at_prefix.

(* ---- the DFS of findRoots ---- *)

Definition frame := (desc * nat)%type.       (* copyutil.NodeInfo: node, depth *)

Definition mem (x : nat) (l : list nat) : bool := existsb (Nat.eqb x) l.

(* addRoot: rootMap keeps the first value of a key *)
Definition add_root (d : desc) (roots : list desc) : list desc :=
  if mem (d_id d) (map d_id roots) then roots else roots ++ [d].

(* for _, predecessor := range predecessors { if !visited.Contains(key) { stack.Push(...) } }
   the head of the list is the top of the stack *)
Fixpoint push_preds (ps : list desc) (depth : nat) (visited : list nat) (stack : list frame) : list frame :=
  match ps with
  | [] => stack
  | p :: ps' => push_preds ps' depth visited
                  (if mem (d_id p) visited then stack else (p, depth) :: stack)
  end.

(* one loop iteration per unit of fuel; None = fuel exhausted *)
Fixpoint dfs (fuel : nat) (fp : nat -> list desc) (limit : Z)
         (stack : list frame) (visited : list nat) (roots : list desc) : option (list desc) :=
  match fuel with
  | O => None
  | S fuel' =>
    match stack with
    | [] => Some roots
    | (cur, d) :: rest =>
      if mem (d_id cur) visited then dfs fuel' fp limit rest visited roots
      else
        let visited' := d_id cur :: visited in
        if ((0 <? limit)%Z && (Z.of_nat d =? limit)%Z)%bool
        then dfs fuel' fp limit rest visited' (add_root cur roots)
        else match fp (d_id cur) with
             | [] => dfs fuel' fp limit rest visited' (add_root cur roots)
             | ps => dfs fuel' fp limit (push_preds ps (S d) visited' rest) visited' roots
             end
    end
  end.

Definition find_roots_fp (fuel : nat) (fp : nat -> list desc) (limit : Z) (node : desc) : option (list desc) :=
  dfs fuel fp limit [(node, O)] [] [].

Definition find_roots (fuel : nat) (s : source) (fs : list filter) (limit : Z) (node : desc) :=
  find_roots_fp fuel (find_preds s fs) limit node.

Definition find_roots_prefix (fuel : nat) (s : source) (fs : list filter) (limit : Z) (node : desc) :=
  find_roots_fp fuel (find_preds_prefix s fs) limit node.

(* a fuel that always suffices for a source whose nodes are 0..n-1
   (Proofs/FindRoots.v: dfs_terminates) *)
Definition fuel_for (s : source) (n : nat) : nat :=
  S (S (list_sum (map (fun u => length (s_preds s u)) (seq 0 n)))).

(* ---- ExtendedCopy around ExtendedCopyGraph: Resolve, copy, Tag ---- *)
Definition extended_copy (resolve : str -> option desc) (graph_copy_ok : desc -> bool)
           (tag_ok : bool) (src_ref dst_ref : str) (tags : list (str * nat))
  : option (desc * list (str * nat)) :=
  let dst_ref' := if is_empty dst_ref then src_ref else dst_ref in
  match resolve src_ref with
  | None => None
  | Some node =>
    if graph_copy_ok node then
      if tag_ok then Some (node, (dst_ref', d_id node) :: tags) else None
    else None
  end.

Fixpoint resolve_tag (r : str) (tags : list (str * nat)) : option nat :=
  match tags with
  | [] => None
  | (k, v) :: t => if str_eqb r k then Some v else resolve_tag r t
  end.

(* ------------------------------------------------------------------ failing source operations
   Every call into the source made while finding roots is one operation, in program order:
   src.Predecessors(cur) (or, for the first filter on a ReferrerLister, rf.Referrers(cur)), then
   -- filter by filter, predecessor by predecessor -- the src.Fetch of fetchArtifactType /
   fetchAnnotations for a descriptor that lacks the field.  [k] is a countdown: 0 = no fault
   armed, k > 0 = the k-th operation from now returns an error.  findRoots and the filters
   return the first error unchanged (newCopyError("FindPredecessors", ...)). *)

Definition tick (k : nat) : option nat :=
  match k with O => Some O | S O => None | S k' => Some k' end.

Inductive result := ROk (roots : list desc) | RErr | RFuel.

(* the generic loop of a filter: `for _, p := range predecessors { fetch if missing; if keep(p) ... }` *)
Fixpoint filter_e (need_fetch : desc -> bool) (fill : desc -> desc) (keep : desc -> bool)
         (ps : list desc) (k : nat) : option (list desc * nat) :=
  match ps with
  | [] => Some ([], k)
  | p :: ps' =>
    match (if need_fetch p then tick k else Some k) with
    | None => None
    | Some k1 =>
      match filter_e need_fetch fill keep ps' k1 with
      | None => None
      | Some (kept, k2) => let p' := fill p in Some (if keep p' then p' :: kept else kept, k2)
      end
    end
  end.

Definition needs_at_fetch (s : source) (p : desc) : bool :=
  (is_empty (d_at p) && at_fetch_kind (s_kind s (d_id p)))%bool.

Definition needs_ann_fetch (s : source) (p : desc) : bool :=
  match d_ann p with None => ann_fetch_kind (s_kind s (d_id p)) | Some _ => false end.

Definition apply_filter_e (s : source) (f : filter) (ps : list desc) (k : nat) : option (list desc * nat) :=
  match f with
  | FArt None => Some (ps, k)
  | FArt (Some re) => filter_e (needs_at_fetch s) (fill_at s) (fun p => re (d_at p)) ps k
  | FAnn key re => filter_e (needs_ann_fetch s) (fill_ann s) (keep_ann key re) ps k
  end.

(* state: (fp still nil, predecessors so far, countdown) *)
Definition step_e (s : source) (acc : option (bool * list desc * nat)) (f : filter)
  : option (bool * list desc * nat) :=
  match acc with
  | None => None
  | Some (first, ps, k) =>
    if is_noop f then acc
    else if (first && s_lister s)%bool then Some (false, apply_lister f ps, k)
    else match apply_filter_e s f ps k with
         | None => None
         | Some (ps', k') => Some (false, ps', k')
         end
  end.

(* opts.FindPredecessors(cur) with the countdown: the listing itself is the first operation *)
Definition find_preds_e (s : source) (fs : list filter) (id : nat) (k : nat) : option (list desc * nat) :=
  match tick k with
  | None => None
  | Some k1 =>
    match fold_left (step_e s) fs (Some (true, s_preds s id, k1)) with
    | None => None
    | Some (_, ps, k2) => Some (ps, k2)
    end
  end.

Fixpoint dfs_e (fuel : nat) (s : source) (fs : list filter) (limit : Z)
         (stack : list frame) (visited : list nat) (roots : list desc) (k : nat) : result :=
  match fuel with
  | O => RFuel
  | S fuel' =>
    match stack with
    | [] => ROk roots
    | (cur, d) :: rest =>
      if mem (d_id cur) visited then dfs_e fuel' s fs limit rest visited roots k
      else
        let visited' := d_id cur :: visited in
        if ((0 <? limit)%Z && (Z.of_nat d =? limit)%Z)%bool
        then dfs_e fuel' s fs limit rest visited' (add_root cur roots) k
        else match find_preds_e s fs (d_id cur) k with
             | None => RErr
             | Some ([], k') => dfs_e fuel' s fs limit rest visited' (add_root cur roots) k'
             | Some (ps, k') => dfs_e fuel' s fs limit (push_preds ps (S d) visited' rest) visited' roots k'
             end
    end
  end.

Definition find_roots_e (fuel : nat) (s : source) (fs : list filter) (limit : Z) (node : desc) (k : nat) : result :=
  dfs_e fuel s fs limit [(node, O)] [] [] k.

(* ------------------------------------------------------------------ the call sequence
   The same loop, also recording on which nodes opts.FindPredecessors was called, in call order
   (an intermediate observable: the harness records the calls that reach the source). *)
Fixpoint dfs_log (fuel : nat) (fp : nat -> list desc) (limit : Z)
         (stack : list frame) (visited : list nat) (roots : list desc) (calls : list nat)
  : option (list desc * list nat) :=
  match fuel with
  | O => None
  | S fuel' =>
    match stack with
    | [] => Some (roots, rev calls)
    | (cur, d) :: rest =>
      if mem (d_id cur) visited then dfs_log fuel' fp limit rest visited roots calls
      else
        let visited' := d_id cur :: visited in
        if ((0 <? limit)%Z && (Z.of_nat d =? limit)%Z)%bool
        then dfs_log fuel' fp limit rest visited' (add_root cur roots) calls
        else match fp (d_id cur) with
             | [] => dfs_log fuel' fp limit rest visited' (add_root cur roots) (d_id cur :: calls)
             | ps => dfs_log fuel' fp limit (push_preds ps (S d) visited' rest) visited' roots (d_id cur :: calls)
             end
    end
  end.

Definition find_roots_log (fuel : nat) (s : source) (fs : list filter) (limit : Z) (node : desc) :=
  dfs_log fuel (find_preds s fs) limit [(node, O)] [] [] [].

(* ------------------------------------------------------------------ the loop with the depth arithmetic
   re-read from findRoots (Generated/GC03.v findRoots_start_depth / findRoots_stop /
   findRoots_push_depth): this is the version the extracted runner executes; Proofs/FindRoots.v
   dfs_log_g_eq shows it is dfs_log (and breaks when the source's arithmetic changes). *)
Fixpoint dfs_log_g (fuel : nat) (fp : nat -> list desc) (limit : Z)
         (stack : list frame) (visited : list nat) (roots : list desc) (calls : list nat)
  : option (list desc * list nat) :=
  match fuel with
  | O => None
  | S fuel' =>
    match stack with
    | [] => Some (roots, rev calls)
    | (cur, d) :: rest =>
      if mem (d_id cur) visited then dfs_log_g fuel' fp limit rest visited roots calls
      else
        let visited' := d_id cur :: visited in
        if findRoots_stop limit (Z.of_nat d)
        then dfs_log_g fuel' fp limit rest visited' (add_root cur roots) calls
        else match fp (d_id cur) with
             | [] => dfs_log_g fuel' fp limit rest visited' (add_root cur roots) (d_id cur :: calls)
             | ps => dfs_log_g fuel' fp limit
                       (push_preds ps (Z.to_nat (findRoots_push_depth limit (Z.of_nat d))) visited' rest)
                       visited' roots (d_id cur :: calls)
             end
    end
  end.

Definition find_roots_run (fuel : nat) (fp : nat -> list desc) (limit : Z) (node : desc) :=
  dfs_log_g fuel fp limit [(node, Z.to_nat findRoots_start_depth)] [] [] [].

(* ------------------------------------------------------------------ the filters with the decisions
   re-read from FilterAnnotation / FilterArtifactType (Generated/GC03.v *_keep, *_fetch_guard):
   the version the extracted runner executes; Proofs/FindRoots.v find_preds_g_eq shows it is
   find_preds (and breaks when a keep closure or a fetch guard of the source changes). *)
Definition keep_ann_g (key : str) (re : option (str -> bool)) (p : desc) : bool :=
  let ov := match d_ann p with
            | None => (false, [])                 (* value, ok := nilmap[key] *)
            | Some m => match lookup key m with None => (false, []) | Some v => (true, v) end
            end in
  filterAnnotation_keep (fst ov)
    (match re with None => true | Some _ => false end)
    (match re with Some f => f (snd ov) | None => false end).

Definition keep_at_g (re : str -> bool) (p : desc) : bool :=
  filterArtifactType_keep true false (re (d_at p)).

Definition fill_at_g (s : source) (p : desc) : desc :=
  if filterArtifactType_fetch_guard (is_empty (d_at p)) then
    if at_fetch_kind (s_kind s (d_id p)) then mkDesc (d_id p) (fetch_artifact_type s (d_id p)) (d_ann p) else p
  else p.

Definition fill_ann_g (s : source) (p : desc) : desc :=
  if filterAnnotation_fetch_guard (match d_ann p with None => true | Some _ => false end) then
    if ann_fetch_kind (s_kind s (d_id p))
    then mkDesc (d_id p) (d_at p) (Some (fetch_annotations s (d_id p))) else p
  else p.

Definition apply_filter_g (s : source) (f : filter) (ps : list desc) : list desc :=
  match f with
  | FArt None => ps
  | FArt (Some re) => List.filter (keep_at_g re) (map (fill_at_g s) ps)
  | FAnn key re => List.filter (keep_ann_g key re) (map (fill_ann_g s) ps)
  end.

Definition apply_lister_g (f : filter) (ps : list desc) : list desc :=
  match f with
  | FArt None => ps
  | FArt (Some re) => List.filter (keep_at_g re) ps
  | FAnn key re => List.filter (keep_ann_g key re) ps
  end.

Definition step_g (s : source) (acc : bool * list desc) (f : filter) : bool * list desc :=
  if is_noop f then acc
  else if (fst acc && s_lister s)%bool then (false, apply_lister_g f (snd acc))
  else (false, apply_filter_g s f (snd acc)).

Definition find_preds_g (s : source) (fs : list filter) (id : nat) : list desc :=
  snd (fold_left (step_g s) fs (true, s_preds s id)).

Definition find_preds_custom_g (s : source) (custom : nat -> list desc) (fs : list filter) (id : nat) : list desc :=
  snd (fold_left (step_g s) fs (false, custom id)).

(* ------------------------------------------------------------------ ExtendedCopy with its error origins
   Resolve (source) -> findRoots ("FindPredecessors", source) -> copy of the roots -> Tag
   (destination): the first failing step is the error that is returned (newCopyError op/origin). *)
Inductive xop := OpResolve | OpFindPredecessors | OpCopy | OpTag.
Inductive xresult := XOk (node : desc) (tags : list (str * nat)) | XErr (op : xop).

Definition extended_copy_x (resolve : str -> option desc) (roots_ok copy_ok tag_ok : bool)
           (src_ref dst_ref : str) (tags : list (str * nat)) : xresult :=
  let dst_ref' := if is_empty dst_ref then src_ref else dst_ref in
  match resolve src_ref with
  | None => XErr OpResolve
  | Some node =>
    if negb roots_ok then XErr OpFindPredecessors
    else if negb copy_ok then XErr OpCopy
    else if negb tag_ok then XErr OpTag
    else XOk node ((dst_ref', d_id node) :: tags)
  end.

(* ------------------------------------------------------------------ failing operations below a
   caller-supplied FindPredecessors: the caller's function lists the predecessors (one operation:
   its own call into the source), every filter then takes the generic branch *)
Definition find_preds_custom_e (s : source) (custom : nat -> list desc) (fs : list filter) (id : nat) (k : nat)
  : option (list desc * nat) :=
  match tick k with
  | None => None
  | Some k1 =>
    match fold_left (step_e s) fs (Some (false, custom id, k1)) with
    | None => None
    | Some (_, ps, k2) => Some (ps, k2)
    end
  end.

(* the error-aware loop over any error-aware FindPredecessors *)
Fixpoint dfs_ef (fuel : nat) (fpe : nat -> nat -> option (list desc * nat)) (limit : Z)
         (stack : list frame) (visited : list nat) (roots : list desc) (k : nat) : result :=
  match fuel with
  | O => RFuel
  | S fuel' =>
    match stack with
    | [] => ROk roots
    | (cur, d) :: rest =>
      if mem (d_id cur) visited then dfs_ef fuel' fpe limit rest visited roots k
      else
        let visited' := d_id cur :: visited in
        if ((0 <? limit)%Z && (Z.of_nat d =? limit)%Z)%bool
        then dfs_ef fuel' fpe limit rest visited' (add_root cur roots) k
        else match fpe (d_id cur) k with
             | None => RErr
             | Some ([], k') => dfs_ef fuel' fpe limit rest visited' (add_root cur roots) k'
             | Some (ps, k') => dfs_ef fuel' fpe limit (push_preds ps (S d) visited' rest) visited' roots k'
             end
    end
  end.

Definition find_roots_custom_e (fuel : nat) (s : source) (custom : nat -> list desc) (fs : list filter)
           (limit : Z) (node : desc) (k : nat) : result :=
  dfs_ef fuel (find_preds_custom_e s custom fs) limit [(node, O)] [] [] k.
