(* CopyFaultOpt -- nil callbacks in the fault-extended system (C02, spec-level part).
   As in Model/CopyOpt.v (C01/C04): a nil callback of CopyGraphOptions leaves no event in the recorded
   trace, so a recorded trace is first ELABORATED: the invocation of a nil PostCopy / OnCopySkipped /
   OnMounted is inserted right after the event that leaves the node waiting for it, the invocation of a
   nil PreCopy right before the node's next src.Fetch / dst.Push(Reference); an event of a nil callback
   in the recorded trace is rejected.  Fault events never need an insertion (a failing operation leaves
   the node Dead).  No proofs in this file. *)
From Oras Require Import Base.Prelude Model.CopySpec Model.CopyOpt Model.CopyFault.
Local Open Scope nat_scope.

Definition fnil_cb (cs : cbset) (fe : fevent) : bool :=
  match fe with Ev e => nil_cb_event cs e | _ => false end.

Definition fpre_events (cs : cbset) (fs : fstate) (fe : fevent) : list fevent :=
  match fe with Ev e => map Ev (pre_events cs (fb fs) e) | _ => [] end.

Definition fpost_events (cs : cbset) (fs : fstate) (fe : fevent) : list fevent :=
  match fe with
  | Ev e => match returned (fb fs) with
            | Some _ => []
            | None => map Ev (post_events cs (fb fs) e)
            end
  | _ => []
  end.

(* one recorded event: the state after it and the elaborated events it stands for *)
Definition fstep_opt (cs : cbset) (g : graph) (c : cfg) (ext : bool) (fs : fstate) (fe : fevent)
  : option (fstate * list fevent) :=
  if fnil_cb cs fe then None else
  let pre := fpre_events cs fs fe in
  match frun g c ext fs (pre ++ [fe]) with
  | None => None
  | Some fs2 =>
      let post := fpost_events cs fs2 fe in
      match frun g c ext fs2 post with
      | None => None
      | Some fs3 => Some (fs3, pre ++ [fe] ++ post)
      end
  end.

Fixpoint frun_opt (cs : cbset) (g : graph) (c : cfg) (ext : bool) (fs : fstate) (tr : list fevent)
  : option (fstate * list fevent) :=
  match tr with
  | [] => Some (fs, [])
  | fe :: tr' =>
      match fstep_opt cs g c ext fs fe with
      | None => None
      | Some (fs1, full1) =>
          match frun_opt cs g c ext fs1 tr' with
          | None => None
          | Some (fs2, full2) => Some (fs2, full1 ++ full2)
          end
      end
  end.

Definition faccepts_opt (cs : cbset) (g : graph) (c : cfg) (ext : bool) (d0 : list node) (tr : list fevent) :=
  frun_opt cs g c ext (finit c ext d0) tr.

(* erase the invocations of nil callbacks *)
Definition ferase (cs : cbset) (tr : list fevent) : list fevent :=
  filter (fun fe => negb (fnil_cb cs fe)) tr.
