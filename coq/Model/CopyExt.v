(* CopyExt -- oras.ExtendedCopy as a whole: ExtendedCopyGraph's walk from every root above the node
   (CopySpec with c_mode = MGraph, roots c_root :: c_xroots sharing tracker, proxy and limiter), and,
   when the walk returned nil, dst.Tag(node, dstRef).  The recorded trace has the walk's store and
   callback events, then TagB node, TagE node, and one final Ret.  The walk's own return is not an
   event: where the trace goes on with TagB the walk must have been allowed to return success.
   No proofs in this file. *)
From Oras Require Import Base.Prelude Model.CopySpec Model.CopyOpt Model.CopyCancel.
Local Open Scope nat_scope.

Definition with_tag (st : state) (n : node) : state :=
  mkState (ph st) (dst st) (cached st) (Some n) (returned st).

(* tgt: the descriptor the source reference resolved to (what ExtendedCopy tags and returns) *)
Fixpoint xrun (g : graph) (c : cfg) (tgt : node) (st : state) (tr : list event) : option state :=
  match tr with
  | [] => Some st
  | [TagB n; TagE n'; Ret true] =>
      if Nat.eqb n tgt && Nat.eqb n' tgt
      then match step g c st (Ret true) with            (* ExtendedCopyGraph returned nil *)
           | Some st' => Some (with_tag st' tgt)
           | None => None
           end
      else None
  | e :: r =>
      match e with
      | TagB _ | TagE _ | Ret true => None               (* a tag / success anywhere else is not ExtendedCopy *)
      | _ => match step g c st e with Some st' => xrun g c tgt st' r | None => None end
      end
  end.

Definition xaccepts (g : graph) (c : cfg) (tgt : node) (d0 : list node) (tr : list event) : option state :=
  xrun g c tgt (init c d0) tr.

(* ---- the same under every option set and with cancellation (Model/CopyOpt.v, Model/CopyCancel.v):
   the recorded trace either ends with the node's tag right before the success return -- then the
   rest must be a successful run of the walk -- or carries no such tag -- then the walk must not
   have returned success (ExtendedCopy returns the walk's error without touching the reference). ---- *)
Fixpoint xstrip (tgt : node) (tr : list cevent) : option (list cevent) :=
  match tr with
  | [] => None
  | [Ev (TagB n); Ev (TagE n'); Ev (Ret true)] =>
      if Nat.eqb n tgt && Nat.eqb n' tgt then Some [Ev (Ret true)] else None
  | ce :: r => match xstrip tgt r with Some r' => Some (ce :: r') | None => None end
  end.

Definition xcaccepts_opt (cs : cbset) (g : graph) (c : cfg) (tgt : node) (d0 : list node) (tr : list cevent)
  : option (cstate * list event) :=
  match xstrip tgt tr with
  | Some tr' =>
      match caccepts_opt cs g c d0 tr' with
      | Some (s, full) =>
          match returned (cs_st s) with
          | Some true => Some (mkCState (with_tag (cs_st s) tgt) (cs_cancelled s), full)
          | _ => None
          end
      | None => None
      end
  | None =>
      match caccepts_opt cs g c d0 tr with
      | Some (s, full) =>
          match returned (cs_st s) with
          | Some true => None
          | _ => Some (s, full)
          end
      | None => None
      end
  end.
