(* CopyExt -- oras.ExtendedCopy as a whole: ExtendedCopyGraph's walk from every root above the node
   (CopySpec with c_mode = MGraph, roots c_root :: c_xroots sharing tracker, proxy and limiter), and,
   when the walk returned nil, dst.Tag(node, dstRef).  The recorded trace has the walk's store and
   callback events, then TagB node, TagE node, and one final Ret.  The walk's own return is not an
   event: where the trace goes on with TagB the walk must have been allowed to return success.
   No proofs in this file. *)
From Oras Require Import Base.Prelude Model.CopySpec.
Local Open Scope nat_scope.

Definition with_tag (st : state) (n : node) : state :=
  mkState (ph st) (dst st) (cached st) (Some n) (returned st).

(* tgt: the descriptor the source reference resolved to (what ExtendedCopy tags and returns) *)
Fixpoint xrun (g : graph) (c : cfg) (tgt : node) (st : state) (tr : list event) : option state :=
  match tr with
  | [] => Some st
  | [TagB n; TagE n'; Ret true] =>
      if Nat.eqb n tgt && Nat.eqb n' tgt
      then match step g c st (Ret true) with            (* ExtendedCopyGraph returned nil *)
           | Some st' => Some (with_tag st' tgt)
           | None => None
           end
      else None
  | e :: r =>
      match e with
      | TagB _ | TagE _ | Ret true => None               (* a tag / success anywhere else is not ExtendedCopy *)
      | _ => match step g c st e with Some st' => xrun g c tgt st' r | None => None end
      end
  end.

Definition xaccepts (g : graph) (c : cfg) (tgt : node) (d0 : list node) (tr : list event) : option state :=
  xrun g c tgt (init c d0) tr.
