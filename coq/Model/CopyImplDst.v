(* CopyImplDst -- the protocol LTS of Model/CopyImpl.v with a DESTINATION.
   CopyImpl leaves the outcome of dst.Exists an unconstrained choice and has no destination content.
   This wrapper adds it without touching CopyImpl: a state is a protocol state plus the set of nodes
   the destination holds;
     - dst.Exists answers true exactly for the nodes held          (LExists t ExTrue / ExFalse)
     - a successful copyNode stores its node                       (LPush t true)
     - a failing copyNode may have stored it before failing        (DPushFailStored t = LPush t false + store)
   every other label leaves the destination alone.  Link-closure of the destination at every reachable
   state of THIS system is the property C02 at the granularity of the protocol (all interleavings of
   tasks, permits, done channels, cancel-cause contexts; all fault and cancellation choices).
   No proofs in this file. *)
From Coq Require Import List Arith Bool.
From Oras Require Import Model.CopyImpl.
Import ListNotations.

Record dstate := mkD { ds : state; dd : list nat }.

Definition dmem (n : nat) (l : list nat) : bool := existsb (Nat.eqb n) l.

Inductive dlabel := DL (l : label) | DPushFailStored (t : nat).

(* the protocol label underneath *)
Definition dlab (dl : dlabel) : label :=
  match dl with DL l => l | DPushFailStored t => LPush t false end.

Section Graph.
Variable succ : nat -> list nat.

Definition dstep (x : dstate) (dl : dlabel) : option dstate :=
  let node t := t_node (tasks (ds x) t) in
  match step succ (ds x) (dlab dl) with
  | None => None
  | Some s' =>
      match dl with
      | DL (LExists t ExTrue) => if dmem (node t) (dd x) then Some (mkD s' (dd x)) else None
      | DL (LExists t ExFalse) => if dmem (node t) (dd x) then None else Some (mkD s' (dd x))
      | DL (LPush t true) => Some (mkD s' (node t :: dd x))
      | DL _ => Some (mkD s' (dd x))
      | DPushFailStored t => Some (mkD s' (node t :: dd x))
      end
  end.

Fixpoint drun (x : dstate) (ls : list dlabel) : option dstate :=
  match ls with
  | [] => Some x
  | l :: r => match dstep x l with Some x' => drun x' r | None => None end
  end.

(* a deterministic scheduler that respects the destination (used by the Examples): the first enabled label
   satisfying [prefer], else the first enabled fault-free protocol label, whose wrapper step exists *)
Fixpoint dsched (prefer : label -> bool) (fuel : nat) (x : dstate) (acc : list dlabel) : dstate * list dlabel :=
  match fuel with
  | O => (x, rev acc)
  | S k =>
      let ok (f : label -> bool) (l : label) := f l && is_some (dstep x (DL l)) in
      let en := enabled succ (ds x) in
      match (match find (ok prefer) en with Some l => Some l | None => find (ok progress_label) en end) with
      | None => (x, rev acc)
      | Some l => match dstep x (DL l) with Some x' => dsched prefer k x' (DL l :: acc) | None => (x, rev acc) end
      end
  end.

End Graph.

Definition dinit (K : nat) (ext : bool) (roots d0 : list nat) : dstate := mkD (init K ext roots) d0.

(* link-closure, executable *)
Definition dclosedb (succ : nat -> list nat) (d : list nat) : bool :=
  forallb (fun n => forallb (fun m => dmem m d) (succ n)) d.
