(* CopyImplDst: the protocol LTS of Model/CopyImpl.v together with the DESTINATION store.

   The protocol model leaves the outcome of dst.Exists to the environment and does not say what a
   push does.  Here the destination content d : node -> bool is part of the state:
     - dst.Exists answers what the destination holds (LExists t ExTrue needs d node, ExFalse needs
       its absence; ExFail - the check itself fails - is always possible);
     - a push that returns nil stores the node (copyNode: dst.Push returned nil);
     - a push may also fail AFTER the content was stored (DPushStoredFail: the destination stored
       the blob, then Push / a PostCopy callback reported an error) or before (DL (LPush t false));
     - nothing else writes the destination, nothing deletes from it (standing hypothesis of C02:
       during the call the destination is written only by the call itself).
   Everything else is the step function of CopyImpl, unchanged: dstep projects to step, so every
   invariant and theorem of the protocol model holds for the combined system.  No proofs here. *)
From Coq Require Import List Arith Bool.
From Oras Require Import Model.CopyImpl.
Import ListNotations.

Inductive dlabel :=
| DL (l : label)
| DPushStoredFail (t : nat).        (* copyNode stored the content and then returned an error *)

Definition base_label (dl : dlabel) : label :=
  match dl with DL l => l | DPushStoredFail t => LPush t false end.

Record dstate := mkD { d_st : state; d_dst : nat -> bool }.

(* the node a label stores into the destination, if any *)
Definition stores (s : state) (dl : dlabel) : option nat :=
  match dl with
  | DL (LPush t true) | DPushStoredFail t => Some (t_node (tasks s t))
  | _ => None
  end.

Definition exists_guard (x : dstate) (dl : dlabel) : bool :=
  match dl with
  | DL (LExists t ExTrue) => d_dst x (t_node (tasks (d_st x) t))
  | DL (LExists t ExFalse) => negb (d_dst x (t_node (tasks (d_st x) t)))
  | _ => true
  end.

Section Graph.
Variable succ : nat -> list nat.

Definition dstep (x : dstate) (dl : dlabel) : option dstate :=
  if exists_guard x dl then
    match step succ (d_st x) (base_label dl) with
    | Some s' =>
        Some (mkD s' (match stores (d_st x) dl with
                      | Some n => upd (d_dst x) n true
                      | None => d_dst x
                      end))
    | None => None
    end
  else None.

Fixpoint drun (x : dstate) (ls : list dlabel) : option dstate :=
  match ls with
  | [] => Some x
  | l :: r => match dstep x l with Some x' => drun x' r | None => None end
  end.

Definition dcandidates (x : dstate) : list dlabel :=
  map DL (candidates (d_st x)) ++ map DPushStoredFail (seq 0 (ntasks (d_st x))).
Definition denabled (x : dstate) : list dlabel :=
  filter (fun l => is_some (dstep x l)) (dcandidates x).

(* deterministic scheduler for the Examples / self-tests *)
Fixpoint dsched (pick : list dlabel -> option dlabel) (fuel : nat) (x : dstate) (acc : list dlabel) : dstate * list dlabel :=
  match fuel with
  | O => (x, rev acc)
  | S k =>
      match pick (denabled x) with
      | None => (x, rev acc)
      | Some l => match dstep x l with Some x' => dsched pick k x' (l :: acc) | None => (x, rev acc) end
      end
  end.

End Graph.

(* fault choices of the combined system: those of the protocol plus the late push failure *)
Definition dis_fault (dl : dlabel) : bool := is_fault (base_label dl).
Definition dprogress_label (dl : dlabel) : bool := negb (dis_fault dl).

(* the call starts on a destination holding d0 *)
Definition dinit (K : nat) (ext : bool) (roots : list nat) (d0 : nat -> bool) : dstate :=
  mkD (init K ext roots) d0.

(* membership in a finite initial content, for the runner *)
Definition dst_of_list (l : list nat) : nat -> bool := fun n => existsb (Nat.eqb n) l.

Definition dpick_progress (ls : list dlabel) : option dlabel := find dprogress_label ls.
(* prefers a push that stores and then fails *)
Definition dpick_late (ls : list dlabel) : option dlabel :=
  match find (fun l => match l with DPushStoredFail _ => true | _ => false end) ls with
  | Some l => Some l
  | None => find dprogress_label ls
  end.
