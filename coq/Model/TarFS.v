(* internal/fs/tarfs as far as the OCI read-only store uses it (Open / Stat of a cleaned,
   valid path), next to the os.DirFS view of the directory the archive was made from.
   No proofs in this file.

   Raw header names and cleaned paths are identifiers; [clean] is path.Clean on header
   names (so "./blobs/x", "blobs//x", "blobs/./x" and "blobs/x" are one path).
   indexEntries: entries[path.Clean(header.Name)] = (header, offset) for every header in
   archive order, a later entry replacing an earlier one with the same cleaned name;
   getEntry: a missing name is fs.ErrNotExist, an entry that is not a regular file
   (directory, link, ...) is errdef.ErrUnsupported; Open re-reads the entry at its offset
   (archive/tar's framing, PAX/GNU long-name and sparse records are exercised by the harness on
   eleven archive styles incl. GNU tar -S and bsdtar, not modelled). *)
From Coq Require Import List Arith Bool.
Import ListNotations.

(* TSparse: a regular file stored as a sparse member (old GNU type S, or PAX records
   GNU.sparse.xxx): its data section is not a plain copy of the content *)
Inductive tkind := TReg | TSparse | TOther.
Record tentry := mkTE { te_raw : nat; te_kind : tkind; te_data : nat }.
Inductive fsres := FData (content : nat) | FNotExist | FUnsupported
                | FBroken.   (* pre-fix: invalid tar header, truncated bytes or type flag S refused *)
Definition is_file (k : tkind) : bool := match k with TReg | TSparse => true | TOther => false end.

Section TarFS.
  Variable clean : nat -> nat.
  (* the repaired Open decodes sparse members (false: the code as found re-parsed only the
     bare header block in front of the data) *)
  Variable fixSparse : bool.

  Definition tindex := list (nat * tentry).
  Fixpoint tlookup (p : nat) (m : tindex) : option tentry :=
    match m with
    | [] => None
    | (k, e) :: m' => if Nat.eqb p k then Some e else tlookup p m'
    end.
  Definition tset (p : nat) (e : tentry) (m : tindex) : tindex :=
    (p, e) :: filter (fun kv => negb (Nat.eqb p (fst kv))) m.

  Definition index_entries (tar : list tentry) : tindex :=
    fold_left (fun m e => tset (clean (te_raw e)) e m) tar [].

  (* TarFS.Open / Stat of a valid path *)
  Definition tar_open (tar : list tentry) (p : nat) : fsres :=
    match tlookup p (index_entries tar) with
    | None => FNotExist
    | Some e => match te_kind e with
                | TReg => FData (te_data e)
                | TSparse => if fixSparse then FData (te_data e) else FBroken
                | TOther => FUnsupported
                end
    end.

  (* os.DirFS: the regular files of the directory, by cleaned path *)
  Definition dirfs := list (nat * nat).
  Fixpoint dlookup (p : nat) (d : dirfs) : option nat :=
    match d with
    | [] => None
    | (k, c) :: d' => if Nat.eqb p k then Some c else dlookup p d'
    end.
  Definition dir_open (d : dirfs) (p : nat) : fsres :=
    match dlookup p d with Some c => FData c | None => FNotExist end.

  (* the archive [tar] holds the directory [d]: for every regular file its content is the
     last entry of that cleaned name; other names only occur for directories etc. that are
     no files of [d] (stale earlier copies, "./"-style names and directory entries allowed) *)
  Definition archives (tar : list tentry) (d : dirfs) : Prop :=
    (forall p c, dlookup p d = Some c ->
       exists pre e post, tar = pre ++ e :: post /\ clean (te_raw e) = p /\ is_file (te_kind e) = true /\
                          te_data e = c /\ forall e', In e' post -> clean (te_raw e') <> p) /\
    (forall e, In e tar -> dlookup (clean (te_raw e)) d = None -> te_kind e = TOther).
End TarFS.
