(* C14 — the Merge / Pool / updateReferrersIndex system of one referrers tag at CHANNEL
   granularity: what Model/Merge.v does in one step (EComplete) is here what
   internal/syncutil/merge.go does:

     assign:   the caller gets m.status (or m.pendingStatus when the batch is committed);
               a new status channel is created with mergeStatus{main:true} in its buffer
     Do:       status := <-ch        (FRecv: main status, a buffered error status, or the
                                      zero status of a closed channel)
     complete: if err == nil { close(m.status) }
               else { len(m.items)-1 times: m.status <- mergeStatus{err} }   (FNotify, one
                                      step per channel operation; a send blocks while the
                                      one buffer slot is full)
               then, under the lock: committed = false; items, status = pending,
               pendingStatus; the new status channel gets the main status  (FSwap)

   Status channels are numbered by generation: the current batch uses channel [gen], the
   pending batch channel [gen+1], earlier batches lower numbers (their channels are only
   reachable from callers that have not received yet).  m.status == nil iff items = [].
   [verdict] is ghost (the result the batch of a generation is notified with).
   Proofs/MergeFine.v shows that every run of this system is simulated by a run of
   Model/Merge.v, so all theorems about that system hold for this one.  No proofs here. *)
From Oras Require Import Base.Prelude Model.Referrers Model.Merge.

Inductive fmsg := FMain | FRes (r : result).
Record fchan := mkFC { fbuf : option fmsg; fclosed : bool }.

Inductive fpc :=
| FIdle
| FGot (c : change)
| FWait (g : nat)                       (* blocked in <-ch, ch = status channel of generation g *)
| FPrep
| FPrepared (old : option (option index))
| FNeedPut (new : index) (old : option index)
| FNeedDel (old : index) (applied : bool)
| FNotify (r : result) (k : nat)        (* complete(): k sends left (error path) / close pending *)
| FSwap (r : result)                    (* complete(): about to take the lock *)
| FRet (r : result)
| FDone (r : result).

Record fstate := mkF {
  f_pool : option nat;
  f_committed : bool;
  f_items : list (tid * change);
  f_pending : list (tid * change);
  f_gen : nat;
  f_chans : nat -> fchan;
  f_pcs : tid -> fpc;
  f_reg : option index;
  f_store : list index;
  f_verdict : nat -> option result      (* ghost *)
}.

Inductive fevent :=
| FEGet (t : tid) (c : change)
| FEAssign (t : tid)
| FERecv (t : tid)
| FEPrepare (t : tid) (fail : bool)
| FECommit (t : tid)
| FEPut (t : tid) (fail : bool)
| FEPutLost (t : tid)
| FEDel (t : tid) (fail : bool)
| FEDelLost (t : tid)
| FENotify (t : tid)
| FESwap (t : tid)
| FEDone (t : tid)
| FEExtDrop.

Definition fset_pc (s : fstate) (t : tid) (p : fpc) : fstate :=
  mkF (f_pool s) (f_committed s) (f_items s) (f_pending s) (f_gen s) (f_chans s) (upd (f_pcs s) t p)
      (f_reg s) (f_store s) (f_verdict s).

Definition fset_reg (s : fstate) (r : option index) (st : list index) : fstate :=
  mkF (f_pool s) (f_committed s) (f_items s) (f_pending s) (f_gen s) (f_chans s) (f_pcs s) r st (f_verdict s).

(* the batch result is known: complete(err) starts *)
Definition fnotify (s : fstate) (t : tid) (r : result) : fstate :=
  mkF (f_pool s) (f_committed s) (f_items s) (f_pending s) (f_gen s) (f_chans s)
      (upd (f_pcs s) t (FNotify r (length (f_items s) - 1)))
      (f_reg s) (f_store s) (upd (f_verdict s) (f_gen s) (Some r)).

Definition fafter_put (skipgc : bool) (s : fstate) (t : tid) (old : option index) : fstate :=
  if skipgc then fnotify s t ROk
  else match old with
       | None => fnotify s t ROk
       | Some oi => fset_pc s t (FNeedDel oi true)
       end.

Definition fstep (skipgc : bool) (s : fstate) (e : fevent) : option fstate :=
  match e with
  | FEGet t c =>
      match f_pcs s t with
      | FIdle =>
          if is_empty (cdesc c) then None else
          match f_pool s with
          | None =>
              Some (mkF (Some 1%nat) false [] [] (f_gen s) (f_chans s) (upd (f_pcs s) t (FGot c))
                        (f_reg s) (f_store s) (f_verdict s))
          | Some rc =>
              Some (mkF (Some (S rc)) (f_committed s) (f_items s) (f_pending s) (f_gen s) (f_chans s)
                        (upd (f_pcs s) t (FGot c)) (f_reg s) (f_store s) (f_verdict s))
          end
      | _ => None
      end
  | FEAssign t =>
      match f_pcs s t with
      | FGot c =>
          if f_committed s then
            (* m.pendingStatus (created empty when nil) *)
            Some (mkF (f_pool s) true (f_items s) (f_pending s ++ [(t, c)]) (f_gen s) (f_chans s)
                      (upd (f_pcs s) t (FWait (S (f_gen s)))) (f_reg s) (f_store s) (f_verdict s))
          else
            Some (mkF (f_pool s) false (f_items s ++ [(t, c)]) (f_pending s) (f_gen s)
                      (if is_nil (f_items s)
                       then upd (f_chans s) (f_gen s) (mkFC (Some FMain) false)   (* status == nil: create, send main *)
                       else f_chans s)
                      (upd (f_pcs s) t (FWait (f_gen s))) (f_reg s) (f_store s) (f_verdict s))
      | _ => None
      end
  | FERecv t =>
      match f_pcs s t with
      | FWait g =>
          let c := f_chans s g in
          match fbuf c with
          | Some FMain =>
              Some (mkF (f_pool s) (f_committed s) (f_items s) (f_pending s) (f_gen s)
                        (upd (f_chans s) g (mkFC None (fclosed c))) (upd (f_pcs s) t FPrep)
                        (f_reg s) (f_store s) (f_verdict s))
          | Some (FRes r) =>
              Some (mkF (f_pool s) (f_committed s) (f_items s) (f_pending s) (f_gen s)
                        (upd (f_chans s) g (mkFC None (fclosed c))) (upd (f_pcs s) t (FRet r))
                        (f_reg s) (f_store s) (f_verdict s))
          | None => if fclosed c then Some (fset_pc s t (FRet ROk)) else None
          end
      | _ => None
      end
  | FEPrepare t fail =>
      match f_pcs s t with
      | FPrep => Some (fset_pc s t (FPrepared (if fail then None else Some (f_reg s))))
      | _ => None
      end
  | FECommit t =>
      match f_pcs s t with
      | FPrepared old =>
          let s' := mkF (f_pool s) true (f_items s) (f_pending s) (f_gen s) (f_chans s) (f_pcs s)
                        (f_reg s) (f_store s) (f_verdict s) in
          match old with
          | None => Some (fnotify s' t RErr)
          | Some o =>
              match apply_changes (idx o) (map snd (f_items s)) with
              | NoUpdate => Some (fnotify s' t ROk)
              | Updated new =>
                  if negb (is_nil new) || skipgc then Some (fset_pc s' t (FNeedPut new o))
                  else match o with
                       | None => Some (fnotify s' t ROk)
                       | Some oi => Some (fset_pc s' t (FNeedDel oi false))
                       end
              end
          end
      | _ => None
      end
  | FEPut t fail =>
      match f_pcs s t with
      | FNeedPut new old =>
          if fail then Some (fnotify s t RErr)
          else Some (fafter_put skipgc (fset_reg s (Some new) (new :: f_store s)) t old)
      | _ => None
      end
  | FEPutLost t =>
      (* the PUT takes effect, the client sees an error: update() returns it *)
      match f_pcs s t with
      | FNeedPut new old => Some (fnotify (fset_reg s (Some new) (new :: f_store s)) t RLost)
      | _ => None
      end
  | FEDel t fail =>
      match f_pcs s t with
      | FNeedDel oi ap =>
          if fail then Some (fnotify s t (if ap then RIdxDel else RErr))
          else
            let r' := match f_reg s with
                      | Some cur => if index_eqb cur oi then None else Some cur
                      | None => None
                      end in
            Some (fnotify (fset_reg s r' (filter (fun x => negb (index_eqb x oi)) (f_store s))) t ROk)
      | _ => None
      end
  | FEDelLost t =>
      (* the DELETE takes effect, the client sees an error *)
      match f_pcs s t with
      | FNeedDel oi ap =>
          let r' := match f_reg s with
                    | Some cur => if index_eqb cur oi then None else Some cur
                    | None => None
                    end in
          Some (fnotify (fset_reg s r' (filter (fun x => negb (index_eqb x oi)) (f_store s))) t
                        (if ap then RIdxDel else RLost))
      | _ => None
      end
  | FENotify t =>
      match f_pcs s t with
      | FNotify r k =>
          let c := f_chans s (f_gen s) in
          match r with
          | ROk => Some (mkF (f_pool s) (f_committed s) (f_items s) (f_pending s) (f_gen s)
                             (upd (f_chans s) (f_gen s) (mkFC (fbuf c) true)) (upd (f_pcs s) t (FSwap r))
                             (f_reg s) (f_store s) (f_verdict s))
          | _ =>
              match k with
              | O => Some (fset_pc s t (FSwap r))
              | S k' =>
                  match fbuf c with
                  | None => Some (mkF (f_pool s) (f_committed s) (f_items s) (f_pending s) (f_gen s)
                                      (upd (f_chans s) (f_gen s) (mkFC (Some (FRes r)) (fclosed c)))
                                      (upd (f_pcs s) t (FNotify r k')) (f_reg s) (f_store s) (f_verdict s))
                  | Some _ => None      (* the send blocks *)
                  end
              end
          end
      | _ => None
      end
  | FESwap t =>
      match f_pcs s t with
      | FSwap r =>
          let g' := S (f_gen s) in
          Some (mkF (f_pool s) false (f_pending s) [] g'
                    (if is_nil (f_pending s) then f_chans s
                     else upd (f_chans s) g' (mkFC (Some FMain) (fclosed (f_chans s g'))))
                    (upd (f_pcs s) t (FRet r)) (f_reg s) (f_store s) (f_verdict s))
      | _ => None
      end
  | FEDone t =>
      match f_pcs s t, f_pool s with
      | FRet r, Some rc =>
          Some (mkF (if Nat.leb (rc - 1) 0 then None else Some (rc - 1)%nat)
                    (f_committed s) (f_items s) (f_pending s) (f_gen s) (f_chans s)
                    (upd (f_pcs s) t (FDone r)) (f_reg s) (f_store s) (f_verdict s))
      | _, _ => None
      end
  | FEExtDrop =>
      match f_reg s with
      | Some x =>
          if forallb is_empty x
          then Some (fset_reg s None (filter (fun y => negb (index_eqb y x)) (f_store s)))
          else None
      | None => None
      end
  end.

Fixpoint frun (skipgc : bool) (s : fstate) (tr : list fevent) : option fstate :=
  match tr with
  | [] => Some s
  | e :: tr' => match fstep skipgc s e with Some s' => frun skipgc s' tr' | None => None end
  end.

Definition finit (reg0 : option index) (store0 : list index) : fstate :=
  mkF None false [] [] 0 (fun _ => mkFC None false) (fun _ => FIdle) reg0 store0 (fun _ => None).

Definition fquiescent (s : fstate) : Prop :=
  forall t, f_pcs s t = FIdle \/ exists r, f_pcs s t = FDone r.

(* ---------- replay of a visible schedule (as in Model/Merge.v), channel level ---------- *)

Definition ftry (sg : bool) (acc : fstate * bool) (e : fevent) : fstate * bool :=
  match fstep sg (fst acc) e with Some s' => (s', true) | None => acc end.

(* one pass over callers 0..n-1: channel operations of complete(), the swap, receives of
   available result statuses, releases *)
Fixpoint fsettle_pass (sg : bool) (n : nat) (s : fstate) : fstate * bool :=
  match n with
  | O => (s, false)
  | S k =>
      let acc := fsettle_pass sg k s in
      match f_pcs (fst acc) k with
      | FNotify _ _ => ftry sg acc (FENotify k)
      | FSwap _ => ftry sg acc (FESwap k)
      | FRet _ => ftry sg acc (FEDone k)
      | FWait g =>
          match fbuf (f_chans (fst acc) g) with
          | Some FMain => acc            (* who takes the main status is decided by the schedule (VP) *)
          | _ => ftry sg acc (FERecv k)
          end
      | _ => acc
      end
  end.

Fixpoint fsettle (sg : bool) (n fuel : nat) (s : fstate) : fstate :=
  match fuel with
  | O => s
  | S f => let (s1, ch) := fsettle_pass sg n s in if ch then fsettle sg n f s1 else s1
  end.

Definition fvis_step (sg : bool) (changes : list change) (acc : fstate * list obs) (v : vis)
  : option (fstate * list obs) :=
  let (s, log) := acc in
  let n := length changes in
  let r :=
    match v with
    | VG t => match frun sg s [FEGet t (nth t changes (Add empty_desc)); FEAssign t] with
              | Some s1 => Some (s1, log) | None => None end
    | VP t f =>
        match frun sg s [FERecv t; FEPrepare t f] with
        | Some s1 =>
            let log1 := match f_pcs s1 t with
                        | FPrepared (Some _) => log ++ [OBatch t (map fst (f_items s1))]
                        | _ => log
                        end in
            match fstep sg s1 (FECommit t) with Some s2 => Some (s2, log1) | None => None end
        | None => None
        end
    | VU t f =>
        let log1 := match f_pcs s t with FNeedPut nw _ => log ++ [OPut t nw] | _ => log end in
        match fstep sg s (FEPut t f) with Some s1 => Some (s1, log1) | None => None end
    | VL t =>
        let log1 := match f_pcs s t with FNeedPut nw _ => log ++ [OPut t nw] | _ => log end in
        match fstep sg s (FEPutLost t) with Some s1 => Some (s1, log1) | None => None end
    | VD t f => match fstep sg s (FEDel t f) with Some s1 => Some (s1, log) | None => None end
    | VK t => match fstep sg s (FEDelLost t) with Some s1 => Some (s1, log) | None => None end
    | VX => match fstep sg s FEExtDrop with Some s1 => Some (s1, log) | None => None end
    end in
  match r with
  | Some (s1, log1) => Some (fsettle sg n (6 * n + 6) s1, log1)
  | None => None
  end.

Fixpoint frun_vis (sg : bool) (changes : list change) (acc : fstate * list obs) (vs : list vis)
  : option (fstate * list obs) :=
  match vs with
  | [] => Some acc
  | v :: vs' => match fvis_step sg changes acc v with
                | Some acc' => frun_vis sg changes acc' vs'
                | None => None
                end
  end.

Definition fres_of (p : fpc) : option result := match p with FDone r => Some r | _ => None end.

Definition fvis_summary (sg : bool) (r0 : option index) (changes : list change) (vs : list vis)
  : option (list (option result) * option (list N) * list obs * nat) :=
  match frun_vis sg changes (finit r0 (match r0 with Some x => [x] | None => [] end), []) vs with
  | Some (s, log) =>
      Some (map (fun t => fres_of (f_pcs s t)) (seq 0 (length changes)),
            match f_reg s with Some l => Some (map dkey l) | None => None end, log,
            length (dedup_idx (filter (fun x => negb (is_cur (f_reg s) x)) (f_store s))))
  | None => None
  end.
