(* CopyLinks -- the link structure of the content universe, from the code's own tables.
   CopySpec takes the successor function [g_succ] and the flags [g_foreign] / [g_ismf] as
   parameters.  Here they are DERIVED from the decoded fields of each manifest by
     successors_schema      (Generated/GC01.v: the five cases of content.Successors, i.e. per
                             media type the ordered descriptor fields that are returned),
     isManifest_cases, isForeignLayer_cases  (the switch labels of descriptor.IsManifest /
                             descriptor.IsForeignLayer),
   all re-translated from the Go source on every run.  [spec_kinds] is the hand-written
   reading of the property ("config, layer, blob, manifest-list and subject links") per media
   type, from the OCI image / distribution and Docker v2 specifications.
   Media types are named by the Go constant that denotes them (e.g.
   "ocispec.MediaTypeImageManifest"); any other media type is a plain blob.
   No proofs in this file. *)
From Oras Require Import Base.Prelude Generated.GC01 Model.CopySpec.
Local Open Scope nat_scope.

Inductive linkkind := LSubject | LConfig | LLayers | LManifests | LBlobs.

(* the decoded link fields of a node (all empty for a blob) *)
Record mfields := mkFields {
  f_mt : string;
  f_subject : option node;
  f_config : option node;
  f_layers : list node;
  f_manifests : list node;
  f_blobs : list node
}.

Definition kind_of_name (s : string) : option linkkind :=
  if String.eqb s "Subject" then Some LSubject
  else if String.eqb s "Config" then Some LConfig
  else if String.eqb s "Layers" then Some LLayers
  else if String.eqb s "Manifests" then Some LManifests
  else if String.eqb s "Blobs" then Some LBlobs
  else None.

Definition opt_list (o : option node) : list node := match o with Some x => [x] | None => [] end.

Definition links_of (k : linkkind) (f : mfields) : list node :=
  match k with
  | LSubject => opt_list (f_subject f)
  | LConfig => opt_list (f_config f)
  | LLayers => f_layers f
  | LManifests => f_manifests f
  | LBlobs => f_blobs f
  end.

Fixpoint lookup_schema (sch : list (list string * list string)) (mt : string) : option (list string) :=
  match sch with
  | [] => None
  | (labels, fields) :: r => if existsb (String.eqb mt) labels then Some fields else lookup_schema r mt
  end.

(* content.Successors on the decoded manifest *)
Definition successors_by (sch : list (list string * list string)) (f : mfields) : list node :=
  match lookup_schema sch (f_mt f) with
  | None => []
  | Some names =>
      flat_map (fun s => match kind_of_name s with Some k => links_of k f | None => [] end) names
  end.

Definition successors (f : mfields) : list node := successors_by successors_schema f.
Definition is_manifest_mt (mt : string) : bool := existsb (String.eqb mt) isManifest_cases.
Definition is_foreign_mt (mt : string) : bool := existsb (String.eqb mt) isForeignLayer_cases.

(* the property's links, per media type (specifications, not code) *)
Definition spec_kinds (mt : string) : list linkkind :=
  if String.eqb mt "docker.MediaTypeManifest" then [LConfig; LLayers]
  else if String.eqb mt "ocispec.MediaTypeImageManifest" then [LSubject; LConfig; LLayers]
  else if String.eqb mt "docker.MediaTypeManifestList" then [LManifests]
  else if String.eqb mt "ocispec.MediaTypeImageIndex" then [LSubject; LManifests]
  else if String.eqb mt "spec.MediaTypeArtifactManifest" then [LSubject; LBlobs]
  else [].

(* the content universe of CopySpec built from the nodes' fields *)
Definition graph_of (n : nat) (flds : node -> mfields) (dkey : node -> nat) : graph :=
  mkGraph n (fun x => successors (flds x))
          (fun x => is_foreign_mt (f_mt (flds x)))
          (fun x => is_manifest_mt (f_mt (flds x)))
          dkey.

(* removeForeignLayers (copy.go): the in-place compaction of the successor slice, as the code does it --
   read index i, write index j <= i, `if i != j { descs[j] = desc }`, result descs[:j].  The element of
   iteration i is read from the array as it is then (earlier writes went to indices < i). *)
Fixpoint set_nth (l : list node) (k : nat) (v : node) : list node :=
  match l, k with
  | [], _ => []
  | _ :: r, O => v :: r
  | x :: r, S k' => x :: set_nth r k' v
  end.

Fixpoint rfl (foreign : node -> bool) (fuel i j : nat) (arr : list node) : list node :=
  match fuel with
  | O => firstn j arr
  | S f =>
      match nth_error arr i with
      | None => firstn j arr
      | Some d =>
          if foreign d then rfl foreign f (S i) j arr
          else rfl foreign f (S i) (S j) (if Nat.eqb i j then arr else set_nth arr j d)
      end
  end.

Definition remove_foreign_inplace (foreign : node -> bool) (descs : list node) : list node :=
  rfl foreign (length descs) 0 0 descs.
