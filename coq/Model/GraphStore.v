(* Model/GraphStore.v -- the part of content/oci.Store that decides what
   Predecessors answers: blob storage, the by-digest and by-name entries of the tag
   resolver (they are the root list written to index.json), and graph.Memory
   (Model/GraphMem.v).  No proofs here.

   o_blobs     the blobs on disk (Storage); one key per digest is assumed (the
               generator's universe; "twins" are out of scope)
   o_bydigest  resolver entries reference == digest  (Push of a manifest, Tag)
   o_tagged    nodes having at least one entry reference != digest (tag names are
               irrelevant for Predecessors)
   o_graph     graph.Memory

   Push (oci.go:132-148)     storage.Push (AlreadyExists: nothing else happens), graph.Index,
                             and for manifests tag by digest
   Tag (oci.go:246-280)      needs the blob; tags by digest and by name
   Untag                     the node loses its last tag name: Store.Untag, or Tag moving the
                             name to another descriptor (resolver.Tag overwrites); the by-digest
                             entry stays
   delete (oci.go:206-230)   untag every reference of the descriptor, graph.Remove,
                             storage.Delete.  Store.Delete with AutoGC is a sequence of
                             these steps (referrers and danglings are queued).
   GC (oci.go:467-583)       gcIndex: fresh resolver and graph; IndexAll for the tagged
                             manifests, then for the by-digest-only manifests whose subject
                             chain reaches the new graph ([kept]: which ones depends on the
                             subject walk and on Go's map order, so it is an argument of the
                             operation and the theorems quantify over it); then the blobs
                             whose digest is not in the new graph are removed.
                             [fixed = false] is the code before commit "fix: oci gcIndex keeps
                             the by-digest index entries ...": the new resolver holds only
                             tagged and kept; [fixed = true] additionally keeps the old
                             by-digest entries of nodes that are in the new graph.
   Reopen                    oci.New / NewFromFS / NewFromTar on the saved index.json:
                             loadIndex = IndexAll for every entry (tagged, then by-digest).
   A GC or reopen that runs out of fuel leaves the state unchanged and reports false. *)
From Coq Require Import List NArith Bool.
Import ListNotations.
From Oras Require Import Model.GraphMem.

Record ostore := mkO {
  o_blobs : list node; o_bydigest : list node; o_tagged : list node; o_graph : graph }.
Definition empty_store : ostore := mkO [] [] [] empty_graph.

Inductive oop :=
| PPush (n : node) | PTag (n : node) | PUntag (n : node) | PDelete (n : node)
| PGC (kept : list node) | PReopen.

Definition o_sok (isman : node -> bool) (s : ostore) : node -> bool :=
  fun x => negb (isman x) || smem x (o_blobs s).

Definition ostep (fixed : bool) (content : node -> list node) (isman : node -> bool)
           (fuel : nat) (s : ostore) (o : oop) : ostore * bool :=
  match o with
  | PPush n =>
      if smem n (o_blobs s) then (s, true)
      else (mkO (n :: o_blobs s)
                (if isman n then sadd n (o_bydigest s) else o_bydigest s)
                (o_tagged s)
                (index (o_graph s) n (content n)), true)
  | PTag n =>
      if smem n (o_blobs s)
      then (mkO (o_blobs s) (sadd n (o_bydigest s)) (sadd n (o_tagged s)) (o_graph s), true)
      else (s, true)
  | PUntag n =>
      (mkO (o_blobs s) (o_bydigest s) (sdel n (o_tagged s)) (o_graph s), true)
  | PDelete n =>
      (mkO (sdel n (o_blobs s)) (sdel n (o_bydigest s)) (sdel n (o_tagged s))
           (fst (remove (o_graph s) n)), true)
  | PGC kept =>
      let roots := o_tagged s ++ kept in
      let (g', ok) := load content (o_sok isman s) fuel roots in
      if ok then
        (mkO (filter (exists_node g') (o_blobs s))
             (roots ++ (if fixed then filter (exists_node g') (o_bydigest s) else []))
             (o_tagged s) g', true)
      else (s, false)
  | PReopen =>
      let (g', ok) := load content (o_sok isman s) fuel (o_tagged s ++ o_bydigest s) in
      if ok then (mkO (o_blobs s) (o_bydigest s) (o_tagged s) g', true) else (s, false)
  end.

Fixpoint orun fixed content isman fuel (s : ostore) (ops : list oop) : ostore * bool :=
  match ops with
  | [] => (s, true)
  | o :: r => let (s1, ok1) := ostep fixed content isman fuel s o in
              let (s2, ok2) := orun fixed content isman fuel s1 r in (s2, ok1 && ok2)
  end.
