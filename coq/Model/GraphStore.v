(* Model/GraphStore.v -- the part of content/oci.Store that decides what
   Predecessors answers: blob storage, the by-digest and by-name entries of the tag
   resolver (they are the root list written to index.json), and graph.Memory
   (Model/GraphMem.v).  No proofs here.

   o_blobs     the blobs on disk (Storage); one key per digest is assumed (the
               generator's universe; "twins" are out of scope)
   o_bydigest  resolver entries reference == digest  (Push of a manifest, Tag)
   o_tagged    nodes having at least one entry reference != digest (tag names are
               irrelevant for Predecessors)
   o_graph     graph.Memory

   Push (oci.go:132-148)     storage.Push (AlreadyExists: nothing else happens), graph.Index,
                             and for manifests tag by digest
   Tag (oci.go:246-280)      needs the blob; tags by digest and by name
   Untag                     the node loses its last tag name: Store.Untag, or Tag moving the
                             name to another descriptor (resolver.Tag overwrites); the by-digest
                             entry stays
   delete (oci.go:206-230)   untag every reference of the descriptor, graph.Remove,
                             storage.Delete.  Store.Delete with AutoGC is a sequence of
                             these steps (referrers and danglings are queued).
                             [reroot = true]: every dangling manifest reported by graph.Remove
                             that has no by-digest entry gets one (it stays listed in index.json
                             until it is deleted itself); [reroot = false] is the code without that.
   Foreign                   the store is closed, index.json is replaced from outside by one that
                             lists only some roots (other tools list only the tagged / top-level
                             manifests) and the layout is opened again (loadIndex).
   GC (oci.go:467-583)       gcIndex: fresh resolver and graph; IndexAll for the tagged
                             manifests, then for the by-digest-only manifests whose subject
                             chain reaches the new graph ([kept]: which ones depends on the
                             subject walk and on Go's map order, so it is an argument of the
                             operation and the theorems quantify over it); then the blobs
                             whose digest is not in the new graph are removed.
                             [fixed = false] is the code before commit "fix: oci gcIndex keeps
                             the by-digest index entries ...": the new resolver holds only
                             tagged and kept; [fixed = true] additionally keeps the old
                             by-digest entries of nodes that are in the new graph.
                             The merged code restores those entries in Store.GC right after
                             gcIndex and then calls saveIndex, before the sweep
                             ([save_late = true]); [save_late = false] is the variant that
                             writes index.json before the entries are restored (only the
                             roots reach the file, the resolver in memory is complete).
   saveIndex                 every Push of a manifest, Tag, Untag, and a delete that untagged
                             something write index.json := resolver ([osave]); the file is kept
                             in o_dbydigest / o_dtagged.
   Reopen                    oci.New / NewFromFS / NewFromTar on the index.json LAST WRITTEN:
                             loadIndex tags every entry by digest (and by name) and runs IndexAll
                             for it; the resolver of the reopened store is what the file names.
   A GC or reopen that runs out of fuel leaves the state unchanged and reports false. *)
From Coq Require Import List NArith Bool.
Import ListNotations.
From Oras Require Import Base.Prelude Generated.GC07 Model.GraphMem.

Record ostore := mkO {
  o_blobs : list node; o_bydigest : list node; o_tagged : list node; o_graph : graph;
  (* index.json as last written by saveIndex: by-digest-only entries and named entries *)
  o_dbydigest : list node; o_dtagged : list node }.
Definition empty_store : ostore := mkO [] [] [] empty_graph [] [].
(* saveIndex (AutoSaveIndex): index.json := the resolver map *)
Definition osave (s : ostore) : ostore :=
  mkO (o_blobs s) (o_bydigest s) (o_tagged s) (o_graph s) (o_bydigest s) (o_tagged s).

Inductive oop :=
| PPush (n : node) | PTag (n : node) | PUntag (n : node) | PDelete (n : node)
| PGC (kept : list node) | PReopen
| PForeign (roots : list node).   (* index.json rewritten from outside: tagged entries + these *)

Definition o_sok (isman : node -> bool) (s : ostore) : node -> bool :=
  fun x => negb (isman x) || smem x (o_blobs s).

Definition ostep (fixed save_late reroot : bool) (content : node -> list node) (isman : node -> bool)
           (fuel : nat) (s : ostore) (o : oop) : ostore * bool :=
  match o with
  | PPush n =>
      if smem n (o_blobs s) then (s, true)
      else
        let g := index (o_graph s) n (content n) in
        if isman n
        then (osave (mkO (n :: o_blobs s) (sadd n (o_bydigest s)) (o_tagged s) g
                         (o_dbydigest s) (o_dtagged s)), true)      (* tag by digest + saveIndex *)
        else (mkO (n :: o_blobs s) (o_bydigest s) (o_tagged s) g (o_dbydigest s) (o_dtagged s), true)
  | PTag n =>
      if smem n (o_blobs s)
      then (osave (mkO (o_blobs s) (sadd n (o_bydigest s)) (sadd n (o_tagged s)) (o_graph s)
                       (o_dbydigest s) (o_dtagged s)), true)
      else (s, true)
  | PUntag n =>
      (osave (mkO (o_blobs s) (o_bydigest s) (sdel n (o_tagged s)) (o_graph s)
                  (o_dbydigest s) (o_dtagged s)), true)
  | PDelete n =>
      let (g', dang) := remove (o_graph s) n in
      (* [reroot]: a manifest that loses its last predecessor gets a by-digest entry *)
      let rr := if reroot then filter (fun d => isman d && negb (smem d (o_bydigest s))) dang else [] in
      let s' := mkO (sdel n (o_blobs s)) (rr ++ sdel n (o_bydigest s)) (sdel n (o_tagged s))
                    g' (o_dbydigest s) (o_dtagged s) in
      (* `if (untagged || rerooted) && s.AutoSaveIndex { saveIndex }` *)
      if smem n (o_bydigest s) || smem n (o_tagged s) || negb (match rr with [] => true | _ => false end)
      then (osave s', true) else (s', true)
  | PGC kept =>
      let roots := o_tagged s ++ kept in
      let (g', ok) := load content (o_sok isman s) fuel roots in
      if ok then
        let restored := if fixed then filter (exists_node g') (o_bydigest s) else [] in
        let blobs' := filter (exists_node g') (o_blobs s) in
        if save_late
        then (osave (mkO blobs' (roots ++ restored) (o_tagged s) g' (o_dbydigest s) (o_dtagged s)), true)
        else (mkO blobs' (roots ++ restored) (o_tagged s) g' roots (o_tagged s), true)
      else (s, false)
  | PReopen =>
      let roots := o_dtagged s ++ o_dbydigest s in
      let (g', ok) := load content (o_sok isman s) fuel roots in
      if ok then (mkO (o_blobs s) roots (o_dtagged s) g' (o_dbydigest s) (o_dtagged s), true)
      else (s, false)
  | PForeign roots =>
      (* the foreign index must account for every stored manifest: listed, tagged, or child
         of a stored manifest (anything else is unlisted garbage of that layout) *)
      if forallb (fun p => negb (isman p) || smem p roots || smem p (o_tagged s) ||
                           existsb (fun q => isman q && smem p (content q)) (o_blobs s)) (o_blobs s)
      then
        let all := o_tagged s ++ roots in
        let (g', ok) := load content (o_sok isman s) fuel all in
        if ok then (mkO (o_blobs s) all (o_tagged s) g' roots (o_tagged s), true) else (s, false)
      else (s, false)
  end.

Fixpoint orun fixed save_late reroot content isman fuel (s : ostore) (ops : list oop) : ostore * bool :=
  match ops with
  | [] => (s, true)
  | o :: r => let (s1, ok1) := ostep fixed save_late reroot content isman fuel s o in
              let (s2, ok2) := orun fixed save_late reroot content isman fuel s1 r in (s2, ok1 && ok2)
  end.

(* Is index.json written by Store.GC AFTER the digest references of the reachable content
   have been restored?  Read off the source on every run: Generated.GC07.calls_GC is the
   source-order sequence of the calls s.gcIndex / s.graph.Exists / s.tagResolver.Resolve /
   s.tagResolver.Tag (the restoration loop) / s.saveIndex / os.ReadDir (the sweep) in Store.GC (translator kind "callseq"). *)
Definition gc_save_after_restore : bool :=
  match calls_GC with
  | [a; e; r; t; w; d; d2] =>
      str_eqb a (b "s.gcIndex") && str_eqb e (b "s.graph.Exists") && str_eqb r (b "s.tagResolver.Resolve")
      && str_eqb t (b "s.tagResolver.Tag") && str_eqb w (b "s.saveIndex") && str_eqb d (b "os.ReadDir")
      && str_eqb d2 (b "os.ReadDir")
  | _ => false
  end.

(* Does Store.delete give a by-digest entry to the dangling manifests before it saves the
   index?  Generated.GC07.calls_delete_c07 = source-order calls of s.graph.Remove /
   s.tagResolver.Tag / s.saveIndex / s.storage.Delete in Store.delete. *)
Definition delete_reroots : bool :=
  match calls_delete_c07 with
  | [r; t; w; d] => str_eqb r (b "s.graph.Remove") && str_eqb t (b "s.tagResolver.Tag")
                    && str_eqb w (b "s.saveIndex") && str_eqb d (b "s.storage.Delete")
  | _ => false
  end.

(* ---- content/file.Store.Push (file.go): push (store the bytes: named file or fallback CAS;
   may refuse: duplicate name, overwrite disallowed, IgnoreNoName discards), graph.Index, and
   restoreDuplicates (write the successors that are listed under another name; may fail: a
   name that cannot be written).  [stored]/[restored] are the outcomes of the first and the
   last step, chosen by the environment; [index_first] is the order of the other two
   (true = the code after "fix: file store indexes pushed content before restoring
   duplicated files"); a Push of stored content is refused (already exists / duplicate name). *)
Record fstore := mkF { f_blobs : list node; f_graph : graph }.
Definition empty_fstore : fstore := mkF [] empty_graph.
Inductive fop := FPush (n : node) (stored restored : bool).
Definition fstep (index_first : bool) (content : node -> list node) (s : fstore) (o : fop) : fstore :=
  match o with
  | FPush n stored restored =>
      if smem n (f_blobs s) || negb stored then s
      else if index_first || restored
           then mkF (n :: f_blobs s) (index (f_graph s) n (content n))
           else mkF (n :: f_blobs s) (f_graph s)
  end.
Definition frun index_first content (ops : list fop) : fstore :=
  fold_left (fstep index_first content) ops empty_fstore.
Definition file_index_first : bool :=
  match calls_filePush with
  | [p; i; r] => str_eqb p (b "s.push") && str_eqb i (b "s.graph.Index") && str_eqb r (b "s.restoreDuplicates")
  | _ => false
  end.

(* A Delete whose storage.Delete fails AFTER the resolver entries, the graph node and
   index.json were already updated (oci.go delete(): Untag, graph.Remove, saveIndex, then
   storage.Delete; e.g. EPERM / a file still open on NTFS): the blob stays.  Not part of
   [oop]: the theorems are about histories of operations that complete; see
   C07_store_delete_error_refuted. *)
Definition delete_unlink_fails (content : node -> list node) (isman : node -> bool)
           (s : ostore) (n : node) : ostore :=
  let s' := fst (ostep true true true content isman 0 s (PDelete n)) in
  mkO (o_blobs s) (o_bydigest s') (o_tagged s') (o_graph s') (o_dbydigest s') (o_dtagged s').

(* ---- Store.AutoSaveIndex and Store.SaveIndex ----
   With AutoSaveIndex = false none of Push / Tag / Untag / Delete / GC writes index.json
   (every saveIndex call in them is guarded by `if s.AutoSaveIndex`); SaveIndex writes it.
   [astep] wraps [ostep] (the code as it is: all three flags true): when the flag is off the
   file part of the state is kept as it was.  A reopen loads whatever index.json holds; the
   step reports false when the index was not saved (resolver and file differ) -- the
   documented responsibility of the caller. *)
Record astore := mkA { a_s : ostore; a_auto : bool }.
Definition empty_astore : astore := mkA empty_store true.
Inductive aop := AOp (o : oop) | ASetAuto (v : bool) | ASaveIndex
| ABadPush (n : node).   (* Push of a manifest whose bytes do not decode *)
Definition keep_disk (s s' : ostore) : ostore :=
  mkO (o_blobs s') (o_bydigest s') (o_tagged s') (o_graph s') (o_dbydigest s) (o_dtagged s).
Definition synced_b (s : ostore) : bool :=
  forallb (fun p => smem p (o_dbydigest s) || smem p (o_dtagged s)) (o_bydigest s) &&
  forallb (fun p => smem p (o_bydigest s)) (o_dbydigest s ++ o_dtagged s).
Definition astep (content : node -> list node) (isman : node -> bool) (fuel : nat)
           (a : astore) (o : aop) : astore * bool :=
  match o with
  | ASetAuto v => (mkA (a_s a) v, true)
  | ASaveIndex => (mkA (osave (a_s a)) (a_auto a), true)
  (* oci.go Push: storage.Push stores the blob, graph.Index fails in content.Successors,
     the blob is deleted again and the error returned: nothing has changed *)
  | ABadPush _ => (a, true)
  | AOp op =>
      let (s', ok) := ostep true true true content isman fuel (a_s a) op in
      match op with
      | PReopen | PForeign _ => (mkA s' (a_auto a), ok && synced_b (a_s a))
      | _ => (mkA (if a_auto a then s' else keep_disk (a_s a) s') (a_auto a), ok)
      end
  end.
Fixpoint arun content isman fuel (a : astore) (ops : list aop) : astore * bool :=
  match ops with
  | [] => (a, true)
  | o :: r => let (a1, ok1) := astep content isman fuel a o in
              let (a2, ok2) := arun content isman fuel a1 r in (a2, ok1 && ok2)
  end.

(* ---- tag names (internal/resolver.Memory: one descriptor per reference; Tag overwrites) ----
   The store model above knows only WHICH nodes have a name.  This layer keeps the map
   reference -> node and turns operations on names into operations of [aop]:
     Tag n under name r     r now means n; the node that r meant before loses it (PUntag when
                            it has no other name left), then PTag n
     Untag r                PUntag of the node r meant when that was its last name
     Delete n               every name of n is gone with it
   (a Tag of content that is not stored and an Untag of an unknown name fail without effect
   in the code; the harness issues NTag only for a Tag that succeeded). *)
Inductive nop := NOp (o : aop) | NTag (n : node) (r : N) | NUntag (r : N).
Fixpoint nlookup (r : N) (l : list (N * node)) : option node :=
  match l with [] => None | (k, v) :: t => if N.eqb r k then Some v else nlookup r t end.
Definition nremove (r : N) (l : list (N * node)) : list (N * node) :=
  filter (fun kv => negb (N.eqb r (fst kv))) l.
Definition has_name (x : node) (l : list (N * node)) : bool :=
  existsb (fun kv => N.eqb x (snd kv)) l.
Definition ntrans1 (names : list (N * node)) (o : nop) : list (N * node) * list aop :=
  match o with
  | NOp (AOp (PDelete n)) => (filter (fun kv => negb (N.eqb n (snd kv))) names, [AOp (PDelete n)])
  | NOp o => (names, [o])
  | NTag n r =>
      let names' := (r, n) :: nremove r names in
      (names', (match nlookup r names with
                | Some j => if N.eqb j n || has_name j names' then [] else [AOp (PUntag j)]
                | None => []
                end) ++ [AOp (PTag n)])
  | NUntag r =>
      match nlookup r names with
      | Some j => let names' := nremove r names in
                  (names', if has_name j names' then [] else [AOp (PUntag j)])
      | None => (names, [])
      end
  end.
Fixpoint translate (names : list (N * node)) (ops : list nop) : list aop :=
  match ops with
  | [] => []
  | o :: t => let (names', l) := ntrans1 names o in l ++ translate names' t
  end.
Definition nrun content isman fuel (ops : list nop) : astore * bool :=
  arun content isman fuel empty_astore (translate [] ops).

(* ---- the specification side: Predecessors computed from the stored set alone ---- *)
Definition spec_preds (content : node -> list node) (blobs : list node) (n : node) : list node :=
  filter (fun p => smem n (content p)) (nodup N.eq_dec blobs).
