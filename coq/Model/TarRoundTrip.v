(* C12 -- executable model of content/file: Add(dir) -> tar entries -> descriptor
   -> pushDir/extractTarDirectory into a second working directory.
   No proofs here (Proofs/TarRoundTrip.v).

   Go code mirrored (content/file/utils.go, file.go):
     tarDirectory            -> [entries]      (filepath.Walk order, header normalisation)
     descriptorFromDir       -> [dir_descriptor]
     pushDir/extractTarGzip  -> [unpack]
     extractTarDirectory     -> [extract] / [extract_entry]
     resolveRelToBase        -> [strip_prefix] + [check_dirs]
     ensureLinkPath          -> [link_ok]
   Paths are lists of components; a tar header name is prefix ++ rel. *)
From Oras Require Import Base.Prelude Generated.GC12.

Definition name := str.
Definition path := list name.

(* ---------- source tree ---------- *)
Inductive tree :=
| File (content : str) (mode : N) (mtime : N)
| Link (target : str) (mtime : N)
| Dir (mode : N) (mtime : N) (children : list (name * tree)).

(* ---------- tar entries ---------- *)
Inductive ekind := EReg (content : str) | EDir | ELnk (target : str).
Record entry := mkEntry { e_name : path; e_kind : ekind; e_mode : N; e_mtime : N }.

(* header.ModTime = time.Time{} when removeTimes *)
Definition hdr_time (repro : bool) (t : N) : N := if repro then 0 else t.

Definition link_mode : N := 511. (* lstat of a symlink on Linux: 0777 *)

(* tarDirectory: pre-order, children in the order given (see sort_tree) *)
Fixpoint entries (pre : path) (repro : bool) (rel : path) (t : tree) : list entry :=
  match t with
  | File c m mt => [mkEntry (pre ++ rel) (EReg c) m (hdr_time repro mt)]
  | Link tg mt => [mkEntry (pre ++ rel) (ELnk tg) link_mode (hdr_time repro mt)]
  | Dir m mt ch =>
      mkEntry (pre ++ rel) EDir m (hdr_time repro mt) ::
      flat_map (fun nc => entries pre repro (rel ++ [fst nc]) (snd nc)) ch
  end.

(* filepath.Walk sorts the names of every directory (sort.Strings = bytewise) *)
Fixpoint str_ltb (x y : str) : bool :=
  match x, y with
  | [], [] => false
  | [], _ :: _ => true
  | _ :: _, [] => false
  | c :: x', d :: y' => if c <? d then true else if d <? c then false else str_ltb x' y'
  end.

Fixpoint insert_child (x : name * tree) (l : list (name * tree)) : list (name * tree) :=
  match l with
  | [] => [x]
  | y :: l' => if str_ltb (fst y) (fst x) then y :: insert_child x l' else x :: l
  end.

Definition sort_children (l : list (name * tree)) : list (name * tree) :=
  fold_right insert_child [] l.

Fixpoint sort_tree (t : tree) : tree :=
  match t with
  | Dir m mt ch => Dir m mt (sort_children (map (fun nc => (fst nc, sort_tree (snd nc))) ch))
  | _ => t
  end.

Definition tar_entries (pre : path) (repro : bool) (t : tree) : list entry :=
  entries pre repro [] (sort_tree t).

(* a tree without its timestamps *)
Fixpoint strip_times (t : tree) : tree :=
  match t with
  | File c m _ => File c m 0
  | Link tg _ => Link tg 0
  | Dir m _ ch => Dir m 0 (map (fun nc => (fst nc, strip_times (snd nc))) ch)
  end.

(* ---------- file system of the second store's working directory ---------- *)
Inductive node := NFile (content : str) (mode : N) | NDir (mode : N) | NLink (target : str).
Definition fs := list (path * node).    (* newest binding first *)

Fixpoint path_eqb (p q : path) : bool :=
  match p, q with
  | [], [] => true
  | x :: p', y :: q' => str_eqb x y && path_eqb p' q'
  | _, _ => false
  end.

Fixpoint fs_lookup (f : fs) (p : path) : option node :=
  match f with
  | [] => None
  | (q, n) :: f' => if path_eqb q p then Some n else fs_lookup f' p
  end.

Definition fs_set (f : fs) (p : path) (n : node) : fs := (p, n) :: f.

Inductive xerr :=
| XOutside        (* "... is outside of ..." *)
| XSymlinkDir     (* "no symbolic link allowed between ..." or ELOOP/ENOTDIR from the Lstat walk *)
| XNoParent       (* ENOENT / ENOTDIR from the kernel *)
| XExists         (* EISDIR, ENOTDIR, ENOTEMPTY ... an object of the wrong kind is in the way *)
| XAbsLink        (* absolute link target: not modelled (needs the absolute base) *)
| XWriteThrough   (* (unused since writeFile replaces an existing symlink instead of writing through it) *)
| XDigest         (* content digest mismatch *)
| XCodec          (* gzip / tar decoding failed *)
| XPerm.          (* EACCES: an unprivileged owner lacks write/search permission on the directory *)

Inductive res (A : Type) := Ok (a : A) | Err (e : xerr).
Arguments Ok {A} a.
Arguments Err {A} e.

(* filepath.Rel(dirName, header.Name) for clean names *)
Fixpoint strip_prefix (pre p : path) : option path :=
  match pre, p with
  | [], _ => Some p
  | x :: pre', y :: p' => if str_eqb x y then strip_prefix pre' p' else None
  | _ :: _, [] => None
  end.

Definition is_link (o : option node) : bool :=
  match o with Some (NLink _) => true | _ => false end.

Definition is_file (o : option node) : bool :=
  match o with Some (NFile _ _) => true | _ => false end.

(* resolveRelToBase's loop, os.Lstat(base/dir) for every proper non-empty prefix dir of the
   path: none may be a symlink (explicit error; a symlink further up is resolved by the kernel
   and ends in this or another error); a directory that does not exist -- also because a
   component above it is a regular file (ENOTDIR) or longer than NAME_MAX (ENAMETOOLONG) --
   is fine: nothing can be a symbolic link there *)
Fixpoint check_dirs (f : fs) (acc rest : path) : bool :=
  match rest with
  | [] => true
  | x :: rest' =>
      match rest' with
      | [] => true
      | _ :: _ => negb (is_link (fs_lookup f (acc ++ [x]))) && check_dirs f (acc ++ [x]) rest'
      end
  end.

(* before the fix ENOTDIR was returned as an error: no prefix but the deepest could be a regular file *)
Fixpoint check_dirs_prefix (f : fs) (acc rest : path) : bool :=
  match rest with
  | [] => true
  | x :: rest' =>
      match rest' with
      | [] => true
      | _ :: rest'' =>
          negb (is_link (fs_lookup f (acc ++ [x]))) &&
          match rest'' with
          | [] => true
          | _ :: _ => negb (is_file (fs_lookup f (acc ++ [x])))
          end &&
          check_dirs_prefix f (acc ++ [x]) rest'
      end
  end.

Definition c_slash : N := 47.
Definition c_dot : N := 46.

Fixpoint split_slash_aux (cur : str) (s : str) : list str :=
  match s with
  | [] => [rev cur]
  | c :: s' => if c =? c_slash then rev cur :: split_slash_aux [] s' else split_slash_aux (c :: cur) s'
  end.
Definition split_slash (s : str) : list str := split_slash_aux [] s.

Definition is_abs (s : str) : bool :=
  match s with c :: _ => c =? c_slash | [] => false end.

(* filepath.Clean on components relative to the base; None = climbs above the base *)
Fixpoint lexnorm_aux (stack : path) (comps : list str) : option path :=
  match comps with
  | [] => Some (rev stack)
  | c :: comps' =>
      if str_eqb c [] || str_eqb c [c_dot] then lexnorm_aux stack comps'
      else if str_eqb c [c_dot; c_dot] then
        match stack with
        | [] => None
        | _ :: stack' => lexnorm_aux stack' comps'
        end
      else lexnorm_aux (c :: stack) comps'
  end.
Definition lexnorm (comps : list str) : option path := lexnorm_aux [] comps.

Definition parent (p : path) : path := removelast p.

(* filepath.Rel(baseAbs, filepath.Join(filepath.Dir(link), target)) for link = base/rel and a
   relative target: Clean works on the absolute path, so a target may climb above the base
   and come back through the base's own name [pre] (the working directory's absolute path is
   not known to the model: climbing above it counts as outside) *)
Definition link_target_path (pre rel : path) (target : str) : option path :=
  match lexnorm_aux (rev (pre ++ parent rel)) (split_slash target) with
  | None => None
  | Some full => strip_prefix pre full
  end.

(* ensureLinkPath(baseAbs, baseRel, link = base/rel, target) *)
Definition link_ok (pre : path) (f : fs) (rel : path) (target : str) : res unit :=
  if is_abs target then Err XAbsLink
  else match link_target_path pre rel target with
       | None => Err XOutside
       | Some q => if check_dirs f [] q then Ok tt else Err XSymlinkDir
       end.

(* mode arithmetic (unix 12-bit modes as carried by tar) *)
Definition perm_bits : N := 511.     (* 0777 *)
Definition file_create_bits : N := 4095. (* open(2) honours 07777 *)
Definition dir_create_bits : N := 1023.  (* mkdir(2) honours 01777 *)
Definition create_mode (bits umask m : N) : N := N.ldiff (N.land m bits) umask.
(* os.Chmod(path, header.FileInfo().Mode()): permission bits and setuid/setgid/sticky *)
Definition chmod_mode (m : N) : N := N.land m file_create_bits.
(* before the fix: os.Chmod(path, os.FileMode(header.Mode)) -- the tar bits 07000 are not
   os.FileMode's setuid/setgid/sticky bits, only Perm() reached the kernel *)
Definition chmod_mode_prefix (m : N) : N := N.land m perm_bits.

Definition parent_is_dir (f : fs) (rel : path) : bool :=
  match rel with
  | [] => true   (* the parent of the base was created by ensureDir *)
  | _ => match fs_lookup f (parent rel) with Some (NDir _) => true | _ => false end
  end.

(* mkdir(2) in a set-group-ID directory: the new directory is set-group-ID as well *)
Definition sgid : N := 1024.
Definition inherited_sgid (f : fs) (parentp : path) : N :=
  match fs_lookup f parentp with Some (NDir pm) => N.land pm sgid | _ => 0 end.

(* os.MkdirAll(path, mode) on the reversed path *)
Fixpoint mkdir_all (umask m : N) (f : fs) (rp : path) : res fs :=
  match fs_lookup f (rev rp) with
  | Some (NDir _) => Ok f
  | Some _ => Err XExists
  | None =>
      match rp with
      | [] => Ok (fs_set f [] (NDir (create_mode dir_create_bits umask m)))
      | _ :: rparent =>
          match mkdir_all umask m f rparent with
          | Ok f' => Ok (fs_set f' (rev rp) (NDir (N.lor (create_mode dir_create_bits umask m)
                                                          (inherited_sgid f' (rev rparent)))))
          | Err e => Err e
          end
      end
  end.

(* some path strictly below p is bound (nothing is ever unbound) *)
Fixpoint is_proper_prefix (p q : path) : bool :=
  match p, q with
  | [], _ :: _ => true
  | x :: p', y :: q' => str_eqb x y && is_proper_prefix p' q'
  | _, _ => false
  end.
Definition has_children (f : fs) (p : path) : bool :=
  existsb (fun qn => is_proper_prefix p (fst qn)) f.

Definition is_root (p : path) : bool := match p with [] => true | _ :: _ => false end.

(* directories are created owner-writable (mode | 0700) and get their recorded mode at io.EOF *)
Definition owner_rwx : N := c12_dir_owner_bits.   (* the literal of mode|0700, regenerated from extractTarDirectory *)

Definition extract_entry (pre : path) (umask : N) (preserve : bool) (f : fs) (e : entry) : res fs :=
  match strip_prefix pre (e_name e) with
  | None => Err XOutside
  | Some rel =>
      if negb (check_dirs f [] rel) then Err XSymlinkDir else
      match e_kind e with
      | EReg c =>
          match fs_lookup f rel with
          | None =>
              if parent_is_dir f rel then
                let f1 := fs_set f rel (NFile c (create_mode file_create_bits umask (e_mode e))) in
                Ok (if preserve then fs_set f1 rel (NFile c (chmod_mode (e_mode e))) else f1)
              else Err XNoParent
          | Some (NFile _ m0) =>   (* O_TRUNC keeps the existing mode *)
              let f1 := fs_set f rel (NFile c m0) in
              Ok (if preserve then fs_set f1 rel (NFile c (chmod_mode (e_mode e))) else f1)
          | Some (NDir _) => Err XExists
          | Some (NLink _) =>      (* writeFile: removeSymlink, then created afresh *)
              if parent_is_dir f rel then
                let f1 := fs_set f rel (NFile c (create_mode file_create_bits umask (e_mode e))) in
                Ok (if preserve then fs_set f1 rel (NFile c (chmod_mode (e_mode e))) else f1)
              else Err XNoParent
          end
      | EDir => mkdir_all umask (N.lor (e_mode e) owner_rwx) f (rev rel)
      | ELnk tg =>
          if is_root rel then Err XExists    (* "a link cannot replace the base directory" *)
          else
          match link_ok pre f rel tg with
          | Err x => Err x
          | Ok _ =>
              match fs_lookup f rel with
              | None => if parent_is_dir f rel then Ok (fs_set f rel (NLink tg)) else Err XNoParent
              | Some (NDir _) =>     (* os.Remove succeeds on an empty directory only *)
                  if has_children f rel then Err XExists else Ok (fs_set f rel (NLink tg))
              | Some _ => Ok (fs_set f rel (NLink tg))
              end
          end
      end
  end.

(* the code before the delayed directory modes: a directory got its recorded mode when its
   entry was processed (kept for the refuted witnesses only) *)
Definition extract_entry_prefix (pre : path) (umask : N) (preserve : bool) (f : fs) (e : entry) : res fs :=
  match e_kind e, strip_prefix pre (e_name e) with
  | EDir, Some rel =>
      if negb (check_dirs f [] rel) then Err XSymlinkDir else
      match mkdir_all umask (e_mode e) f (rev rel) with
      | Ok f1 => Ok (if preserve then fs_set f1 rel (NDir (N.land (e_mode e) file_create_bits)) else f1)
      | Err x => Err x
      end
  | _, _ => extract_entry pre umask preserve f e
  end.

Fixpoint extract_list_prefix (pre : path) (umask : N) (preserve : bool) (f : fs) (es : list entry) : res fs :=
  match es with
  | [] => Ok f
  | e :: es' =>
      match extract_entry_prefix pre umask preserve f e with
      | Ok f' => extract_list_prefix pre umask preserve f' es'
      | Err x => Err x
      end
  end.

Fixpoint extract_list (pre : path) (umask : N) (preserve : bool) (f : fs) (es : list entry) : res fs :=
  match es with
  | [] => Ok f
  | e :: es' =>
      match extract_entry pre umask preserve f e with
      | Ok f' => extract_list pre umask preserve f' es'
      | Err x => Err x
      end
  end.

(* pushDir: ensureDir(target) = MkdirAll(target, 0777) then the extraction *)
(* the 0777 is the literal of ensureDir's os.MkdirAll, regenerated from content/file/file.go *)
Definition fs_init (umask : N) : fs := [([], NDir (create_mode dir_create_bits umask c12_ensure_dir_perm))].

(* extractTarDirectory before the fixes of the directory modes: recorded modes applied at
   once, nothing after the last entry *)
Definition extract_prefix (pre : path) (umask : N) (preserve : bool) (es : list entry) : res fs :=
  extract_list_prefix pre umask preserve (fs_init umask) es.

(* restoreDirModes, not exact: permission bits outside the recorded mode are removed from what
   the creation left, setuid/setgid/sticky are those already there or recorded *)
Definition narrow_mode (cur m : N) : N :=
  N.lor (N.land (N.land cur perm_bits) (N.land m perm_bits))
        (N.lor (N.land cur 3584) (N.land m 3584)).

Definition final_dir_mode (preserve : bool) (cur m : N) : N :=
  if preserve then chmod_mode m else narrow_mode cur m.

(* restoreDirModes at io.EOF: every directory entry whose path still is a directory gets its
   final mode, computed from what the extraction left ([f0]); the last entry of a path counts
   (later bindings shadow earlier ones).  The deepest-first order matters to the kernel's
   permission checks only, not to the result. *)
Definition finish_step (pre : path) (preserve : bool) (f0 acc : fs) (e : entry) : fs :=
  match e_kind e, strip_prefix pre (e_name e) with
  | EDir, Some rel =>
      match fs_lookup f0 rel with
      | Some (NDir cur) => fs_set acc rel (NDir (final_dir_mode preserve cur (e_mode e)))
      | _ => acc
      end
  | _, _ => acc
  end.

Definition finish_dirs (pre : path) (preserve : bool) (es : list entry) (f : fs) : fs :=
  fold_left (finish_step pre preserve f) es f.

Definition extract (pre : path) (umask : N) (preserve : bool) (es : list entry) : res fs :=
  match extract_list pre umask preserve (fs_init umask) es with
  | Ok f => Ok (finish_dirs pre preserve es f)
  | Err x => Err x
  end.

(* the same into a working directory that is set-group-ID: pushDir's MkdirAll makes the base
   directory set-group-ID as well ([sg] = sgid, or 0 for an ordinary working directory) *)
Definition fs_init_sg (umask sg : N) : fs :=
  [([], NDir (N.lor (create_mode dir_create_bits umask c12_ensure_dir_perm) sg))].

Definition extract_sg (sg : N) (pre : path) (umask : N) (preserve : bool) (es : list entry) : res fs :=
  match extract_list pre umask preserve (fs_init_sg umask sg) es with
  | Ok f => Ok (finish_dirs pre preserve es f)
  | Err x => Err x
  end.

(* ---------- an unprivileged user: the kernel's permission check on creating an entry ----------
   Every object of the restored directory belongs to the user who unpacks.  Root passes every
   check; an unprivileged owner needs write and search permission (0300) on the directory in
   which an entry is created, replaced or removed.  (Truncating an existing file needs its own
   write bit and chmod needs search permission on the ancestors: not modelled, see props.) *)
Definition owner_wx : N := 192.
Definition has_wx (m : N) : bool := N.land m owner_wx =? owner_wx.

(* the nearest existing ancestor-or-self of the reversed path decides *)
Fixpoint ancestor_wx (f : fs) (rp : path) : bool :=
  match fs_lookup f (rev rp) with
  | Some (NDir m) => has_wx m
  | Some _ => true                 (* not a directory: another error comes first *)
  | None => match rp with
            | [] => true
            | _ :: rparent => ancestor_wx f rparent
            end
  end.

Definition perm_ok (priv : bool) (pre : path) (f : fs) (e : entry) : bool :=
  priv ||
  match strip_prefix pre (e_name e) with
  | None => true
  | Some rel =>
      match e_kind e, fs_lookup f rel with
      | EDir, Some (NDir _) => true             (* exists: nothing is created *)
      | EReg _, Some (NFile _ _) => true        (* truncated in place *)
      | EDir, _ => ancestor_wx f (rev rel)      (* MkdirAll: the first missing element is created in the nearest existing one *)
      | _, _ => ancestor_wx f (rev (parent rel))
      end
  end.

Definition extract_entry_p (priv : bool) (pre : path) (umask : N) (preserve : bool) (f : fs) (e : entry) : res fs :=
  match extract_entry pre umask preserve f e with
  | Ok f' => if perm_ok priv pre f e then Ok f' else Err XPerm
  | Err x => Err x
  end.

Fixpoint extract_list_p (priv : bool) (pre : path) (umask : N) (preserve : bool) (f : fs) (es : list entry) : res fs :=
  match es with
  | [] => Ok f
  | e :: es' =>
      match extract_entry_p priv pre umask preserve f e with
      | Ok f' => extract_list_p priv pre umask preserve f' es'
      | Err x => Err x
      end
  end.

Definition extract_p (priv : bool) (pre : path) (umask : N) (preserve : bool) (es : list entry) : res fs :=
  match extract_list_p priv pre umask preserve (fs_init umask) es with
  | Ok f => Ok (finish_dirs pre preserve es f)
  | Err x => Err x
  end.

(* what is on disk when the extraction stops: a failing entry has no effect of its own (the
   checks come first, MkdirAll fails before it creates anything, os.Remove of a non-empty
   directory removes nothing), the entries before it are there, and restoreDirModes has not
   run: directories keep their creation mode *)
Fixpoint extract_list_partial (priv : bool) (pre : path) (umask : N) (preserve : bool) (f : fs) (es : list entry) : fs * option xerr :=
  match es with
  | [] => (f, None)
  | e :: es' =>
      match extract_entry_p priv pre umask preserve f e with
      | Ok f' => extract_list_partial priv pre umask preserve f' es'
      | Err x => (f, Some x)
      end
  end.

Definition extract_partial (priv : bool) (pre : path) (umask : N) (preserve : bool) (es : list entry) : fs * option xerr :=
  match extract_list_partial priv pre umask preserve (fs_init umask) es with
  | (f, None) => (finish_dirs pre preserve es f, None)
  | (f, Some x) => (f, Some x)
  end.

(* ---------- restoreDirModes step by step, in its real order, with the kernel's check ----------
   chmod(2) by the owner needs search permission (0100) on every directory above the one whose
   mode changes.  restoreDirModes sorts the directory entries by depth (stable), walks the
   sorted list backwards -- deepest first -- and handles every path once; the mode is the one of
   the last entry of the path. *)
Definition owner_x : N := 64.
Definition has_x (m : N) : bool := N.land m owner_x =? owner_x.

(* every directory strictly above rp (reversed path), the base included, is searchable *)
Fixpoint ancestors_x (f : fs) (rp : path) : bool :=
  match rp with
  | [] => true
  | _ :: rparent =>
      match fs_lookup f (rev rparent) with
      | Some (NDir m) => has_x m
      | _ => true
      end && ancestors_x f rparent
  end.

Fixpoint last_dir_mode (pre p : path) (es : list entry) : option N :=
  match es with
  | [] => None
  | e :: es' =>
      match last_dir_mode pre p es' with
      | Some m => Some m
      | None =>
          match e_kind e, strip_prefix pre (e_name e) with
          | EDir, Some rel => if path_eqb rel p then Some (e_mode e) else None
          | _, _ => None
          end
      end
  end.

Fixpoint dir_paths (pre : path) (es : list entry) : list path :=
  match es with
  | [] => []
  | e :: es' =>
      match e_kind e, strip_prefix pre (e_name e) with
      | EDir, Some rel => rel :: dir_paths pre es'
      | _, _ => dir_paths pre es'
      end
  end.

Fixpoint dedup (l : list path) : list path :=
  match l with
  | [] => []
  | p :: l' => if existsb (path_eqb p) (dedup l') then dedup l' else p :: dedup l'
  end.

(* sort.SliceStable by depth, ascending *)
Fixpoint insert_by_depth (p : path) (l : list path) : list path :=
  match l with
  | [] => [p]
  | q :: l' => if (length q <=? length p)%nat then q :: insert_by_depth p l' else p :: l
  end.
Definition sort_by_depth (l : list path) : list path := fold_right insert_by_depth [] l.

(* the order in which restoreDirModes changes modes: deepest first *)
Definition restore_order (pre : path) (es : list entry) : list path :=
  rev (sort_by_depth (dedup (dir_paths pre es))).

Definition restore_step (priv : bool) (pre : path) (preserve : bool) (es : list entry) (f : fs) (p : path) : res fs :=
  match last_dir_mode pre p es, fs_lookup f p with
  | Some m, Some (NDir cur) =>
      if priv || ancestors_x f (rev p)
      then Ok (fs_set f p (NDir (final_dir_mode preserve cur m)))
      else Err XPerm
  | _, _ => Ok f
  end.

Fixpoint restore_in_order (priv : bool) (pre : path) (preserve : bool) (es : list entry) (f : fs) (order : list path) : res fs :=
  match order with
  | [] => Ok f
  | p :: order' =>
      match restore_step priv pre preserve es f p with
      | Ok f' => restore_in_order priv pre preserve es f' order'
      | Err x => Err x
      end
  end.

(* extraction with restoreDirModes in its real order *)
Definition extract_po (priv : bool) (pre : path) (umask : N) (preserve : bool) (es : list entry) : res fs :=
  match extract_list_p priv pre umask preserve (fs_init umask) es with
  | Ok f => restore_in_order priv pre preserve es f (restore_order pre es)
  | Err x => Err x
  end.

(* the same check on the code before restoreDirModes (directories created with their recorded mode) *)
Fixpoint extract_list_prefix_p (priv : bool) (pre : path) (umask : N) (preserve : bool) (f : fs) (es : list entry) : res fs :=
  match es with
  | [] => Ok f
  | e :: es' =>
      match extract_entry_prefix pre umask preserve f e with
      | Ok f' => if perm_ok priv pre f e then extract_list_prefix_p priv pre umask preserve f' es' else Err XPerm
      | Err x => Err x
      end
  end.

Definition extract_prefix_p (priv : bool) (pre : path) (umask : N) (preserve : bool) (es : list entry) : res fs :=
  extract_list_prefix_p priv pre umask preserve (fs_init umask) es.

(* what the property expects to find at a path of the restored directory *)
Fixpoint find_child (n : name) (ch : list (name * tree)) : option tree :=
  match ch with
  | [] => None
  | (m, c) :: ch' => if str_eqb m n then Some c else find_child n ch'
  end.

Fixpoint tree_get (t : tree) (p : path) : option tree :=
  match p with
  | [] => Some t
  | n :: p' =>
      match t with
      | Dir _ _ ch =>
          match find_child n ch with
          | Some c => tree_get c p'
          | None => None
          end
      | _ => None
      end
  end.

Definition restored_mode (umask : N) (preserve : bool) (m : N) : N :=
  if preserve then m else N.ldiff m umask.

(* the source tree seen as a file system, modes as the property allows them *)
Definition expected (umask : N) (preserve : bool) (t : tree) (p : path) : option node :=
  match tree_get t p with
  | None => None
  | Some (File c m _) => Some (NFile c (restored_mode umask preserve m))
  | Some (Link tg _) => Some (NLink tg)
  | Some (Dir m _ _) => Some (NDir (restored_mode umask preserve m))
  end.

(* what the property can expect there: every directory made by mkdir(2) inherits the bit;
   PreservePermissions sets the recorded mode exactly *)
Definition expected_sg (sg umask : N) (preserve : bool) (t : tree) (p : path) : option node :=
  match tree_get t p with
  | None => None
  | Some (File c m _) => Some (NFile c (restored_mode umask preserve m))
  | Some (Link tg _) => Some (NLink tg)
  | Some (Dir m _ _) => Some (NDir (if preserve then m else N.lor (N.ldiff m umask) sg))
  end.

(* between the last entry and restoreDirModes: directories still have their creation mode,
   the base directory the one pushDir gave it *)
Definition mid_dir_mode (umask m : N) : N := create_mode dir_create_bits umask (N.lor m owner_rwx).

Definition expected_mid (umask : N) (preserve : bool) (t : tree) (p : path) : option node :=
  match tree_get t p with
  | None => None
  | Some (File c m _) => Some (NFile c (restored_mode umask preserve m))
  | Some (Link tg _) => Some (NLink tg)
  | Some (Dir m _ _) => Some (NDir (mid_dir_mode umask m))
  end.

Definition expected_mid_top (umask : N) (preserve : bool) (t : tree) (p : path) : option node :=
  match p, t with
  | [], Dir _ _ _ => Some (NDir (N.ldiff 511 umask))
  | _, _ => expected_mid umask preserve t p
  end.

(* ... and as the code before the root-mode fix restored it ([extract_prefix]): the base
   directory is pre-created by ensureDir with 0777, its recorded mode only arrived with
   PreservePermissions *)
Definition expected_impl (umask : N) (preserve : bool) (t : tree) (p : path) : option node :=
  match p, preserve with
  | [], false =>
      match t with
      | Dir _ _ _ => Some (NDir (N.ldiff 511 umask))
      | _ => expected umask preserve t p
      end
  | _, _ => expected umask preserve t p
  end.

(* ---------- hypotheses of the round-trip theorem, as boolean checks ---------- *)
Fixpoint names_nodupb (l : list name) : bool :=
  match l with
  | [] => true
  | x :: l' => negb (existsb (str_eqb x) l') && names_nodupb l'
  end.

(* a name a file system can hold: not empty, not "." or "..", no '/' *)
Definition name_okb (n : name) : bool :=
  negb (str_eqb n []) && negb (str_eqb n [c_dot]) && negb (str_eqb n [c_dot; c_dot]) && negb (contains c_slash n).

Fixpoint wf_treeb (t : tree) : bool :=
  match t with
  | Dir _ _ ch =>
      names_nodupb (map fst ch) && forallb name_okb (map fst ch) && forallb (fun nc => wf_treeb (snd nc)) ch
  | _ => true
  end.

Fixpoint modes_okb (t : tree) : bool :=
  match t with
  | File _ m _ => m <=? 4095          (* permission bits, setuid, setgid, sticky *)
  | Link _ _ => true
  | Dir m _ ch =>
      (m <=? 4095) && forallb (fun nc => modes_okb (snd nc)) ch
  end.

(* all paths at which the tree has a symlink *)
Fixpoint link_paths (rel : path) (t : tree) : list path :=
  match t with
  | File _ _ _ => []
  | Link _ _ => [rel]
  | Dir _ _ ch => flat_map (fun nc => link_paths (rel ++ [fst nc]) (snd nc)) ch
  end.

(* all paths at which the tree has a regular file *)
Fixpoint file_paths (rel : path) (t : tree) : list path :=
  match t with
  | File _ _ _ => [rel]
  | Link _ _ => []
  | Dir _ _ ch => flat_map (fun nc => file_paths (rel ++ [fst nc]) (snd nc)) ch
  end.

(* no proper non-empty prefix of q is one of the link paths ([isfile] is no longer consulted:
   a target may pass through a regular file) *)
Fixpoint prefixes_clear (islink isfile : path -> bool) (acc rest : path) : bool :=
  match rest with
  | [] => true
  | x :: rest' =>
      match rest' with
      | [] => true
      | _ :: _ => negb (islink (acc ++ [x])) && prefixes_clear islink isfile (acc ++ [x]) rest'
      end
  end.

(* relative links that stay inside the tree and do not pass through other links or through
   regular files ([islink]/[isfile] say where the whole tree has links and files) *)
Fixpoint benignb (pre : path) (islink isfile : path -> bool) (rel : path) (t : tree) : bool :=
  match t with
  | File _ _ _ => isfile rel
  | Link tg _ =>
      islink rel && negb (is_abs tg) &&
      negb (match rel with [] => true | _ :: _ => false end) &&
      match link_target_path pre rel tg with
      | None => false
      | Some q => prefixes_clear islink isfile [] q
      end
  | Dir _ _ ch => forallb (fun nc => benignb pre islink isfile (rel ++ [fst nc]) (snd nc)) ch
  end.

Definition links_of (t : tree) (p : path) : bool := existsb (path_eqb p) (link_paths [] t).
Definition files_of (t : tree) (p : path) : bool := existsb (path_eqb p) (file_paths [] t).
Definition benign_tree (pre : path) (t : tree) : bool := benignb pre (links_of t) (files_of t) [] t.
Definition is_dir (t : tree) : bool := match t with Dir _ _ _ => true | _ => false end.

(* ---------- descriptors and unpacking; the byte codecs are parameters ---------- *)
Section Codec.
  Variable digest : Type.
  Variable H : str -> digest.                      (* digest.Canonical *)
  Variable digest_eqb : digest -> digest -> bool.
  Variable enc : list entry -> str.                (* archive/tar writer *)
  Variable dec : str -> option (list entry).       (* archive/tar reader *)
  Variable gz : str -> str.                        (* compress/gzip writer *)
  Variable gunz : str -> option str.               (* compress/gzip reader *)

  Record descriptor := mkDesc {
    d_digest : digest; d_size : N;
    d_title : path;
    d_unpack : bool;                 (* io.deis.oras.content.unpack = "true" *)
    d_checksum : option digest       (* io.deis.oras.content.digest, when it parses as a digest *)
  }.

  (* Store.Add of a directory: descriptorFromDir *)
  Definition dir_blob (pre : path) (repro : bool) (t : tree) : str := gz (enc (tar_entries pre repro t)).
  Definition dir_descriptor (pre : path) (repro : bool) (t : tree) : descriptor :=
    let tarb := enc (tar_entries pre repro t) in
    mkDesc (H (gz tarb)) (N.of_nat (length (gz tarb))) pre true (Some (H tarb)).

  (* Store.Push of a named descriptor with unpack = true: saveFile verifies digest and
     size of the blob, extractTarGzip extracts and then compares the tar digest *)
  Definition unpack (umask : N) (preserve : bool) (d : descriptor) (blob : str) : res fs :=
    if negb (digest_eqb (H blob) (d_digest d) && (N.of_nat (length blob) =? d_size d)) then Err XDigest
    else match gunz blob with
         | None => Err XCodec
         | Some tarb =>
             match dec tarb with
             | None => Err XCodec
             | Some es =>
                 match extract (d_title d) umask preserve es with
                 | Err x => Err x
                 | Ok f =>
                     match d_checksum d with
                     | Some c => if digest_eqb (H tarb) c then Ok f else Err XDigest
                     | None => Ok f
                     end
                 end
             end
         end.

  (* what Push leaves in the target directory, whether it succeeds or not: pushDir creates the
     directory first; a blob that fails its own verification is not extracted; a wrong tar
     digest is noticed only after the whole archive has been extracted *)
  Definition unpack_residue (umask : N) (preserve : bool) (d : descriptor) (blob : str) : fs :=
    if negb (digest_eqb (H blob) (d_digest d) && (N.of_nat (length blob) =? d_size d)) then fs_init umask
    else match gunz blob with
         | None => fs_init umask
         | Some tarb =>
             match dec tarb with
             | None => fs_init umask
             | Some es => fst (extract_partial true (d_title d) umask preserve es)
             end
         end.

  (* Store.Add of a plain file: descriptorFromFile; Store.Push of a named descriptor without
     unpack (or with SkipUnpack): pushFile = os.Create (0666 minus umask) + verified copy *)
  Definition file_descriptor (nm : path) (content : str) : descriptor :=
    mkDesc (H content) (N.of_nat (length content)) nm false None.
  Definition push_file (umask : N) (d : descriptor) (blob : str) : res node :=
    if negb (digest_eqb (H blob) (d_digest d) && (N.of_nat (length blob) =? d_size d)) then Err XDigest
    else Ok (NFile blob (create_mode file_create_bits umask 438)).
End Codec.

(* ---------- the file-store machine around names and digests (restoreDuplicates) ---------- *)
(* A layer is (name, content id).  Content ids stand for digests (two layers with the
   same id have the same bytes).  The store keeps the set of existing names, the
   digest -> path map and what is materialised under each name. *)
Record fstore := mkFstore {
  s_names : list (name * nat);     (* name -> content id materialised under it *)
  s_digests : list nat             (* digestToPath's key set *)
}.
Definition fstore_empty : fstore := mkFstore [] [].

Fixpoint name_lookup (l : list (name * nat)) (n : name) : option nat :=
  match l with
  | [] => None
  | (m, d) :: l' => if str_eqb m n then Some d else name_lookup l' n
  end.

Inductive perr := PDuplicateName | PNotFound.

(* Store.push of a named blob (content verified against the descriptor by the caller) *)
Definition fpush_named (s : fstore) (n : name) (d : nat) : fstore + perr :=
  match name_lookup (s_names s) n with
  | Some _ => inr PDuplicateName
  | None => inl (mkFstore ((n, d) :: s_names s) (d :: s_digests s))
  end.

(* restoreDuplicates over the successors of a manifest *)
Fixpoint restore_dups (s : fstore) (succ : list (name * nat)) : fstore :=
  match succ with
  | [] => s
  | (n, d) :: succ' =>
      if str_eqb n [] then restore_dups s succ'
      else match name_lookup (s_names s) n with
           | Some _ => restore_dups s succ'
           | None =>
               if existsb (Nat.eqb d) (s_digests s)
               then match fpush_named s n d with
                    | inl s' => restore_dups s' succ'
                    | inr _ => restore_dups s succ'
                    end
               else restore_dups s succ'      (* ErrNotFound is ignored *)
           end
  end.

(* Store.Push of the (unnamed) manifest whose layers are [succ].  With IgnoreNoName the
   manifest itself is discarded, its successors are restored all the same
   (restoreDuplicatesOfSkipped). *)
Definition fpush_manifest (forceCAS ignoreNoName : bool) (s : fstore) (succ : list (name * nat)) : fstore :=
  if forceCAS then s else restore_dups s succ.

(* before the fix: errSkipUnnamed returned before restoreDuplicates *)
Definition fpush_manifest_prefix (forceCAS ignoreNoName : bool) (s : fstore) (succ : list (name * nat)) : fstore :=
  if ignoreNoName then s
  else if forceCAS then s
  else restore_dups s succ.

(* the pushes oras.Copy performs: some layers (at least one per distinct content), then the manifest *)
Fixpoint fpush_layers (s : fstore) (ls : list (name * nat)) : fstore :=
  match ls with
  | [] => s
  | (n, d) :: ls' =>
      match fpush_named s n d with
      | inl s' => fpush_layers s' ls'
      | inr _ => fpush_layers s ls'
      end
  end.

Definition copy_into (forceCAS ignoreNoName : bool) (pushed layers : list (name * nat)) : fstore :=
  fpush_manifest forceCAS ignoreNoName (fpush_layers fstore_empty pushed) layers.
Definition copy_into_prefix (forceCAS ignoreNoName : bool) (pushed layers : list (name * nat)) : fstore :=
  fpush_manifest_prefix forceCAS ignoreNoName (fpush_layers fstore_empty pushed) layers.
