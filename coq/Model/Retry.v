(* Executable model of registry/remote/retry (GenericPolicy.Retry, DefaultPredicate,
   ExponentialBackoff, Transport.RoundTrip) and of the re-send logic of
   auth.Client.Do (rewindRequestBody) stacked on top of it.  No proofs here.

   Time is a Z (nanoseconds of the fake clock).  A server is a script: a list of
   behaviours, one per request that reaches it. *)
From Coq Require Import QArith Qabs.
From Oras Require Import Base.Prelude Base.RetryTypes Generated.GC17.
Open Scope Z_scope.

(* ------------------------------------------------------------------ *)
(* Server behaviours and what the policy sees of them                  *)

(* what one round trip of the base transport yields *)
Inductive outcome :=
| OStatus (code : Z) (retry_after : str) (chal : N)  (* chal: 0 none, 1 Basic, 2 Bearer, 3 unknown scheme *)
| OErr (is_net timeout temporary : bool)             (* a transport error: does the error value implement
                                                        net.Error, and what do Timeout()/Temporary() report *)
| OCanceled                                          (* context.Canceled from the base transport *)
| ODeadline.                                         (* context.DeadlineExceeded (a net.Error with Timeout() = true) *)

Record beh := mkBeh {
  b_out : outcome;
  b_read : option nat;     (* bytes of the request body the server reads; None = to EOF *)
  b_lat : Z                (* time the server takes to answer *)
}.

(* pred_result, bres, decision: Base/RetryTypes.v (shared with the generated functions) *)

(* how the transport errors look to a predicate *)
Definition err_flags (o : outcome) : option (bool * bool * bool) :=
  match o with
  | OStatus _ _ _ => None
  | OErr ne to tmp => Some (ne, to, tmp)
  | OCanceled => Some (false, false, false)     (* context.Canceled: a plain error *)
  | ODeadline => Some (true, true, true)        (* context.DeadlineExceeded: Timeout() and Temporary() *)
  end.

(* DefaultPredicate; both branches are generated: Generated.GC17.default_predicate_status
   and Generated.GC17.default_predicate_error *)
Definition default_predicate (o : outcome) : pred_result :=
  match o with
  | OStatus c _ _ => if default_predicate_status c then PRetry else PStop
  | _ => match err_flags o with
         | Some (ne, to, tmp) => if default_predicate_error ne to tmp then PRetry else PFail
         | None => PFail
         end
  end.

(* the custom predicates of the harness: a table on status codes, one rule for the other
   statuses, one rule for transport errors *)
Fixpoint lookup_status (tbl : list (Z * pred_result)) (c : Z) : option pred_result :=
  match tbl with
  | [] => None
  | (k, r) :: tbl' => if k =? c then Some r else lookup_status tbl' c
  end.
Definition custom_predicate (tbl : list (Z * pred_result)) (dflt err : pred_result) (o : outcome) : pred_result :=
  match o with
  | OStatus c _ _ => match lookup_status tbl c with Some r => r | None => dflt end
  | _ => err
  end.

Record policy := mkPolicy {
  p_max_retry : Z;
  p_min : Z;
  p_max : Z;
  p_pred : outcome -> pred_result;
  p_backoff : Z -> outcome -> bres
}.

Definition clamp (lo hi x : Z) : Z :=
  let x := if x <? lo then lo else x in
  if x >? hi then hi else x.

(* GenericPolicy.Retry: Generated.GC17.generated_retry is translated statement by statement
   from policy.go (attempt bound, predicate, backoff, clamping steps, in source order) *)
Definition generic_retry (p : policy) (attempt : Z) (o : outcome) : decision :=
  generated_retry attempt (p_max_retry p) (p_min p) (p_max p) (p_pred p o) (p_backoff p attempt o).

(* ------------------------------------------------------------------ *)
(* ExponentialBackoff                                                   *)

Definition two63 : Z := 9223372036854775808.
Definition two64 : Z := 18446744073709551616.
Definition wrap64 (z : Z) : Z := ((z + two63) mod two64) - two63.

(* strconv.ParseUint(s, 10, 64) on the digits: None = syntax error (a byte that is not a digit);
   on overflow of uint64 it returns the maximum AT ONCE, without looking at the rest *)
Definition max_u64 : Z := two64 - 1.
Definition cutoff_u64 : Z := two64 / 10 + 1.
Fixpoint digits_val (s : str) (acc : Z) : option Z :=
  match s with
  | [] => Some acc
  | c :: s' => if ((48 <=? c) && (c <=? 57))%N
               then if acc >=? cutoff_u64 then Some max_u64
                    else let n1 := acc * 10 + Z.of_N (c - 48)%N in
                         if n1 >? max_u64 then Some max_u64 else digits_val s' n1
               else None
  end.

(* the value strconv.ParseInt(s, 10, 64) returns (its error is ignored by the caller):
   0 on a syntax error, saturated on a range error *)
Definition parse_int64 (s : str) : Z :=
  match s with
  | [] => 0
  | c :: t =>
    let '(neg, ds) := if (c =? 43)%N then (false, t) else if (c =? 45)%N then (true, t) else (false, s) in
    match ds with
    | [] => 0
    | _ => match digits_val ds 0 with
           | None => 0
           | Some v => if neg then (if v >? two63 then - two63 else - v)
                       else (if v >? two63 - 1 then two63 - 1 else v)
           end
    end
  end.

(* float64 -> int64 conversion: truncation toward zero when the value fits,
   otherwise an implementation-specific value [oob q] *)
Definition qtrunc (q : Q) : Z := Z.quot (Qnum q) (Zpos (Qden q)).
Definition f2i (oob : Q -> Z) (q : Q) : Z :=
  let t := qtrunc q in
  if (- two63 <=? t) && (t <? two63) then t else oob q.

Definition qpow (f : Q) (n : Z) : Q := Qpower f n.

Record eparams := mkE { e_base : Z; e_factor : Q; e_jitter : Q }.

(* Retry-After of a 429 answer, in seconds (0 = not present / not usable) *)
Definition retry_after_secs (o : outcome) : Z :=
  match o with
  | OStatus c h _ => if c =? generated_backoff_retry_after_status
                     then match h with [] => 0 | _ => parse_int64 h end else 0
  | _ => 0
  end.

(* temp, temp*(1-jitter) and 2*jitter*temp: Generated.GC17.generated_backoff_temp/_a/_n are
   translated from the arithmetic of the source (float64 read as exact rationals) *)
Definition exp_temp (e : eparams) (attempt : Z) : Q :=
  generated_backoff_temp (e_base e) (e_factor e) (e_jitter e) attempt.
Definition exp_a (e : eparams) (attempt : Z) : Q := generated_backoff_a (exp_temp e attempt) (e_jitter e).
Definition exp_n (e : eparams) (attempt : Z) : Q := generated_backoff_n (exp_temp e attempt) (e_jitter e).

(* [guarded] = true: the repaired source (jitter only when its bound is positive);
   [guarded] = false: the original source, rand.Int64N(n) panics for n <= 0.
   [rnd n] is the value drawn by rand.Int64N(n). *)
Definition exp_backoff_gen (guarded : bool) (oob : Q -> Z) (rnd : Z -> Z)
           (e : eparams) (attempt : Z) (o : outcome) : bres :=
  let ra := retry_after_secs o in
  if generated_backoff_retry_after_ok ra then BRet (wrap64 (ra * generated_backoff_retry_after_unit))
  else
    let a := f2i oob (exp_a e attempt) in
    let n := f2i oob (exp_n e attempt) in
    if n >? 0 then BRet (wrap64 (a + rnd n))
    else if guarded then BRet a else BPanic.

Definition exp_backoff_fixed := exp_backoff_gen true.
Definition exp_backoff_prefix := exp_backoff_gen false.
(* the source as it is now: Generated.GC17.exp_backoff_guarded is re-read from policy.go *)
Definition exp_backoff := exp_backoff_gen exp_backoff_guarded.

Definition default_eparams : eparams :=
  mkE default_backoff_base
      (Qmake default_backoff_factor_num (Z.to_pos default_backoff_factor_den))
      (Qmake default_backoff_jitter_num (Z.to_pos default_backoff_jitter_den)).

Definition default_policy (oob : Q -> Z) (rnd : Z -> Z) : policy :=
  mkPolicy default_max_retry default_min_wait default_max_wait default_predicate
           (exp_backoff oob rnd default_eparams).

(* ------------------------------------------------------------------ *)
(* Request bodies                                                       *)

Inductive bodykind :=
| KNone                       (* req.Body == nil *)
| KNoBody                     (* req.Body == http.NoBody, GetBody nil (http.NewRequest(m, u, http.NoBody)) *)
| KReplay                     (* GetBody set *)
| KOneShot                    (* Body set, GetBody nil *)
| KGetBodyErr (ok_calls : nat). (* GetBody succeeds ok_calls times, then fails *)

Record body := mkBody { bk : bodykind; bdata : str }.

(* run-time state of the request: unread rest of the current Body, GetBody calls so far *)
Record bstate := mkSt { s_rest : str; s_calls : nat }.

Definition init_state (bd : body) : bstate := mkSt (bdata bd) 0.

Inductive rewind_result := RwOk (st : bstate) | RwNoGetBody | RwGetBodyErr.

(* facts about the request that the rewind logic looks at *)
Definition body_nil (bd : body) : bool := match bk bd with KNone => true | _ => false end.
Definition body_nobody (bd : body) : bool := match bk bd with KNoBody => true | _ => false end.
Definition getbody_nil (bd : body) : bool :=
  match bk bd with KNone | KNoBody | KOneShot => true | _ => false end.
Definition getbody_fails (bd : body) (st : bstate) : bool :=
  match bk bd with KGetBodyErr k => negb (s_calls st <? k)%nat | _ => false end.

Definition apply_rw (c : rw_class) (bd : body) (st : bstate) : rewind_result :=
  match c with
  | RcKeep => RwOk st
  | RcFresh => RwOk (mkSt (bdata bd) (S (s_calls st)))
  | RcNoGetBody => RwNoGetBody
  | RcGetBodyErr => RwGetBodyErr
  end.

(* auth.rewindRequestBody: Generated.GC17.generated_auth_rewind is translated from the source *)
Definition rewind (bd : body) (st : bstate) : rewind_result :=
  apply_rw (generated_auth_rewind (body_nil bd) (body_nobody bd) (getbody_nil bd) (getbody_fails bd st)) bd st.

(* the rewind block of Transport.RoundTrip: Generated.GC17.generated_rt_rewind (no special case
   for http.NoBody -- a non-nil Body without GetBody is never retried) *)
Definition rt_rewind (bd : body) (st : bstate) : rewind_result :=
  apply_rw (generated_rt_rewind (body_nil bd) (body_nobody bd) (getbody_nil bd) (getbody_fails bd st)) bd st.

(* the same by body kind *)
Definition rewind_closed (bd : body) (st : bstate) : rewind_result :=
  match bk bd with
  | KNone | KNoBody => RwOk st
  | KReplay => RwOk (mkSt (bdata bd) (S (s_calls st)))
  | KOneShot => RwNoGetBody
  | KGetBodyErr k => if (s_calls st <? k)%nat then RwOk (mkSt (bdata bd) (S (s_calls st)))
                     else RwGetBodyErr
  end.
Definition rt_rewind_closed (bd : body) (st : bstate) : rewind_result :=
  match bk bd with
  | KNoBody => RwNoGetBody
  | _ => rewind_closed bd st
  end.

Definition take_body (r : option nat) (s : str) : str * str :=
  match r with
  | None => (s, [])
  | Some k => (firstn k s, skipn k s)
  end.

(* ------------------------------------------------------------------ *)
(* Transport.RoundTrip                                                  *)

Inductive event :=
| EAttempt (t : Z) (received : str)    (* a request reached the server at time t *)
| EPause (t : Z) (d : Z).              (* the transport started a pause of d at time t *)

Inductive result :=
| RResp (code : Z) (chal : N)
| RErr (is_net timeout temporary : bool)   (* the transport's error *)
| RPredErr                (* the error a predicate returned for a response *)
| RTokenResp (code : Z)   (* the token service answered with a status other than 200 *)
| RCtx                    (* the context's error *)
| RPanic                  (* the policy panicked *)
| RNotRewindable | RGetBodyFailed   (* auth.rewindRequestBody errors *)
| RFuel.                  (* model artefact, excluded by the theorems *)

Definition result_of_outcome (o : outcome) : result :=
  match o with
  | OStatus c _ ch => RResp c ch
  | OErr ne to tmp => RErr ne to tmp
  | OCanceled | ODeadline => RCtx
  end.

(* what RoundTrip returns when the predicate returned an error: the predicates considered
   hand back the transport's error, or an error of their own for a response *)
Definition fail_result (o : outcome) : result :=
  match o with OStatus _ _ _ => RPredErr | _ => result_of_outcome o end.

(* cancellation: the context ends at time tc (is_deadline: DeadlineExceeded instead of Canceled) *)
Definition cancel := option (Z * bool).

Definition ctx_outcome (is_deadline : bool) : outcome := if is_deadline then ODeadline else OCanceled.

(* script exhausted: the server answers 200 at once and reads everything *)
Definition default_beh : beh := mkBeh (OStatus 200 [] 0%N) None 0.

Definition next_beh (sc : list beh) : beh * list beh :=
  match sc with [] => (default_beh, []) | x :: r => (x, r) end.

Record rt_out := mkOut {
  o_res : result; o_st : bstate; o_script : list beh; o_time : Z; o_trace : list event
}.

Definition cancelled_before (cn : cancel) (x : Z) : bool :=
  match cn with Some (tc, _) => tc <? x | None => false end.
(* the context has ended at instant x *)
Definition ended_at (cn : cancel) (x : Z) : bool :=
  match cn with Some (tc, _) => tc <=? x | None => false end.
(* does a pause that would end at instant x end the call with the context's error?
   The select of RoundTrip returns when the context ends first; when the timer fires at the
   very instant the context has ended (always for a zero pause) select picks either branch:
   [checked] = the timer branch re-checks ctx.Err() (then the call ends either way);
   otherwise the model follows the timer branch (the loop goes on). *)
Definition pause_cancelled_gen (checked : bool) (cn : cancel) (x : Z) : bool :=
  if checked then ended_at cn x else cancelled_before cn x.
(* the source as it is now: Generated.GC17.rt_checks_ctx_after_timer is re-read from client.go *)
Definition pause_cancelled := pause_cancelled_gen rt_checks_ctx_after_timer.
Definition cancel_outcome (cn : cancel) : outcome :=
  match cn with Some (_, dl) => ctx_outcome dl | None => OCanceled end.
Definition cancel_clock (cn : cancel) (t : Z) : Z :=
  match cn with Some (tc, _) => Z.max t tc | None => t end.

(* one attempt against the server: what it receives, what comes back and when.
   A context that ends while the server is busy makes the base transport return
   the context's error at that instant; a context that has already ended when the
   request arrives makes it return that error at once (as net/http's transport does). *)
Definition serve (cn : cancel) (bd : body) (st : bstate) (bh : beh) (t : Z)
  : str * bstate * outcome * Z :=
  let '(got, rest) := take_body (b_read bh) (s_rest st) in
  let st' := mkSt rest (s_calls st) in
  if ended_at cn t || cancelled_before cn (t + b_lat bh) then (got, st', cancel_outcome cn, cancel_clock cn t)
  else (got, st', b_out bh, t + b_lat bh).

Inductive step_res :=
| Done (o : rt_out)
| Next (st : bstate) (sc : list beh) (t : Z) (tr : list event).

(* one iteration of the for-loop of Transport.RoundTrip *)
Definition rt_step (p : policy) (cn : cancel) (bd : body)
           (st : bstate) (sc : list beh) (t : Z) (attempt : Z) (tr : list event) : step_res :=
  let '(bh, sc') := next_beh sc in
  let '(got, st1, o, t1) := serve cn bd st bh t in
  let tr1 := tr ++ [EAttempt t got] in
  let stop := Done (mkOut (result_of_outcome o) st1 sc' t1 tr1) in
  match generic_retry p attempt o with
  | DPanic => Done (mkOut RPanic st1 sc' t1 tr1)
  | DFail => Done (mkOut (fail_result o) st1 sc' t1 tr1)   (* return nil, err *)
  | DStop => stop            (* return resp, respErr *)
  | DWait d =>
    if d <? 0 then stop
    else
      (* rewind the body if possible (req.Body == nil: nothing to do) *)
      match rt_rewind bd st1 with
      | RwNoGetBody | RwGetBodyErr => stop
      | RwOk st2 =>
        let tr2 := tr1 ++ [EPause t1 d] in
        if pause_cancelled cn (t1 + d) then Done (mkOut RCtx st2 sc' (cancel_clock cn t1) tr2)
        else Next st2 sc' (t1 + d) tr2
      end
  end.

Fixpoint rt_loop (fuel : nat) (p : policy) (cn : cancel) (bd : body)
         (st : bstate) (sc : list beh) (t : Z) (attempt : Z) (tr : list event) : rt_out :=
  match fuel with
  | O => mkOut RFuel st sc t tr
  | S fuel' =>
    match rt_step p cn bd st sc t attempt tr with
    | Done o => o
    | Next st' sc' t' tr' => rt_loop fuel' p cn bd st' sc' t' (attempt + 1) tr'
    end
  end.

Definition rt_fuel (p : policy) : nat := S (Z.to_nat (p_max_retry p)).

Definition round_trip (p : policy) (cn : cancel) (bd : body) (st : bstate) (sc : list beh) (t : Z) : rt_out :=
  rt_loop (rt_fuel p) p cn bd st sc t 0 [].

(* ------------------------------------------------------------------ *)
(* Trace projections used by the statements and by the runner           *)

Fixpoint attempts (tr : list event) : list (Z * str) :=
  match tr with
  | [] => []
  | EAttempt t g :: r => (t, g) :: attempts r
  | EPause _ _ :: r => attempts r
  end.

Fixpoint pauses (tr : list event) : list (Z * Z) :=
  match tr with
  | [] => []
  | EPause t d :: r => (t, d) :: pauses r
  | EAttempt _ _ :: r => pauses r
  end.

Fixpoint is_prefix (x y : str) : bool :=
  match x, y with
  | [], _ => true
  | c :: x', d :: y' => (c =? d)%N && is_prefix x' y'
  | _ :: _, [] => false
  end.

(* ------------------------------------------------------------------ *)
(* auth.Client.Do over the retrying transport.  Only what matters for re-sending:
   first send; on 401 with a Basic or Bearer challenge rewind the body and send
   again (once for an empty token cache, possibly twice for a warm one). *)

Definition recognised (ch : N) : bool := ((ch =? 1) || (ch =? 2))%N.

Record auth_out := mkAuth {
  a_res : result; a_first : list event; a_second : list event; a_third : list event; a_time : Z
}.

(* the statuses the code compares with are read from the sources (Generated.GC17.*_status_cmps:
   the StatusCode comparisons of each function, in source order) *)
Definition cmp_status (l : list (Z * Z)) (i : nat) : Z := snd (nth i l (0, -1)).
Definition challenge_status : Z := cmp_status auth_do_status_cmps 0.      (* Do: first answer *)
Definition challenge_status_2 : Z := cmp_status auth_do_status_cmps 1.    (* Do: answer to the cached token *)
Definition token_ok_status : Z := cmp_status fetch_distribution_status_cmps 0.
Definition accepted_status : Z := cmp_status blob_push_status_cmps 0.

(* a 401 answer carrying a Basic or Bearer challenge *)
Definition challenged (r : result) : bool :=
  match r with RResp c ch => (c =? challenge_status) && recognised ch | _ => false end.
Definition bearer_challenged (r : result) : bool :=
  match r with RResp c ch => (c =? challenge_status) && (ch =? 2)%N | _ => false end.
Definition unauthorized (r : result) : bool :=
  match r with RResp c _ => c =? challenge_status_2 | _ => false end.

Definition rewind_error (rw : rewind_result) : result :=
  match rw with RwGetBodyErr => RGetBodyFailed | _ => RNotRewindable end.

(* [warm] = the token cache already holds a Bearer token for the scope the challenge
   names (but none for the request's own scope key): Do first re-sends with the
   cached token and, if that is refused too, fetches a fresh token and sends a third
   time.  Every re-send is preceded by rewindRequestBody. *)
Definition auth_do_at (warm : bool) (p : policy) (cn : cancel) (bd : body) (sc : list beh) (t0 : Z) : auth_out :=
  let o1 := round_trip p cn bd (init_state bd) sc t0 in
  if challenged (o_res o1) then
    match rewind bd (o_st o1) with
    | RwOk st2 =>
      let o2 := round_trip p cn bd st2 (o_script o1) (o_time o1) in
      if warm && bearer_challenged (o_res o1) && unauthorized (o_res o2) then
        match rewind bd (o_st o2) with
        | RwOk st3 =>
          let o3 := round_trip p cn bd st3 (o_script o2) (o_time o2) in
          mkAuth (o_res o3) (o_trace o1) (o_trace o2) (o_trace o3) (o_time o3)
        | rw => mkAuth (rewind_error rw) (o_trace o1) (o_trace o2) [] (o_time o2)
        end
      else mkAuth (o_res o2) (o_trace o1) (o_trace o2) [] (o_time o2)
    | rw => mkAuth (rewind_error rw) (o_trace o1) [] [] (o_time o1)
    end
  else mkAuth (o_res o1) (o_trace o1) [] [] (o_time o1).

Definition auth_do (warm : bool) (p : policy) (cn : cancel) (bd : body) (sc : list beh) : auth_out :=
  auth_do_at warm p cn bd sc 0.

(* a request that already carries Authorization, or a client that is not an auth client:
   one send through the transport *)
Definition plain_do_at (p : policy) (cn : cancel) (bd : body) (sc : list beh) (t0 : Z) : auth_out :=
  let o := round_trip p cn bd (init_state bd) sc t0 in
  mkAuth (o_res o) (o_trace o) [] [] (o_time o).

(* ------------------------------------------------------------------ *)
(* The token request of a Bearer challenge.  fetchDistributionToken (GET, no body) and
   fetchOAuth2Token (POST, form body from a strings.Reader: replayable) send it with
   Client.send, i.e. through the same retrying transport; any answer but 200 is an error of
   Do.  [tb]: the token request's body, [tsc]: the token service's script. *)

Definition no_body : body := mkBody KNone [].
Definition accepted (r : result) : bool := match r with RResp c _ => c =? accepted_status | _ => false end.

Record tok_out := mkTok {
  k_ok : bool; k_res : result; k_trace : list event; k_time : Z; k_script : list beh
}.

Definition token_ok (r : result) : bool := match r with RResp c _ => c =? token_ok_status | _ => false end.
Definition token_error (r : result) : result :=
  match r with RResp c _ => RTokenResp c | _ => r end.

Definition fetch_token (p : policy) (cn : cancel) (tb : body) (tsc : list beh) (t0 : Z) : tok_out :=
  let o := round_trip p cn tb (init_state tb) tsc t0 in
  mkTok (token_ok (o_res o)) (token_error (o_res o)) (o_trace o) (o_time o) (o_script o).

Record authk_out := mkAuthK {
  ak_res : result; ak_first : list event; ak_token : list event; ak_second : list event; ak_time : Z
}.

(* auth.Client.Do, empty token cache, with the token request spelled out: first send; on a
   Basic or Bearer challenge: (Bearer) fetch the token -- its failure ends the call --, then
   rewind the body (after the fetch, as in the source), then send again *)
Definition auth_do_tok_at (p : policy) (cn : cancel) (bd : body) (sc : list beh)
           (tb : body) (tsc : list beh) (t0 : Z) : authk_out :=
  let o1 := round_trip p cn bd (init_state bd) sc t0 in
  if challenged (o_res o1) then
    let k := if bearer_challenged (o_res o1) then fetch_token p cn tb tsc (o_time o1)
             else mkTok true (o_res o1) [] (o_time o1) tsc in
    if k_ok k then
      match rewind bd (o_st o1) with
      | RwOk st2 =>
        let o2 := round_trip p cn bd st2 (o_script o1) (k_time k) in
        mkAuthK (o_res o2) (o_trace o1) (k_trace k) (o_trace o2) (o_time o2)
      | rw => mkAuthK (rewind_error rw) (o_trace o1) (k_trace k) [] (k_time k)
      end
    else mkAuthK (k_res k) (o_trace o1) (k_trace k) [] (k_time k)
  else mkAuthK (o_res o1) (o_trace o1) [] [] (o_time o1).

Definition auth_do_tok (p : policy) (cn : cancel) (bd : body) (sc : list beh)
           (tb : body) (tsc : list beh) : authk_out :=
  auth_do_tok_at p cn bd sc tb tsc 0.

(* one send through the transport, no challenge handling (a request that already carries
   Authorization, or a client that is not an auth client) *)
Definition plain_tok_at (p : policy) (cn : cancel) (bd : body) (sc : list beh) (t0 : Z) : authk_out :=
  let o := round_trip p cn bd (init_state bd) sc t0 in
  mkAuthK (o_res o) (o_trace o) [] [] (o_time o).

(* auth.Client.Do with a warm Bearer cache (a token cached under the scope key the challenge
   leads to, none under the request's own key), token request spelled out: first send; on a
   Bearer challenge rewind and re-send with the cached token; if that is refused (any 401) fetch
   a fresh token -- its failure ends the call --, rewind, send a third time.  A Basic challenge
   is answered as with an empty cache. *)
Record authw_out := mkAuthW {
  aw_res : result; aw_first : list event; aw_second : list event; aw_token : list event;
  aw_third : list event; aw_time : Z
}.

Definition auth_do_tokw_at (p : policy) (cn : cancel) (bd : body) (sc : list beh)
           (tb : body) (tsc : list beh) (t0 : Z) : authw_out :=
  let o1 := round_trip p cn bd (init_state bd) sc t0 in
  if challenged (o_res o1) then
    match rewind bd (o_st o1) with
    | RwOk st2 =>
      let o2 := round_trip p cn bd st2 (o_script o1) (o_time o1) in
      if bearer_challenged (o_res o1) && unauthorized (o_res o2) then
        let k := fetch_token p cn tb tsc (o_time o2) in
        if k_ok k then
          match rewind bd (o_st o2) with
          | RwOk st3 =>
            let o3 := round_trip p cn bd st3 (o_script o2) (k_time k) in
            mkAuthW (o_res o3) (o_trace o1) (o_trace o2) (k_trace k) (o_trace o3) (o_time o3)
          | rw => mkAuthW (rewind_error rw) (o_trace o1) (o_trace o2) (k_trace k) [] (k_time k)
          end
        else mkAuthW (k_res k) (o_trace o1) (o_trace o2) (k_trace k) [] (k_time k)
      else mkAuthW (o_res o2) (o_trace o1) (o_trace o2) [] [] (o_time o2)
    | rw => mkAuthW (rewind_error rw) (o_trace o1) [] [] [] (o_time o1)
    end
  else mkAuthW (o_res o1) (o_trace o1) [] [] [] (o_time o1).

Definition authk_attempts (a : authk_out) : list (Z * str) :=
  attempts (ak_first a) ++ attempts (ak_second a).

(* blobStore.Push / Mount fallback with the token requests spelled out (empty token cache): the
   POST may be challenged and fetch a token; the PUT re-uses the POST's Authorization if it had
   one, otherwise it is an ordinary request of the auth client and may fetch a token itself; the
   token service's script goes on where the POST's fetch left it *)
Record pushk_out := mkPushK { uk_res : result; uk_post : authk_out; uk_put : option authk_out; uk_time : Z }.

Definition blob_push_tok (authc : bool) (p : policy) (cn : cancel) (bd : body) (sc : list beh)
           (tb : body) (tsc : list beh) : pushk_out :=
  let post := if authc then auth_do_tok_at p cn no_body sc tb tsc 0 else plain_tok_at p cn no_body sc 0 in
  if accepted (ak_res post) then
    let sc' := skipn (length (authk_attempts post)) sc in
    let tsc' := skipn (length (attempts (ak_token post))) tsc in
    let authed := match attempts (ak_second post) with [] => false | _ => true end in
    let put := if authc && negb authed then auth_do_tok_at p cn bd sc' tb tsc' (ak_time post)
               else plain_tok_at p cn bd sc' (ak_time post) in
    mkPushK (ak_res put) post (Some put) (ak_time put)
  else mkPushK (ak_res post) post None (ak_time post).

Definition auth_attempts (a : auth_out) : list (Z * str) :=
  attempts (a_first a) ++ attempts (a_second a) ++ attempts (a_third a).

(* blobStore.Push: POST without a body starts the upload; on 202 the blob goes out in a PUT
   that re-uses the Authorization header of the POST's last request, if it had one (then the
   auth client passes it through unchanged); otherwise the PUT is an ordinary request of the
   client.  Empty token cache. *)
Record push_out := mkPush { u_res : result; u_post : auth_out; u_put : option auth_out; u_time : Z }.



(* [warm0]: the token cache already holds a token for the push's own scope key, so the POST
   carries Authorization from its first send (the normal state within a push session) *)
Definition blob_push_gen (authc warm0 : bool) (p : policy) (cn : cancel) (bd : body) (sc : list beh) : push_out :=
  let post := if authc then auth_do_at false p cn no_body sc 0 else plain_do_at p cn no_body sc 0 in
  if accepted (a_res post) then
    let sc' := skipn (length (auth_attempts post)) sc in
    let authed := warm0 || match attempts (a_second post) with [] => false | _ => true end in
    let put := if authc && negb authed then auth_do_at false p cn bd sc' (a_time post)
               else plain_do_at p cn bd sc' (a_time post) in
    mkPush (a_res put) post (Some put) (a_time put)
  else mkPush (a_res post) post None (a_time post).

Definition blob_push (authc : bool) := blob_push_gen authc false.

(* manifestStore.push: an *auth.Client and a body without GetBody => the content is
   buffered in memory and GetBody installed *)
(* manifestStore.pushWithIndexing, manifest types that may carry a subject (referrers API not
   known to be supported): the content is read into memory first, whatever the client *)
Definition indexed_manifest_push_body (bd : body) : body :=
  match bk bd with
  | KOneShot => mkBody KReplay (bdata bd)
  | _ => bd
  end.

Definition manifest_push_body (is_auth_client : bool) (bd : body) : body :=
  match bk bd with
  | KOneShot => if is_auth_client then mkBody KReplay (bdata bd) else bd
  | _ => bd
  end.

(* ------------------------------------------------------------------ *)
(* A stateless specification of one send, for a body that can always be replayed and a context
   that never ends: walk the script by index; answer i is read off the script, the body received
   is the prefix the server reads of the WHOLE body, the pause is the policy's decision for
   (i, answer i); stop at the first answer the policy does not want retried.  No request state,
   no script threading, no trace accumulator. *)
(* [cn]: the context's end; the specification answers an attempt that the context cuts short (or
   that starts on an ended context) with the context's error at that instant, and ends the call
   with the context's error when a pause would end after the context *)
Fixpoint spec_run_c (p : policy) (cn : cancel) (bd : body) (sc : list beh) (t : Z) (i : nat) (fuel : nat)
  : result * Z * list (Z * str) :=
  match fuel with
  | O => (RFuel, t, [])
  | S fuel' =>
    let bh := nth i sc default_beh in
    let got := fst (take_body (b_read bh) (bdata bd)) in
    let cut := ended_at cn t || cancelled_before cn (t + b_lat bh) in
    let o := if cut then cancel_outcome cn else b_out bh in
    let t1 := if cut then cancel_clock cn t else t + b_lat bh in
    match generic_retry p (Z.of_nat i) o with
    | DStop => (result_of_outcome o, t1, [(t, got)])
    | DFail => (fail_result o, t1, [(t, got)])
    | DPanic => (RPanic, t1, [(t, got)])
    | DWait d =>
      if d <? 0 then (result_of_outcome o, t1, [(t, got)])
      else if pause_cancelled cn (t1 + d) then (RCtx, cancel_clock cn t1, [(t, got)])
      else let '(r, te, l) := spec_run_c p cn bd sc (t1 + d) (S i) fuel' in (r, te, (t, got) :: l)
    end
  end.

Definition spec_send_c (p : policy) (cn : cancel) (bd : body) (sc : list beh) (t : Z)
  : result * Z * list (Z * str) :=
  spec_run_c p cn bd sc t 0 (rt_fuel p).

Definition spec_run (p : policy) := spec_run_c p None.
Definition spec_send (p : policy) (bd : body) (sc : list beh) (t : Z) : result * Z * list (Z * str) :=
  spec_send_c p None bd sc t.

(* the stateless specification of auth.Client.Do (empty cache, token request spelled out) for
   bodies that can always be replayed: spec_send_c for the first send, for the token request, and
   for the re-send on the rest of the registry's script *)
Definition spec_auth_at_c (p : policy) (cn : cancel) (bd : body) (sc : list beh) (tb : body) (tsc : list beh) (t0 : Z)
  : result * Z * list (Z * str) * list (Z * str) * list (Z * str) :=
  let '(r1, t1, l1) := spec_send_c p cn bd sc t0 in
  if challenged r1 then
    let '(kr, kt, kl) := if bearer_challenged r1 then spec_send_c p cn tb tsc t1 else (r1, t1, []) in
    if negb (bearer_challenged r1) || token_ok kr then
      let '(r2, t2, l2) := spec_send_c p cn bd (skipn (length l1) sc) kt in
      (r2, t2, l1, kl, l2)
    else (token_error kr, kt, l1, kl, [])
  else (r1, t1, l1, [], []).

Definition spec_auth_at (p : policy) := spec_auth_at_c p None.
Definition spec_auth (p : policy) (bd : body) (sc : list beh) (tb : body) (tsc : list beh) :=
  spec_auth_at p bd sc tb tsc 0.

(* ... with a warm Bearer cache: cached token first, fresh token when that is refused *)
Definition spec_authw_at_c (p : policy) (cn : cancel) (bd : body) (sc : list beh) (tb : body) (tsc : list beh) (t0 : Z)
  : result * Z * list (Z * str) * list (Z * str) * list (Z * str) * list (Z * str) :=
  let '(r1, t1, l1) := spec_send_c p cn bd sc t0 in
  if challenged r1 then
    let '(r2, t2, l2) := spec_send_c p cn bd (skipn (length l1) sc) t1 in
    if bearer_challenged r1 && unauthorized r2 then
      let '(kr, kt, kl) := spec_send_c p cn tb tsc t2 in
      if token_ok kr then
        let '(r3, t3, l3) := spec_send_c p cn bd (skipn (length l1 + length l2) sc) kt in
        (r3, t3, l1, l2, kl, l3)
      else (token_error kr, kt, l1, l2, kl, [])
    else (r2, t2, l1, l2, [], [])
  else (r1, t1, l1, [], [], []).

Definition spec_plain_at_c (p : policy) (cn : cancel) (bd : body) (sc : list beh) (t0 : Z)
  : result * Z * list (Z * str) * list (Z * str) * list (Z * str) :=
  let '(r, t, l) := spec_send_c p cn bd sc t0 in (r, t, l, [], []).
Definition spec_plain_at (p : policy) := spec_plain_at_c p None.

(* the stateless specification of a blob push (empty token cache, replayable blob): the POST by
   spec_auth_at_c / spec_plain_at_c; on 202 the PUT on the rest of both scripts, through the auth
   logic only if the POST was not re-sent with credentials *)
Definition spec_push_c (authc : bool) (p : policy) (cn : cancel) (bd : body) (sc : list beh) (tb : body) (tsc : list beh) :=
  let post := if authc then spec_auth_at_c p cn no_body sc tb tsc 0 else spec_plain_at_c p cn no_body sc 0 in
  let '(r, t, l1, kl, l2) := post in
  if accepted r then
    let sc' := skipn (length (l1 ++ l2)) sc in
    let tsc' := skipn (length kl) tsc in
    let authed := match l2 with [] => false | _ => true end in
    let put := if authc && negb authed then spec_auth_at_c p cn bd sc' tb tsc' t else spec_plain_at_c p cn bd sc' t in
    (fst (fst (fst (fst put))), snd (fst (fst (fst put))), post, Some put)
  else (r, t, post, None).
Definition spec_push (authc : bool) (p : policy) := spec_push_c authc p None.

(* ------------------------------------------------------------------ *)
(* Acceptor for observed exponential-backoff results (the jitter is random, the
   float64 arithmetic rounds): is [d] an admissible value of
   clamp(exp_backoff ...)?  Three-valued. *)

Inductive verdict := VYes | VNo | VUnjudged.

Definition eps : Q := 1 # 1000000000.
Definition qnear (q b : Q) : bool := Qle_bool (b * (1 - eps)) q && Qle_bool q (b * (1 + eps)).

(* float64 rounding allowances for temp*(1-jitter) and 2*jitter*temp *)
Definition tol_a (e : eparams) (attempt : Z) : Z :=
  Z.max 0 (qtrunc (Qabs (exp_temp e attempt) * (Qabs (1 - e_jitter e) + Qabs (e_jitter e)) * eps)%Q) + 2.
Definition tol_n (e : eparams) (attempt : Z) : Z :=
  Z.max 0 (qtrunc (Qabs (exp_n e attempt) * eps)%Q) + 2.

Inductive eclass := ECPanic | ECRange (lo hi : Z) | ECUnjudged.

(* exact-arithmetic classification of the original/repaired source *)
Definition exp_class (guarded : bool) (e : eparams) (attempt : Z) (o : outcome) : eclass :=
  let ra := retry_after_secs o in
  if generated_backoff_retry_after_ok ra then let v := wrap64 (ra * generated_backoff_retry_after_unit) in ECRange v v
  else
    let a := qtrunc (exp_a e attempt) in
    let n := qtrunc (exp_n e attempt) in
    let ta := tol_a e attempt in
    let tn := tol_n e attempt in
    (* the jitter bound is positive iff the float64 product is >= 1; a product of 2^63 or
       more converts to an implementation-specific value *)
    if qnear (exp_n e attempt) 1 then ECUnjudged
    else if two63 - tn <=? n then ECUnjudged
    else if n <=? 0 then
      if guarded then
        (if (- two63 + ta <? a) && (a + ta <? two63) then ECRange (a - ta) (a + ta) else ECUnjudged)
      else ECPanic
    else if (- two63 + ta <? a) && (a + n + ta + tn <? two63) then ECRange (a - ta) (a + n + ta + tn)
    else ECUnjudged.

Inductive obs_decision := ODStop | ODFail | ODPanic | ODWait (d : Z).

Definition accept_decision (guarded : bool) (maxretry minw maxw : Z) (e : eparams)
           (attempt : Z) (o : outcome) (seen : obs_decision) : verdict :=
  if attempt >=? maxretry then (match seen with ODStop => VYes | _ => VNo end)
  else match default_predicate o with
       | PFail => (match seen with ODFail => VYes | _ => VNo end)
       | PStop => (match seen with ODStop => VYes | _ => VNo end)
       | PRetry =>
         match exp_class guarded e attempt o with
         | ECUnjudged => VUnjudged
         | ECPanic => (match seen with ODPanic => VYes | _ => VNo end)
         | ECRange lo hi =>
           match seen with
           | ODWait d => if (clamp minw maxw lo <=? d) && (d <=? clamp minw maxw hi) then VYes else VNo
           | ODStop => if clamp minw maxw lo <? 0 then VYes else VNo   (* a negative duration reads as "no retry" *)
           | _ => VNo
           end
         end
       end.

(* deterministic policy used by the scripts: backoff read from a table *)
Definition table_backoff (tbl : list Z) (dflt : Z) (attempt : Z) (o : outcome) : bres :=
  BRet (nth (Z.to_nat attempt) tbl dflt).

Definition table_policy (pred : outcome -> pred_result) (maxretry minw maxw : Z) (tbl : list Z) (dflt : Z) : policy :=
  mkPolicy maxretry minw maxw pred (table_backoff tbl dflt).
