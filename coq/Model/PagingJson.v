(* C15 -- where the first JSON value of a byte stream ends (no proofs in this file).

   json.Decoder.Decode reads ONE value from the stream and leaves the rest alone.  For the
   listings the value is an object (tag list, catalog, image index); an object or array ends at
   the bracket that closes it, found by counting brackets outside of strings.  [scan] is that
   count; it does not check the grammar inside the brackets (Model/Paging.v keeps
   "well-formed?" as a declared attribute of a response): on a well-formed document and on
   its prefixes it answers what the decoder does -- the end offset, or "not complete". *)
From Oras Require Import Base.Prelude Generated.GC15 Model.Paging.

Inductive jst := JOut (depth : nat) | JStr (depth : nat) | JEsc (depth : nat).

Definition j_quote : N := 34.
Definition j_bslash : N := 92.
Definition j_open (c : N) : bool := (c =? 123) || (c =? 91).
Definition j_close (c : N) : bool := (c =? 125) || (c =? 93).
Definition j_ws (c : N) : bool := (c =? 32) || (c =? 9) || (c =? 10) || (c =? 13).

(* inside the outermost bracket: [n] bytes were consumed so far; the offset just after the
   bracket that closes the outermost one *)
Fixpoint scan_in (s : str) (st : jst) (n : nat) : option nat :=
  match s with
  | [] => None
  | c :: r =>
    match st with
    | JStr d => if c =? j_quote then scan_in r (JOut d) (S n)
                else if c =? j_bslash then scan_in r (JEsc d) (S n)
                else scan_in r (JStr d) (S n)
    | JEsc d => scan_in r (JStr d) (S n)
    | JOut d => if c =? j_quote then scan_in r (JStr d) (S n)
                else if j_open c then scan_in r (JOut (S d)) (S n)
                else if j_close c then match d with O => Some (S n) | S d' => scan_in r (JOut d') (S n) end
                else scan_in r (JOut d) (S n)
    end
  end.

(* leading white space, then an object or array; None: incomplete (or not a bracketed value) *)
Fixpoint scan_from (s : str) (n : nat) : option nat :=
  match s with
  | [] => None
  | c :: r => if j_ws c then scan_from r (S n)
              else if j_open c then scan_in r (JOut 0) (S n)
              else None
  end.

Definition scan (s : str) : option nat := scan_from s 0.

(* what a stream decoder hands to the unmarshaller: the bytes of the first value *)
Definition first_value (s : str) : option str :=
  match scan s with Some m => Some (firstn m s) | None => None end.

(* ---------- how many bytes the decoder pulls from the body ---------- *)

(* json.Decoder.refill: the buffer starts at 512 bytes and grows to 2*cap+512 whenever it is
   full; every Read asks for the free part of the buffer, and the body (a bytes reader behind
   io.LimitReader) gives all it is asked for until [avail] bytes are gone.  The decoder stops
   reading as soon as the value is complete inside the buffer, or at EOF.
   cap: bytes read so far if the body lasted; docend: where the value ends. *)
Fixpoint consumed_loop (fuel : nat) (cap docend avail : N) : N :=
  match fuel with
  | O => avail
  | S f =>
    if docend <=? N.min cap avail then N.min cap avail
    else if avail <=? cap then avail
    else consumed_loop f (2 * cap + 512) docend avail
  end.

(* avail = what limitReader lets through of a body of [total] bytes; a document that is not
   complete inside it is read to the end *)
Definition consumed (avail docend : N) : N :=
  consumed_loop 80 512 (if docend <=? avail then docend else avail + 1) avail.

(* the bytes of a metadata answer the client consumes: limitReader, then the decoder *)
Definition consumed_of (limit : Z) (docend total : N) : N :=
  consumed (N.min (Z.to_N (eff_limit limit)) total) docend.

(* the referrers index of the tag schema (manifest GET): limitSize / the Content-Length check
   refuse an index over the limit before its body is touched; otherwise content.ReadAll (or the
   digest computation, when the registry sends no Docker-Content-Digest) reads all of it *)
Definition consumed_index (limit : Z) (size : N) : N :=
  if limit_size_rejects limit (Z.of_N size) then 0 else size.
