(* The bytes saveFile writes: json.MarshalIndent(cfg.content, "", "\t") as encoding/json
   computes it --
     map keys sorted bytewise and written with json_quote;
     a json.RawMessage value passed through compact (insignificant white space
       dropped, < > & and U+2028/9 escaped -- escapeHTML);
     credsStore re-marshalled from its Go string; "auths" = json.Marshal of the map
       of entries (same rules), an entry written by Put being entry_bytes;
     the whole text re-indented by json.Indent with a tab.
   Values the library does not interpret are carried by their SOURCE TEXT (as they stand
   in the file that was loaded), looked up by top-level key / by auths key.
   Executable model only. *)
From Oras Require Import Base.Prelude Generated.GC18 Model.Utf8 Model.Json Model.CredFile.

(* ---------- compact with escapeHTML ---------- *)
Definition is_ws (c : N) : bool := (c =? 32) || (c =? 9) || (c =? 10) || (c =? 13).

Definition u00 (c : N) : str := [bs; 117; 48; 48; hex_digit (c / 16); hex_digit (c mod 16)].

(* [ins]: inside a string; a backslash inside a string protects the next byte *)
Fixpoint compact_from (ins : bool) (s : str) : str :=
  match s with
  | [] => []
  | c :: r =>
      if (c =? 60) || (c =? 62) || (c =? 38) then u00 c ++ compact_from ins r
      else match s with
           | 226 :: 128 :: x :: r3 =>
               if (x =? 168) || (x =? 169)
               then [bs; 117; 50; 48; 50; hex_digit (x mod 16)] ++ compact_from ins r3
               else c :: compact_from ins r
           | _ =>
               if ins then
                 if c =? bs then match r with
                                 | e :: r' => c :: e :: compact_from true r'
                                 | [] => [c]
                                 end
                 else if c =? dq then c :: compact_from false r
                 else c :: compact_from true r
               else if is_ws c then compact_from false r
               else if c =? dq then c :: compact_from true r
               else c :: compact_from false r
           end
  end.

Definition compact_html (s : str) : str := compact_from false s.

(* ---------- json.Indent (prefix "", indent "\t") on a compact text ---------- *)
Fixpoint tabs (n : nat) : str := match n with O => [] | S k => 9 :: tabs k end.
Definition newline (depth : nat) : str := 10 :: tabs depth.

Fixpoint indent_from (ins need : bool) (depth : nat) (s : str) : str :=
  match s with
  | [] => []
  | c :: r =>
      if ins then
        if c =? bs then match r with
                        | e :: r' => c :: e :: indent_from true need depth r'
                        | [] => [c]
                        end
        else if c =? dq then c :: indent_from false need depth r
        else c :: indent_from true need depth r
      else
        let closing := (c =? 125) || (c =? 93) in
        (* a pending indentation is emitted before anything but a closing bracket *)
        let pre := if need && negb closing then newline (S depth) else [] in
        let depth1 := if need && negb closing then S depth else depth in
        if c =? dq then pre ++ c :: indent_from true false depth1 r
        else if (c =? 123) || (c =? 91) then pre ++ c :: indent_from false true depth1 r
        else if c =? 44 then pre ++ c :: newline depth1 ++ indent_from false false depth1 r
        else if c =? 58 then pre ++ c :: 32 :: indent_from false false depth1 r
        else if closing then
          if need then c :: indent_from false false depth r
          else newline (pred depth) ++ c :: indent_from false false (pred depth) r
        else pre ++ c :: indent_from false false depth1 r
  end.

Definition indent_json (s : str) : str := indent_from false false 0 s.

(* ---------- Go's sort of map keys: bytewise ---------- *)
Fixpoint str_ltb (x y : str) : bool :=
  match x, y with
  | [], [] => false
  | [], _ :: _ => true
  | _ :: _, [] => false
  | c :: x', d :: y' => if c <? d then true else if d <? c then false else str_ltb x' y'
  end.

Section Sort.
  Context {V : Type}.
  Fixpoint insert_key (kv : str * V) (l : list (str * V)) : list (str * V) :=
    match l with
    | [] => [kv]
    | h :: t => if str_ltb (fst kv) (fst h) then kv :: l else h :: insert_key kv t
    end.
  Definition sort_keys (l : list (str * V)) : list (str * V) := fold_right insert_key [] l.
End Sort.

(* ---------- the document ---------- *)
Definition src_table := list (str * str).   (* key |-> source text of its value *)

Definition src_of (k : str) (t : src_table) : str :=
  match lookup k t with Some s => s | None => b "null" end.

Definition render_entry (ents : src_table) (ae : str * entry) : str :=
  match lookup (fst ae) ents with
  | Some s => compact_html s                       (* an entry of the loaded file, untouched *)
  | None => match snd ae with
            | Fresh a i r => render_fresh a i r    (* written by Put *)
            | Old _ _ => b "null"
            end
  end.

Definition render_object {V} (val : str * V -> str) (l : list (str * V)) : str :=
  [123] ++ join_comma (map (fun kv => [dq] ++ json_quote (fst kv) ++ [dq; 58] ++ val kv) (sort_keys l)) ++ [125].

Definition render_top (tops ents : src_table) (kv : str * tval) : str :=
  match snd kv with
  | TRaw _ _ => compact_html (src_of (fst kv) tops)
  | TCs s => [dq] ++ json_quote s ++ [dq]
  | TAuths l => render_object (render_entry ents) l
  end.

(* the bytes of the file after a save *)
Definition render_file (tops ents : src_table) (d : fdoc) : str :=
  indent_json (render_object (render_top tops ents) d).

(* which source texts are still current: Put and Delete of an address retire its entry *)
Definition retire (ents : src_table) (o : op) (saved : bool) : src_table :=
  if saved then
    match o with
    | Put a _ | Delete a => del a ents
    | _ => ents
    end
  else ents.
