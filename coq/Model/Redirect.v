(* C16 -- the part of net/http's redirect policy (go1.26, client.go:
   shouldCopyHeaderOnRedirect / isDomainOrSubdomain / redirectBehavior) on which the
   two known findings rest: which follow-up requests keep the Authorization header
   that auth.Client attached, and which keep the body of a token request.
   Hosts are host[:port] strings as they appear in URLs (no IDNA, ASCII lower case
   is applied).  No proofs in this file. *)
From Oras Require Import Base.Prelude Model.Scopes Model.Challenge.

Definition is_digit (c : N) : bool := (48 <=? c) && (c <=? 57).

(* url.URL.Hostname(): the port (":digits" at the end) removed; "[v6]:port" -> v6 *)
Definition strip_port (hp : str) : str :=
  match last_index_of c_colon hp with
  | Some i =>
    let port := skipn (S i) hp in
    if forallb is_digit port && negb (contains 93 port) then firstn i hp else hp
  | None => hp
  end.

Definition unbracket (h : str) : str :=
  match h with
  | 91 :: rest => match rev rest with 93 :: r => rev r | _ => h end
  | _ => h
  end.

Definition url_hostname (hp : str) : str := map lower (unbracket (strip_port hp)).

Fixpoint ends_with (s suffix : str) : bool :=
  if str_eqb s suffix then true
  else match s with [] => false | _ :: s' => ends_with s' suffix end.

(* isDomainOrSubdomain(sub, parent) *)
Definition is_domain_or_subdomain (sub parent : str) : bool :=
  if str_eqb sub parent then true
  else if contains c_colon sub || contains 37 sub then false
  else ends_with sub (46 :: parent) && negb (is_empty parent).

(* does the follow-up request to [dest] keep the Authorization header of the request to [initial]? *)
Definition keeps_authorization (initial dest : str) : bool :=
  is_domain_or_subdomain (url_hostname dest) (url_hostname initial).

(* redirectBehavior: does the follow-up keep method and body? *)
Definition keeps_body (status : N) : bool := (status =? 307) || (status =? 308).
