(* CopyCancel -- the caller's context ends (cancel() or deadline) during Copy / CopyGraph.
   The transition system of CopySpec knows only runs in which a failure has a visible
   cause (a Dead node).  A cancellation has no event of its own in the stores or callbacks:
   tasks simply stop at their next blocking point (semaphore Acquire in syncutil.Go /
   LimitedRegion.Start, the wait for a successor's done channel) or are skipped before they
   start ("skip the task if the context is already cancelled"), and syncutil.Go reports
   context.Cause(ctx).  This layer adds the event [Cancel] (recorded by the harness at the
   moment it ends the context) around CopySpec/CopyOpt:
     - after [Cancel] the call may return an error at any time, whatever the nodes' phases
       (abandoned tasks): [Ev (Ret false)] is accepted;
     - everything else is unchanged: in particular [Ev (Ret true)] -- success -- still
       needs the root Done and every node Idle or Done.  That is the content of
       syncutil.Go's "return context.Cause(ctx)": a cancellation that kept anything from
       being scheduled must not be reported as success.
   No proofs in this file. *)
From Oras Require Import Base.Prelude Model.CopySpec Model.CopyOpt.
Local Open Scope nat_scope.

Inductive cevent :=
| Ev (e : event)
| Cancel.                (* the context given to Copy / CopyGraph is done from here on *)

Record cstate := mkCState { cs_st : state; cs_cancelled : bool }.

Definition ret_false (st : state) : state :=
  mkState (ph st) (dst st) (cached st) (tag st) (Some false).

(* one recorded event; the elaborated CopySpec events it stands for *)
Definition cstep_opt (cs : cbset) (g : graph) (c : cfg) (s : cstate) (ce : cevent)
  : option (cstate * list event) :=
  match ce with
  | Cancel =>
      match returned (cs_st s) with
      | Some _ => None
      | None => Some (mkCState (cs_st s) true, [])
      end
  | Ev e =>
      match step_opt cs g c (cs_st s) e with
      | Some (st', full) => Some (mkCState st' (cs_cancelled s), full)
      | None =>
          (* the only addition: an error return after the context ended *)
          match e, returned (cs_st s) with
          | Ret false, None => if cs_cancelled s then Some (mkCState (ret_false (cs_st s)) true, []) else None
          | _, _ => None
          end
      end
  end.

Fixpoint crun_opt (cs : cbset) (g : graph) (c : cfg) (s : cstate) (tr : list cevent)
  : option (cstate * list event) :=
  match tr with
  | [] => Some (s, [])
  | ce :: tr' =>
      match cstep_opt cs g c s ce with
      | None => None
      | Some (s1, f1) =>
          match crun_opt cs g c s1 tr' with
          | None => None
          | Some (s2, f2) => Some (s2, f1 ++ f2)
          end
      end
  end.

Definition caccepts_opt (cs : cbset) (g : graph) (c : cfg) (d0 : list node) (tr : list cevent) :=
  crun_opt cs g c (mkCState (init c d0) false) tr.

(* the store / callback events of a recorded trace *)
Fixpoint visible (tr : list cevent) : list event :=
  match tr with
  | [] => []
  | Ev e :: r => e :: visible r
  | Cancel :: r => visible r
  end.
