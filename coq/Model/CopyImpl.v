(* CopyImpl: executable small-step LTS of the task / permit / channel protocol of
     internal/syncutil/limit.go   (Go, LimitRegion, LimitedRegion.Start/End)
     internal/status/tracker.go   (TryCommit, done channels closed only on success)
     copy.go copyGraph.fn         (TryCommit; Exists; FindSuccessors; region.End(); nested
                                   syncutil.Go(successors); wait on done-or-ctx per successor;
                                   region.Start(); push; deferred close(done) iff err == nil)
     extendedcopy.go              (outer fan-out: task = region.End(); copyGraph(root); region.Start())
   No proofs in this file (Proofs/CopyImpl.v).  Everything is computable and extracted.

   Representation: tasks and frames live in total maps nat -> _ with a counter; ids at or above the
   counter hold a default *finished* task / *returned* frame, so that no label is enabled for them.

   One task = one goroutine started by errgroup.Go inside syncutil.Go (the closure
   `defer lr.End(); select egCtx.Done -> return nil; fn(egCtx, lr, t)`), kind KFn for copyGraph.fn,
   kind KOuter for the closure of ExtendedCopyGraph.  One frame = one call of syncutil.Go: its
   cancel-cause context ctx' (derived from the calling task's ctx = the egCtx of that task's frame),
   its errgroup, its sequential dispatch loop.

   Contexts.  A frame records `f_anc` = its own id followed by the ids of all frames its context is
   derived from.  Cancelling frame x marks every frame having x among its ancestors (Go's
   context.cancel walks its children synchronously; a context derived from a cancelled one is born
   cancelled).  egCtx of errgroup.WithContext is cancelled (a) by the first failing child - but that
   child has called cancel(err) on ctx' just before - or (b) when Wait returns, when no child runs any
   more; so one flag per frame is exact for every observer.  context.Cause(ctx') is non-nil iff the
   flag is set.

   Atomicity abstractions (each merges only non-blocking operations that can only *enable* steps
   of other tasks, so every real interleaving is one of the model):
     - Acquire in the dispatch loop + eg.Go (spawn)                          = LDispatchAcq
     - return of fn + deferred close(done) + cancel(err) + deferred lr.End()  = `finish`
     - eg.Wait returning + cancel + return of Go + `if err != nil {return err}` of the caller = LGoReturn
   LChildRun / LDispatchAcq are enabled even when the frame is already cancelled: this is the
   cancellation landing between the `select <-egCtx.Done()` check (resp. the ctx check inside
   semaphore.Acquire) and the next instruction.  LChildSkip / LDispatchFail / LStartFail /
   LWaitCancel need the flag.  The FIFO order of semaphore waiters is abstracted: any waiter may get a
   free permit.

   Fault choices: LExists _ ExFail, LFind _ false, LPush _ false (a storage step or callback of the
   task fails) and LCancelTop (the caller's context is cancelled) are enabled whenever the
   corresponding step is. *)
From Coq Require Import List Arith Bool.
Import ListNotations.

Inductive kind := KFn | KOuter.
Inductive pc :=
| TSpawned                 (* goroutine created by eg.Go, holds the permit acquired by the dispatch loop *)
| TTry                     (* fn entered: tracker.TryCommit(desc) *)
| TExists                  (* dst.Exists *)
| TFind                    (* opts.FindSuccessors (fetch through the proxy) + removeForeignLayers *)
| TEnd                     (* region.End() *)
| TGo                      (* call syncutil.Go(ctx, limiter, fn, successors...) *)
| TInGo (f : nat)          (* inside that call; f = the frame *)
| TWait (l : list nat)     (* for _, node := range successors: TryCommit(node); select done / ctx.Done *)
| TStart                   (* region.Start() *)
| TPush                    (* copyNode / mountOrCopyNode: fetch + push (+ callbacks) *)
| TFin (e : bool).         (* goroutine finished; e = fn returned a non-nil error *)
Inductive fpc := FDispatch | FWait | FRet (e : bool).
Inductive status := Untracked | InProgress | DoneSkipped | DoneCopied.
Inductive exres := ExTrue | ExFalse | ExFail.

Record task := mkTask { t_node : nat; t_kind : kind; t_frame : nat; t_pc : pc; t_holds : bool }.
Record frame := mkFrame { f_parent : option nat; f_anc : list nat; f_kind : kind; f_all : list nat;
                          f_items : list nat; f_pc : fpc; f_cancelled : bool }.
Record state := mkState { tasks : nat -> task; ntasks : nat; frames : nat -> frame; nframes : nat;
                          free : nat; tracker : nat -> status; top_cancelled : bool; failed : bool }.

Inductive label :=
| LCancelTop
| LDispatchAcq (f : nat) | LDispatchFail (f : nat) | LDispatchEnd (f : nat) | LGoReturn (f : nat)
| LChildRun (t : nat) | LChildSkip (t : nat) | LTryCommit (t : nat) | LExists (t : nat) (r : exres)
| LFind (t : nat) (ok : bool) | LEnd (t : nat) | LGo (t : nat) | LWaitDone (t : nat) | LWaitCancel (t : nat)
| LStart (t : nat) | LStartFail (t : nat) | LPush (t : nat) (ok : bool).

Definition dtask : task := mkTask 0 KFn 0 (TFin false) false.
Definition dframe : frame := mkFrame None [] KFn [] [] (FRet false) false.

Definition upd {A} (f : nat -> A) (i : nat) (x : A) : nat -> A := fun j => if Nat.eqb j i then x else f j.

Definition set_pc (t : task) (p : pc) : task := mkTask (t_node t) (t_kind t) (t_frame t) p (t_holds t).
Definition set_pc_holds (t : task) (p : pc) (h : bool) : task := mkTask (t_node t) (t_kind t) (t_frame t) p h.
Definition set_cancelled (f : frame) : frame :=
  mkFrame (f_parent f) (f_anc f) (f_kind f) (f_all f) (f_items f) (f_pc f) true.
Definition set_fpc (f : frame) (its : list nat) (p : fpc) : frame :=
  mkFrame (f_parent f) (f_anc f) (f_kind f) (f_all f) its p (f_cancelled f).

Definition is_fin (p : pc) : bool := match p with TFin _ => true | _ => false end.
Definition is_ret (p : fpc) : bool := match p with FRet _ => true | _ => false end.
Definition is_done (st : status) : bool := match st with DoneSkipped | DoneCopied => true | _ => false end.
Definition wait_pc (l : list nat) : pc := match l with [] => TStart | _ => TWait l end.

Definition cancel_frames (x : nat) (fs : nat -> frame) : nat -> frame :=
  fun j => if existsb (Nat.eqb x) (f_anc (fs j)) then set_cancelled (fs j) else fs j.

Definition with_tasks (s : state) (ts : nat -> task) : state :=
  mkState ts (ntasks s) (frames s) (nframes s) (free s) (tracker s) (top_cancelled s) (failed s).

(* the task's goroutine ends: fn returned e; the deferred function of fn closes done iff e = nil
   (mark = the tracker status to record, None when the task did not commit the node or failed);
   the errgroup closure calls cancel(err) on the frame's ctx' when e; the deferred lr.End() releases
   the permit if the region is not ended. *)
Definition finish (s : state) (t : nat) (e : bool) (mark : option status) : state :=
  let tk := tasks s t in
  mkState (upd (tasks s) t (set_pc_holds tk (TFin e) false)) (ntasks s)
          (if e then cancel_frames (t_frame tk) (frames s) else frames s) (nframes s)
          (if t_holds tk then S (free s) else free s)
          (match mark with Some st => upd (tracker s) (t_node tk) st | None => tracker s end)
          (top_cancelled s) (failed s || e).

Section Graph.
Variable succ : nat -> list nat.   (* successors after removeForeignLayers, in order, duplicates kept *)

Definition go_items (t : task) : list nat :=
  match t_kind t with KFn => succ (t_node t) | KOuter => [t_node t] end.
Definition wait_list (t : task) : list nat :=
  match t_kind t with KFn => succ (t_node t) | KOuter => [] end.

Definition frame_tasks_done (s : state) (f : nat) : bool :=
  forallb (fun t => if Nat.eqb (t_frame (tasks s t)) f then is_fin (t_pc (tasks s t)) else true) (seq 0 (ntasks s)).

Definition step (s : state) (l : label) : option state :=
  match l with
  | LCancelTop =>
      if top_cancelled s || is_ret (f_pc (frames s 0)) then None
      else Some (mkState (tasks s) (ntasks s) (cancel_frames 0 (frames s)) (nframes s) (free s) (tracker s) true true)
  | LDispatchAcq f =>
      let fr := frames s f in
      match f_pc fr, f_items fr, free s with
      | FDispatch, i :: rest, S k =>
          Some (mkState (upd (tasks s) (ntasks s) (mkTask i (f_kind fr) f TSpawned true)) (S (ntasks s))
                        (upd (frames s) f (set_fpc fr rest FDispatch)) (nframes s) k (tracker s)
                        (top_cancelled s) (failed s))
      | _, _, _ => None
      end
  | LDispatchFail f =>
      let fr := frames s f in
      match f_pc fr, f_items fr with
      | FDispatch, _ :: _ =>
          if f_cancelled fr
          then Some (mkState (tasks s) (ntasks s) (upd (frames s) f (set_fpc fr [] FWait)) (nframes s) (free s)
                             (tracker s) (top_cancelled s) (failed s))
          else None
      | _, _ => None
      end
  | LDispatchEnd f =>
      let fr := frames s f in
      match f_pc fr, f_items fr with
      | FDispatch, [] =>
          Some (mkState (tasks s) (ntasks s) (upd (frames s) f (set_fpc fr [] FWait)) (nframes s) (free s)
                        (tracker s) (top_cancelled s) (failed s))
      | _, _ => None
      end
  | LGoReturn f =>
      let fr := frames s f in
      match f_pc fr with
      | FWait =>
          if frame_tasks_done s f then
            let e := f_cancelled fr in
            let s1 := mkState (tasks s) (ntasks s) (upd (frames s) f (set_fpc fr [] (FRet e))) (nframes s) (free s)
                              (tracker s) (top_cancelled s) (failed s) in
            match f_parent fr with
            | None => Some s1
            | Some p =>
                match t_pc (tasks s p) with
                | TInGo g =>
                    if Nat.eqb g f then
                      if e then Some (finish s1 p true None)
                      else Some (with_tasks s1 (upd (tasks s) p (set_pc (tasks s p) (wait_pc (wait_list (tasks s p))))))
                    else None
                | _ => None
                end
            end
          else None
      | _ => None
      end
  | LChildRun t =>
      let tk := tasks s t in
      match t_pc tk with
      | TSpawned => Some (with_tasks s (upd (tasks s) t (set_pc tk (match t_kind tk with KFn => TTry | KOuter => TEnd end))))
      | _ => None
      end
  | LChildSkip t =>
      let tk := tasks s t in
      match t_pc tk with
      | TSpawned => if f_cancelled (frames s (t_frame tk)) then Some (finish s t false None) else None
      | _ => None
      end
  | LTryCommit t =>
      let tk := tasks s t in
      match t_pc tk with
      | TTry =>
          match tracker s (t_node tk) with
          | Untracked =>
              Some (mkState (upd (tasks s) t (set_pc tk TExists)) (ntasks s) (frames s) (nframes s) (free s)
                            (upd (tracker s) (t_node tk) InProgress) (top_cancelled s) (failed s))
          | _ => Some (finish s t false None)
          end
      | _ => None
      end
  | LExists t r =>
      let tk := tasks s t in
      match t_pc tk with
      | TExists =>
          match r with
          | ExTrue => Some (finish s t false (Some DoneSkipped))
          | ExFalse => Some (with_tasks s (upd (tasks s) t (set_pc tk TFind)))
          | ExFail => Some (finish s t true None)
          end
      | _ => None
      end
  | LFind t ok =>
      let tk := tasks s t in
      match t_pc tk with
      | TFind =>
          if ok then Some (with_tasks s (upd (tasks s) t (set_pc tk (match succ (t_node tk) with [] => TPush | _ => TEnd end))))
          else Some (finish s t true None)
      | _ => None
      end
  | LEnd t =>
      let tk := tasks s t in
      match t_pc tk with
      | TEnd =>
          Some (mkState (upd (tasks s) t (set_pc_holds tk TGo false)) (ntasks s) (frames s) (nframes s)
                        (if t_holds tk then S (free s) else free s) (tracker s) (top_cancelled s) (failed s))
      | _ => None
      end
  | LGo t =>
      let tk := tasks s t in
      match t_pc tk with
      | TGo =>
          let pf := frames s (t_frame tk) in
          Some (mkState (upd (tasks s) t (set_pc tk (TInGo (nframes s)))) (ntasks s)
                        (upd (frames s) (nframes s)
                             (mkFrame (Some t) (nframes s :: f_anc pf) KFn (go_items tk) (go_items tk) FDispatch (f_cancelled pf)))
                        (S (nframes s)) (free s) (tracker s) (top_cancelled s) (failed s))
      | _ => None
      end
  | LWaitDone t =>
      let tk := tasks s t in
      match t_pc tk with
      | TWait (m :: rest) =>
          match tracker s m with
          | Untracked =>   (* TryCommit(node) commits: "successor not committed" *)
              Some (finish (mkState (tasks s) (ntasks s) (frames s) (nframes s) (free s) (upd (tracker s) m InProgress)
                                    (top_cancelled s) (failed s)) t true None)
          | InProgress => None
          | _ => Some (with_tasks s (upd (tasks s) t (set_pc tk (wait_pc rest))))
          end
      | _ => None
      end
  | LWaitCancel t =>
      let tk := tasks s t in
      match t_pc tk with
      | TWait _ => if f_cancelled (frames s (t_frame tk)) then Some (finish s t true None) else None
      | _ => None
      end
  | LStart t =>
      let tk := tasks s t in
      match t_pc tk with
      | TStart =>
          (* fr = free permits once the region is started.  KFn: go on to the push.  KOuter: the closure
             returns region.Start()'s nil, the deferred lr.End() releases again (= finish) *)
          let after (fr : nat) :=
            match t_kind tk with
            | KFn => Some (mkState (upd (tasks s) t (set_pc_holds tk TPush true)) (ntasks s) (frames s) (nframes s) fr
                                   (tracker s) (top_cancelled s) (failed s))
            | KOuter => Some (mkState (upd (tasks s) t (set_pc_holds tk (TFin false) false)) (ntasks s) (frames s) (nframes s) (S fr)
                                      (tracker s) (top_cancelled s) (failed s))
            end in
          if t_holds tk then after (free s)
          else match free s with
               | S k => after k
               | O => None
               end
      | _ => None
      end
  | LStartFail t =>
      let tk := tasks s t in
      match t_pc tk with
      | TStart => if negb (t_holds tk) && f_cancelled (frames s (t_frame tk)) then Some (finish s t true None) else None
      | _ => None
      end
  | LPush t ok =>
      let tk := tasks s t in
      match t_pc tk with
      | TPush => Some (finish s t (negb ok) (if ok then Some DoneCopied else None))
      | _ => None
      end
  end.

Definition frame_labels (f : nat) : list label := [LDispatchAcq f; LDispatchFail f; LDispatchEnd f; LGoReturn f].
Definition task_labels (t : nat) : list label :=
  [LChildRun t; LChildSkip t; LTryCommit t; LExists t ExTrue; LExists t ExFalse; LExists t ExFail;
   LFind t true; LFind t false; LEnd t; LGo t; LWaitDone t; LWaitCancel t; LStart t; LStartFail t;
   LPush t true; LPush t false].
Definition candidates (s : state) : list label :=
  LCancelTop :: flat_map frame_labels (seq 0 (nframes s)) ++ flat_map task_labels (seq 0 (ntasks s)).
Definition is_some {A} (o : option A) : bool := match o with Some _ => true | None => false end.
Definition enabled (s : state) : list label := filter (fun l => is_some (step s l)) (candidates s).

(* environment / fault choices; every other label is a step of the protocol itself *)
Definition is_fault (l : label) : bool :=
  match l with
  | LCancelTop | LExists _ ExFail | LFind _ false | LPush _ false => true
  | _ => false
  end.
Definition progress_label (l : label) : bool := negb (is_fault l).

Fixpoint run (s : state) (ls : list label) : option state :=
  match ls with
  | [] => Some s
  | l :: r => match step s l with Some s' => run s' r | None => None end
  end.

(* a deterministic scheduler (used by the Examples of Properties/C02_protocol.v and by the runner's
   self-test): repeatedly fires the label chosen by `pick` among the enabled ones *)
Fixpoint sched (pick : list label -> option label) (fuel : nat) (s : state) (acc : list label) : state * list label :=
  match fuel with
  | O => (s, rev acc)
  | S k =>
      match pick (enabled s) with
      | None => (s, rev acc)
      | Some l => match step s l with Some s' => sched pick k s' (l :: acc) | None => (s, rev acc) end
      end
  end.

End Graph.

(* first enabled protocol step, never answering "exists" (so that the whole graph is copied) *)
Definition copy_label (l : label) : bool :=
  match l with LExists _ ExTrue => false | _ => progress_label l end.
Definition pick_progress (ls : list label) : option label := find copy_label ls.
(* prefers a failing push, then a cancellation-free protocol step *)
Definition pick_push_fault (ls : list label) : option label :=
  match find (fun l => match l with LPush _ false => true | _ => false end) ls with
  | Some l => Some l
  | None => find copy_label ls
  end.

(* K permits, the top-level call syncutil.Go(ctx, limiter, fn, roots...):
   ext = false: copyGraph (roots = [root], children run copyGraph.fn);
   ext = true : ExtendedCopyGraph (children run the outer closure). *)
Definition init (K : nat) (ext : bool) (roots : list nat) : state :=
  mkState (fun _ => dtask) 0
          (upd (fun _ => dframe) 0 (mkFrame None [0] (if ext then KOuter else KFn) roots roots FDispatch false)) 1
          K (fun _ => Untracked) false false.

Definition is_final (s : state) : bool := is_ret (f_pc (frames s 0)).
(* Some true = the call returned a non-nil error *)
Definition result (s : state) : option bool := match f_pc (frames s 0) with FRet e => Some e | _ => None end.

Fixpoint count_upto (p : nat -> bool) (n : nat) : nat :=
  match n with O => 0 | S k => (if p k then 1 else 0) + count_upto p k end.
Definition holders (s : state) : nat := count_upto (fun t => t_holds (tasks s t)) (ntasks s).
Definition in_storage (p : pc) : bool := match p with TExists | TFind | TPush => true | _ => false end.
Definition inflight (s : state) : nat := count_upto (fun t => in_storage (t_pc (tasks s t))) (ntasks s).
