(* C16 -- executable model of registry/remote/auth/client.go (Client.Do and the
   token fetchers) and cache.go (noCache, concurrentCache, the single-context
   fallbackCache + hostCache), sequential.

   Secrets are symbolic and carry the host they belong to ("taint"):
     SBasicTok h   base64(username:password) of Credential(h)
     SUserPass h   username/password of Credential(h) as sent to a token endpoint
     SRefresh h    refresh token of Credential(h)
     SAccess h     access token of Credential(h)
     SIssued h id  the token returned by the token endpoint to a fetch made while
                   serving a request addressed to h
   The servers are a script of answers consumed in order (trace-acceptor style):
   the model says what is sent, the script says what came back.
   No proofs in this file. *)
From Oras Require Import Base.Prelude Model.Scopes Model.Challenge.

Definition host := N.

Inductive secret :=
| SBasicTok (h : host)
| SUserPass (h : host)
| SRefresh (h : host)
| SAccess (h : host)
| SIssued (h : host) (id : N).

Definition taint (s : secret) : host :=
  match s with
  | SBasicTok h | SUserPass h | SRefresh h | SAccess h | SIssued h _ => h
  end.

(* which fields of Credential(h) are non-empty *)
Record cred := mkCred { c_user : bool; c_pass : bool; c_refresh : bool; c_access : bool }.
Definition cred_empty (c : cred) : bool :=
  negb (c_user c || c_pass c || c_refresh c || c_access c).

Inductive flavour := FNone | FShared | FSingle.

Record config := mkConfig {
  cf_flavour : flavour;
  cf_oauth2 : bool;                 (* ForceAttemptOAuth2 *)
  cf_creds : host -> cred;
  cf_cred_err : host -> bool;       (* the CredentialFunc returns an error for this host *)
}.

(* ---------- concurrentCache: host -> (scheme, key -> token) ---------- *)
Definition tokens := list (str * secret).
Definition cc := list (host * (scheme * tokens)).

Fixpoint cc_entry (c : cc) (h : host) : option (scheme * tokens) :=
  match c with
  | [] => None
  | (h', e) :: c' => if h =? h' then Some e else cc_entry c' h
  end.

Fixpoint tok_get (t : tokens) (k : str) : option secret :=
  match t with
  | [] => None
  | (k', v) :: t' => if str_eqb k k' then Some v else tok_get t' k
  end.

Fixpoint tok_set (t : tokens) (k : str) (v : secret) : tokens :=
  match t with
  | [] => [(k, v)]
  | (k', v') :: t' => if str_eqb k k' then (k, v) :: t' else (k', v') :: tok_set t' k v
  end.

Definition cc_get_scheme (c : cc) (h : host) : option scheme :=
  match cc_entry c h with Some (s, _) => Some s | None => None end.

Definition cc_get_token (c : cc) (h : host) (s : scheme) (k : str) : option secret :=
  match cc_entry c h with
  | Some (s', t) => if scheme_eqb s s' then tok_get t k else None
  | None => None
  end.

Fixpoint cc_put (c : cc) (h : host) (e : scheme * tokens) : cc :=
  match c with
  | [] => [(h, e)]
  | (h', e') :: c' => if h =? h' then (h, e) :: c' else (h', e') :: cc_put c' h e
  end.

(* the "cache token" tail of concurrentCache.Set *)
Definition cc_store (c : cc) (h : host) (s : scheme) (k : str) (v : secret) : cc :=
  match cc_entry c h with
  | Some (s', t) =>
    if scheme_eqb s s' then cc_put c h (s, tok_set t k v)
    else cc_put c h (s, [(k, v)])
  | None => cc_put c h (s, [(k, v)])
  end.

(* ---------- the three cache flavours ---------- *)
Definition cache_get_scheme (f : flavour) (c : cc) (h : host) : option scheme :=
  match f with
  | FNone => None
  | _ => cc_get_scheme c h
  end.

Definition cache_get_token (f : flavour) (c : cc) (h : host) (s : scheme) (k : str) : option secret :=
  match f with
  | FNone => None
  | FShared => cc_get_token c h s k
  | FSingle =>
    match cc_get_token c h s k with
    | Some v => Some v
    | None => cc_get_token c h s []
    end
  end.

(* Set after a successful fetch *)
Definition cache_store (f : flavour) (c : cc) (h : host) (s : scheme) (k : str) (v : secret) : cc :=
  match f with
  | FNone => c
  | FShared => cc_store c h s k v
  | FSingle => cc_store (cc_store c h s k v) h s [] v
  end.

(* ---------- what goes on the wire ---------- *)
Inductive auth := NoAuth | ABasic (s : secret) | ABearer (s : secret).

Inductive send :=
| SReg (h : host) (a : auth) (fresh : bool)
    (* request to the registry; fresh = credentials obtained by this very request *)
| SDist (forh : host) (realm service : str) (scopes : list str) (basic : option secret)
    (* GET realm?service=..&scope=.. with optional basic auth *)
| SOAuth (forh : host) (realm service : str) (scopes : list str) (grant : secret).
    (* POST realm, grant_type refresh_token / password *)

Inductive answer :=
| AOk                 (* any status other than 401 *)
| A401 (hdr : str)    (* 401 with this Www-Authenticate header *)
| ATok (id : N)       (* token endpoint: 200 with a non-empty token *)
| AFail               (* token endpoint: anything else *)
| AShare (id : N)     (* no request of this call: the cache handed it the token that a concurrent
                         call's in-flight fetch for the same host, scheme and key obtained *)
| AErr                (* no response: transport error or cancelled context *)
| AShareFail.         (* no request of this call: the cache handed it the ERROR of a concurrent call's
                         in-flight fetch for the same host, scheme and key *)

Inductive err := ENoCred | EMissing | EFetch | ERewind | ETransport | ECred | EShared.

Inductive result :=
| RResp (is401 : bool)
| RErr (e : err)
| RBad.                (* script exhausted / ill-typed answer / challenge outside the modelled subset *)

Inductive body := BNone | BRewindable | BOnce | BGetBodyErr.   (* BGetBodyErr: GetBody returns an error *)

Definition event := (send * answer)%type.

Definition rewind_ok (b : body) : bool := match b with BOnce | BGetBodyErr => false | _ => true end.

(* the last send of a request: its answer is the result *)
Definition final_send (s : send) (script : list answer) : list event * result :=
  match script with
  | AOk :: _ => ([(s, AOk)], RResp false)
  | A401 hd :: _ => ([(s, A401 hd)], RResp true)
  | AErr :: _ => ([(s, AErr)], RErr ETransport)
  | _ => ([], RBad)
  end.

(* fetchBasicAuth *)
Definition fetch_basic (cf : config) (h : host) : result + secret :=
  let c := cf_creds cf h in
  if cf_cred_err cf h then inl (RErr ECred)
  else if cred_empty c then inl (RErr ENoCred)
  else if negb (c_user c) || negb (c_pass c) then inl (RErr EMissing)
  else inr (SBasicTok h).

(* fetchBearerToken: the send (if any) and what to do with the answer *)
Inductive fetch_plan :=
| FPDirect (s : secret)         (* AccessToken: no request *)
| FPSend (s : send)
| FPErr (e : err).

Definition fetch_bearer_plan (cf : config) (h : host) (realm service : str) (scopes : list str) : fetch_plan :=
  let c := cf_creds cf h in
  if cf_cred_err cf h then FPErr ECred
  else if c_access c then FPDirect (SAccess h)
  else if cred_empty c || (negb (c_refresh c) && negb (cf_oauth2 cf)) then
    FPSend (SDist h realm service scopes
              (if c_user c || c_pass c then Some (SUserPass h) else None))
  else if c_refresh c then FPSend (SOAuth h realm service scopes (SRefresh h))
  else if c_user c && c_pass c then FPSend (SOAuth h realm service scopes (SUserPass h))
  else FPErr EMissing.

Definition s_realm := b "realm".
Definition s_service := b "service".
Definition s_scope := b "scope".

Record request := mkReq {
  rq_host : host;
  rq_hints_host : list str;     (* WithScopesForHost(host, ...) *)
  rq_hints_global : list str;   (* WithScopes(...) *)
  rq_body : body;
}.

(* Client.Do.  [clean] is CleanScopes (a parameter so that the pre-fix variant can
   be plugged in); [parse] is parseChallenge, a parameter: the theorems hold for
   EVERY total parser (so also for the parts of strconv.Unquote that
   Model/Challenge.v does not model), the runner instantiates it with
   [parse_with]. *)
Definition do_request (clean : list str -> list str) (parse : str -> scheme * params)
           (cf : config) (c : cc) (rq : request)
           (script : list answer) : list event * cc * result :=
  let f := cf_flavour cf in
  let h := rq_host rq in
  let hinted := get_all_scopes clean (rq_hints_host rq) (rq_hints_global rq) in
  (* attempt cached auth token *)
  let '(attempted, a1) :=
    match cache_get_scheme f c h with
    | Some SchBasic =>
      ([], match cache_get_token f c h SchBasic [] with Some t => ABasic t | None => NoAuth end)
    | Some SchBearer =>
      let k := join [c_space] hinted in
      (k, match cache_get_token f c h SchBearer k with Some t => ABearer t | None => NoAuth end)
    | _ => ([], NoAuth)
    end in
  let s1 := SReg h a1 false in
  match script with
  | [] => ([], c, RBad)
  | AOk :: _ => ([(s1, AOk)], c, RResp false)
  | AErr :: _ => ([(s1, AErr)], c, RErr ETransport)
  | A401 hdr :: script1 =>
    let ev1 := (s1, A401 hdr) in
    match parse hdr with
    | (SchUnknown, _) => ([ev1], c, RResp true)
    | (SchBasic, _) =>
      match fetch_basic cf h with
      | inl r => ([ev1], c, r)
      | inr tok =>
        let c' := cache_store f c h SchBasic [] tok in
        if rewind_ok (rq_body rq) then
          let (evs, r) := final_send (SReg h (ABasic tok) true) script1 in
          (ev1 :: evs, c', r)
        else ([ev1], c', RErr ERewind)
      end
    | (SchBearer, ps) =>
      let pscope := get_param s_scope ps in
      let scopes :=
        if is_empty pscope then hinted
        else clean (hinted ++ split_on c_space pscope) in
      let key := join [c_space] scopes in
      (* attempt the cache again if there is a scope change *)
      let second :=
        if str_eqb key attempted then None
        else cache_get_token f c h SchBearer key in
      let continue_ (evs0 : list event) (script2 : list answer) :=
        let realm := get_param s_realm ps in
        let service := get_param s_service ps in
        let finish (evs1 : list event) (tok : secret) (script3 : list answer) :=
          let c' := cache_store f c h SchBearer key tok in
          if rewind_ok (rq_body rq) then
            let (evs, r) := final_send (SReg h (ABearer tok) true) script3 in
            (evs0 ++ evs1 ++ evs, c', r)
          else (evs0 ++ evs1, c', RErr ERewind) in
        match fetch_bearer_plan cf h realm service scopes with
        | FPDirect tok => finish [] tok script2
        | FPErr e => (evs0, c, RErr e)
        | FPSend s =>
          match script2 with
          | ATok id :: script3 => finish [(s, ATok id)] (SIssued h id) script3
          | AShare id :: script3 => finish [] (SIssued h id) script3
          | AShareFail :: _ => (evs0, c, RErr EShared)
          | AFail :: _ => (evs0 ++ [(s, AFail)], c, RErr EFetch)
          | AErr :: _ => (evs0 ++ [(s, AErr)], c, RErr ETransport)
          | _ => (evs0, c, RBad)
          end
        end in
      match second with
      | None => continue_ [ev1] script1
      | Some tok =>
        if rewind_ok (rq_body rq) then
          let s2 := SReg h (ABearer tok) false in
          match script1 with
          | AOk :: _ => ([ev1; (s2, AOk)], c, RResp false)
          | AErr :: _ => ([ev1; (s2, AErr)], c, RErr ETransport)
          | A401 hdr2 :: script2 => continue_ [ev1; (s2, A401 hdr2)] script2
          | _ => ([ev1], c, RBad)
          end
        else ([ev1], c, RErr ERewind)
      end
    end
  | _ => ([], c, RBad)
  end.

(* a history of requests sharing one cache *)
Fixpoint run_history (clean : list str -> list str) (parse : str -> scheme * params) (cf : config) (c : cc)
         (hist : list (request * list answer)) : list (list event * result) * cc :=
  match hist with
  | [] => ([], c)
  | (rq, script) :: hist' =>
    let '(evs, c', r) := do_request clean parse cf c rq script in
    let (rest, c'') := run_history clean parse cf c' hist' in
    ((evs, r) :: rest, c'')
  end.

(* configuration from a finite table (for the runner) *)
Fixpoint lookup_cred (tbl : list (host * cred)) (h : host) : cred :=
  match tbl with
  | [] => mkCred false false false false
  | (h', c) :: tbl' => if h =? h' then c else lookup_cred tbl' h
  end.

(* the parser of the runner: Model/Challenge.v where it judges, otherwise the
   table the case line carries (header -> what the real parseChallenge returned,
   for headers with escapes / non-ASCII bytes in quoted strings) *)
Definition parse_total (h : str) : scheme * params :=
  match parse_challenge h with
  | ChUnjudged => (SchUnknown, [])
  | Ch s p => (s, p)
  end.

Fixpoint parse_lookup (tbl : list (str * (scheme * params))) (h : str) : option (scheme * params) :=
  match tbl with
  | [] => None
  | (h', r) :: tbl' => if str_eqb h h' then Some r else parse_lookup tbl' h
  end.

Definition parse_with (tbl : list (str * (scheme * params))) (h : str) : scheme * params :=
  match parse_challenge h with
  | Ch s p => (s, p)
  | ChUnjudged => match parse_lookup tbl h with Some r => r | None => (SchUnknown, []) end
  end.

Definition err_hosts (l : list host) (h : host) : bool := existsb (N.eqb h) l.

Definition run_model (fl : flavour) (oauth2 : bool) (tbl : list (host * cred)) (errs : list host)
           (ptable : list (str * (scheme * params)))
           (hist : list (request * list answer)) : list (list event * result) :=
  fst (run_history clean_scopes (parse_with ptable) (mkConfig fl oauth2 (lookup_cred tbl) (err_hosts errs)) [] hist).

(* headers of a script that the model's parser does not judge and the table does not cover *)
Definition unjudged_header (ptable : list (str * (scheme * params))) (a : answer) : bool :=
  match a with
  | A401 h => match parse_challenge h with
              | ChUnjudged => match parse_lookup ptable h with Some _ => false | None => true end
              | _ => false
              end
  | _ => false
  end.
