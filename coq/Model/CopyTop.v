(* CopyTop -- the sequential prologue of oras.Copy around the copyGraph transition
   system of CopySpec: effective concurrency, effective destination reference,
   resolveRoot + MapRoot (WithTargetPlatform is one particular MapRoot).
   No proofs in this file. *)
From Oras Require Import Base.Prelude Model.CopySpec.

(* copyGraph: "if opts.Concurrency <= 0 { opts.Concurrency = defaultConcurrency }";
   dflt is the constant regenerated from copy.go (Generated/GC01.v, GC04.v). *)
Definition eff_K (dflt opt : Z) : nat := Z.to_nat (if (opt <=? 0)%Z then dflt else opt).

(* Copy: "if dstRef == "" { dstRef = srcRef }" *)
Definition eff_ref (srcRef dstRef : str) : str :=
  match dstRef with [] => srcRef | _ => dstRef end.

(* resolveRoot then the optional MapRoot; None = Copy returns an error before copyGraph starts *)
Definition prologue (resolved : option node) (maproot : option (node -> option node)) : option node :=
  match resolved with
  | None => None
  | Some r => match maproot with None => Some r | Some f => f r end
  end.

(* the destination's reference map after the call: the call writes only the effective reference *)
Definition tags_after (tags0 : str -> option node) (ref : str) (st : state) : str -> option node :=
  fun r => if str_eqb r ref then match tag st with Some n => Some n | None => tags0 r end else tags0 r.

(* configuration of the copyGraph run that Copy starts *)
Definition copy_cfg (dflt opt : Z) (refpusher mount : bool) (root : node) (cached0 : list node) : cfg :=
  mkCfg (eff_K dflt opt) (if refpusher then MRefPush else MTagger) root mount true cached0 [].

(* internal/platform: Match and SelectManifest on a manifest list (WithTargetPlatform).
   Strings are abstracted to numbers (0 = the empty string); a platform is
   architecture, OS, OS version, variant, OS features. *)
Record plat := mkPlat { p_arch : nat; p_os : nat; p_osver : nat; p_variant : nat; p_feats : list nat }.

Definition plat_match (got : option plat) (want : plat) : bool :=
  match got with
  | None => false
  | Some gp =>
      Nat.eqb (p_arch gp) (p_arch want) && Nat.eqb (p_os gp) (p_os want) &&
      (Nat.eqb (p_osver want) 0 || Nat.eqb (p_osver gp) (p_osver want)) &&
      (Nat.eqb (p_variant want) 0 || Nat.eqb (p_variant gp) (p_variant want)) &&
      forallb (fun f => existsb (Nat.eqb f) (p_feats gp)) (p_feats want)
  end.

(* the first entry of the index whose platform matches; None = ErrNotFound *)
Fixpoint select_manifest (entries : list (node * option plat)) (want : plat) : option node :=
  match entries with
  | [] => None
  | (n, p) :: r => if plat_match p want then Some n else select_manifest r want
  end.

(* Source reads of Copy's prologue that do NOT end up in the proxy cache (so copyGraph reads the
   content again): resolveRoot through a ReferenceFetcher when the root is not a manifest (the
   reader is closed unread and the cache push fails), and WithTargetPlatform on an image-manifest
   root (SelectManifest reads the manifest and its config blob with StopCaching set). *)
Definition prologue_reads (reffetch_uncached_root : bool) (root0 : node)
           (plat_on_image : option (node * node)) : list node :=
  (if reffetch_uncached_root then [root0] else []) ++
  match plat_on_image with Some (m, cfgblob) => [m; cfgblob] | None => [] end.

(* The root that copyGraph starts from, as Copy computes it: resolve the source reference, apply the
   user's MapRoot if any, then WithTargetPlatform's selection if a platform was given (on a manifest
   list: select_manifest over its entries; [entries_of] gives a manifest list's entries, None for a
   node on which platform selection is not modelled).  None = Copy returns an error before copying. *)
Definition copy_root (resolved : option node) (user_map : option (node -> option node))
           (platform : option plat) (entries_of : node -> option (list (node * option plat))) : option node :=
  let sel := fun r => match platform with
                      | None => Some r
                      | Some want => match entries_of r with
                                     | Some es => select_manifest es want
                                     | None => None
                                     end
                      end in
  prologue resolved
           (Some (fun r => match user_map with
                           | None => sel r
                           | Some f => match f r with Some r' => sel r' | None => None end
                           end)).

(* What Copy's prologue reads from the source, and what it leaves in the proxy cache.
   resolveRoot through a ReferenceFetcher opens the resolved root once; the content stays in the cache
   iff it was read to the end: a manifest (content.Successors decodes it) or an empty blob.
   WithTargetPlatform (platform.SelectManifest, with caching stopped): on a manifest list it reads the
   list; on an image manifest it reads the manifest and then its config blob -- the latter only when
   the config has the image-config media type (otherwise ErrUnsupported before the read); on any other
   node it fails without reading. *)
Inductive plat_target :=
| PTNone                          (* no target platform *)
| PTList                          (* the mapped root is a manifest list *)
| PTImage (cfgblob : node) (cfg_type_ok : bool)   (* the mapped root is an image manifest *)
| PTOther.                        (* neither: unsupported *)

Definition cache_after_resolve (reffetch root0_is_manifest root0_is_empty : bool) (root0 : node) : list node :=
  if reffetch && (root0_is_manifest || root0_is_empty) then [root0] else [].

(* platform selection reads through proxy.FetchCached: what resolveRoot left in the cache is not read
   from the source again *)
Definition prologue_fetches (reffetch : bool) (root0 mapped : node) (pt : plat_target)
           (cache : list node) : list node :=
  (if reffetch then [root0] else []) ++
  filter (fun x => negb (memb x cache))
    match pt with
    | PTNone | PTOther => []
    | PTList => [mapped]
    | PTImage cfgblob ok => if ok then [mapped; cfgblob] else [mapped]
    end.

(* platform.SelectManifest as a whole: what it sees of the (mapped) root -- a manifest list with its
   entries, an image manifest with its config (has the image-config media type? the platform decoded
   from the config blob), or anything else -- and what it answers *)
Inductive pview :=
| PVList (entries : list (node * option plat))
| PVImage (cfg_type_ok : bool) (cfg_platform : option plat)
| PVOther.

Definition select_target (r : node) (v : pview) (want : plat) : option node :=
  match v with
  | PVList es => select_manifest es want
  | PVImage ok p => if ok && plat_match p want then Some r else None
  | PVOther => None
  end.
