(* The URL builders of registry/remote/url.go and Reference.Host, assembled from the string
   literals the translator reads off the Go functions on every run (Generated/GC20.v, kind
   funcstrlits) with a model of fmt.Sprintf restricted to the verb percent-s and of strings.Join.
   The correspondence check runs THESE definitions against the implementation; Proofs/RefURLGen.v
   proves them equal to the closed forms (the url_ functions of Model/Reference.v) the theorems are stated about,
   so an edit to a literal in the Go source breaks a named lemma (layer P). *)
From Oras Require Import Base.Prelude Base.Regex Generated.GC20 Model.NetURL Model.Reference Model.RefOps.

(* fmt.Sprintf(format, args...) for formats whose only verb is percent-s *)
Fixpoint sprintf_s (fmt : str) (args : list str) : str :=
  match fmt with
  | [] => []
  | c :: rest =>
      match rest with
      | 115 :: rest' =>
          if c =? 37 then
            match args with
            | a :: args' => a ++ sprintf_s rest' args'
            | [] => b "%!s(MISSING)" ++ sprintf_s rest' []
            end
          else c :: sprintf_s rest args
      | _ => c :: sprintf_s rest args
      end
  end.

(* strings.Join *)
Fixpoint join_sep (sep : str) (l : list str) : str :=
  match l with
  | [] => []
  | [x] => x
  | x :: r => x ++ sep ++ join_sep sep r
  end.

Definition lit (l : list str) (i : nat) : str := nth i l [].

Definition gen_scheme (plain : bool) : str :=
  if plain then lit buildScheme_lits 0 else lit buildScheme_lits 1.
Definition gen_host (reg : str) : str :=
  if str_eqb reg (lit Host_lits 0) then lit Host_lits 1 else reg.
Definition gen_url_base (plain : bool) (r : reference) : str :=
  sprintf_s (lit buildRegistryBaseURL_lits 0) [gen_scheme plain; gen_host (r_registry r)].
Definition gen_url_catalog (plain : bool) (r : reference) : str :=
  sprintf_s (lit buildRegistryCatalogURL_lits 0) [gen_scheme plain; gen_host (r_registry r)].
Definition gen_url_repo_base (plain : bool) (r : reference) : str :=
  sprintf_s (lit buildRepositoryBaseURL_lits 0) [gen_scheme plain; gen_host (r_registry r); r_repository r].
Definition gen_url_taglist (plain : bool) (r : reference) : str :=
  gen_url_repo_base plain r ++ lit buildRepositoryTagListURL_lits 0.
Definition gen_url_manifest (plain : bool) (r : reference) : str :=
  join_sep (lit buildRepositoryManifestURL_lits 1)
    [gen_url_repo_base plain r; lit buildRepositoryManifestURL_lits 0; r_reference r].
Definition gen_url_blob (plain : bool) (r : reference) : str :=
  join_sep (lit buildRepositoryBlobURL_lits 1)
    [gen_url_repo_base plain r; lit buildRepositoryBlobURL_lits 0; r_reference r].
Definition gen_url_upload (plain : bool) (r : reference) : str :=
  gen_url_repo_base plain r ++ lit buildRepositoryBlobUploadURL_lits 0.
Definition gen_url_mount (plain : bool) (r : reference) (d from : str) : str :=
  sprintf_s (lit buildRepositoryBlobMountURL_lits 0) [gen_url_upload plain r; d; from].
Definition gen_url_referrers_at (plain : bool) (r : reference) (at_ : str) : str :=
  let query := match at_ with
               | [] => lit buildReferrersURL_lits 0
               | _ => lit buildReferrersURL_lits 2 ++ encode_params [(lit buildReferrersURL_lits 1, at_)]
               end in
  sprintf_s (lit buildReferrersURL_lits 3) [gen_url_repo_base plain r; r_reference r; query].
Definition gen_url_referrers (plain : bool) (r : reference) : str := gen_url_referrers_at plain r [].
