(* UTF-8 as Go sees it (unicode/utf8): validity of a byte string and the lossy
   reading encoding/json applies to strings -- every byte that does not start a
   well-formed encoding becomes U+FFFD.  A lone UTF-16 surrogate written as a
   JSON escape (\ud800) is carried by the harness's own JSON reader as the
   3-byte generalized form ED A0..BF 80..BF and becomes ONE U+FFFD, as in
   encoding/json.  Executable model only. *)
From Oras Require Import Base.Prelude.

Definition in_range (lo hi c : N) : bool := (lo <=? c) && (c <=? hi).
Definition cont (c : N) : bool := in_range 128 191 c.

(* length of the well-formed encoding at the head of [s] (utf8.DecodeRune <> RuneError) *)
Definition rune_len (s : str) : option nat :=
  match s with
  | [] => None
  | b0 :: r =>
      if b0 <? 128 then Some 1%nat
      else if in_range 194 223 b0 then
        match r with c1 :: _ => if cont c1 then Some 2%nat else None | _ => None end
      else if in_range 224 239 b0 then
        match r with
        | c1 :: c2 :: _ =>
            let lo := if b0 =? 224 then 160 else 128 in
            let hi := if b0 =? 237 then 159 else 191 in
            if in_range lo hi c1 && cont c2 then Some 3%nat else None
        | _ => None
        end
      else if in_range 240 244 b0 then
        match r with
        | c1 :: c2 :: c3 :: _ =>
            let lo := if b0 =? 240 then 144 else 128 in
            let hi := if b0 =? 244 then 143 else 191 in
            if in_range lo hi c1 && cont c2 && cont c3 then Some 4%nat else None
        | _ => None
        end
      else None
  end.

(* a generalized-UTF-8 surrogate: ED A0..BF 80..BF *)
Definition surrogate3 (s : str) : bool :=
  match s with
  | 237 :: c1 :: c2 :: _ => in_range 160 191 c1 && cont c2
  | _ => false
  end.

Fixpoint valid_fuel (n : nat) (s : str) : bool :=
  match s with
  | [] => true
  | _ :: _ =>
      match n with
      | O => false
      | S n' => match rune_len s with
                | Some k => valid_fuel n' (skipn k s)
                | None => false
                end
      end
  end.

(* utf8.ValidString *)
Definition valid_utf8 (s : str) : bool := valid_fuel (length s) s.

Definition replacement : str := [239; 191; 189].   (* U+FFFD *)

Fixpoint sanitize_fuel (n : nat) (s : str) : str :=
  match s with
  | [] => []
  | c :: r =>
      match n with
      | O => []
      | S n' => match rune_len s with
                | Some k => firstn k s ++ sanitize_fuel n' (skipn k s)
                | None => if surrogate3 s then replacement ++ sanitize_fuel n' (skipn 3 s)
                          else replacement ++ sanitize_fuel n' r
                end
      end
  end.

(* the Go string encoding/json produces for a JSON string *)
Definition sanitize (s : str) : str := sanitize_fuel (length s) s.
