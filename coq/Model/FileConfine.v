(* C11 — executable model of the oras-go file store's write paths
   (content/file/file.go: push, resolveWritePath, pushFile, pushDir;
    content/file/utils.go: extractTarDirectory, resolveRelToBase, ensureLinkPath, writeFile)
   over a small POSIX tree file system with symbolic links, hard links (inodes)
   and kernel path resolution.  No proofs in this file.

   Paths given to the kernel are (absolute?, component list); physical locations are
   lists of names from the model root (= the harness's chroot root). *)
From Oras Require Import Base.Prelude Generated.GC11.
Open Scope nat_scope.

Definition name := str.
Definition path := list name.

Inductive comp := Up | Nm (s : name).

(* ---------- strings -> components (what the kernel / filepath see) ---------- *)

Fixpoint split_slash (s : str) (cur : str) : list str :=
  match s with
  | [] => [rev cur]
  | c :: s' => if (c =? 47)%N then rev cur :: split_slash s' [] else split_slash s' (c :: cur)
  end.

Definition is_abs (s : str) : bool :=
  match s with c :: _ => (c =? 47)%N | [] => false end.

Definition seg_comp (seg : str) : list comp :=
  match seg with
  | [] => []
  | [46%N] => []
  | [46%N; 46%N] => [Up]
  | _ => [Nm seg]
  end.

Definition comps_of (s : str) : list comp := flat_map seg_comp (split_slash s []).

Definition Ups (m : nat) : list comp := repeat Up m.
Definition Nms (ns : list name) : list comp := map Nm ns.

(* filepath.Clean on components: (number of leading "..", names).  Rooted paths drop
   ".." at the root. *)
Fixpoint lc (abs : bool) (cs : list comp) (m : nat) (st : list name) : nat * list name :=
  match cs with
  | [] => (m, rev st)
  | Nm s :: r => lc abs r m (s :: st)
  | Up :: r =>
      match st with
      | _ :: st' => lc abs r m st'
      | [] => lc abs r (if abs then m else S m) []
      end
  end.

Definition clean_abs (cs : list comp) : list name := snd (lc true cs 0 []).
Definition clean_rel (cs : list comp) : nat * list name := lc false cs 0 [].

Fixpoint path_eqb (p q : path) : bool :=
  match p, q with
  | [], [] => true
  | a :: p', c :: q' => str_eqb a c && path_eqb p' q'
  | _, _ => false
  end.

(* strip_prefix a l = Some r  iff  l = a ++ r *)
Fixpoint strip_prefix (a l : path) : option path :=
  match a, l with
  | [], _ => Some l
  | x :: a', y :: l' => if str_eqb x y then strip_prefix a' l' else None
  | _ :: _, [] => None
  end.

Definition inside (wd p : path) : bool :=
  match strip_prefix wd p with Some _ => true | None => false end.

(* filepath.Rel(base, target) followed by the "not .. / ../x" test of
   resolveRelToBase / resolveWritePath, on cleaned operands: the result is a pure
   name list exactly when the cleaned base is a prefix of the cleaned target. *)
Definition rel_under (babs : bool) (bcl : nat * list name) (tabs : bool) (tcl : nat * list name)
  : option (list name) :=
  if Bool.eqb babs tabs && Nat.eqb (fst bcl) (fst tcl) then strip_prefix (snd bcl) (snd tcl) else None.

Definition clean_str (s : str) : nat * list name :=
  if is_abs s then (0, clean_abs (comps_of s)) else clean_rel (comps_of s).

(* rendering of a cleaned path, as filepath.Clean would print it *)
Fixpoint join_names (ns : list name) : str :=
  match ns with
  | [] => []
  | [n] => n
  | n :: r => n ++ [47%N] ++ join_names r
  end.
Definition render_clean (abs : bool) (c : nat * list name) : str :=
  if abs then 47%N :: join_names (snd c)
  else match repeat [46%N; 46%N] (fst c) ++ snd c with
       | [] => [46%N]
       | l => join_names l
       end.

(* ---------- the file system ---------- *)

Inductive node :=
| NDir
| NFile (i : nat)                                   (* inode number; content in the table *)
| NSym (disp : str) (abs : bool) (cs : list comp).  (* readlink text, and how the kernel walks it *)

(* cont: per inode, content tag * 1024 + permission bits; dmode: permission bits of
   directories by location (latest entry wins, default 0755) *)
(* fstamp / dstamp: the time last set explicitly (utimes) on a file (by inode) / directory (by
   location); 0 = never.  Implicit updates of times by writes are not modelled. *)
Record fsys := mkFS { ents : list (path * node); cont : list (nat * N); nexti : nat;
                      dmode : list (path * N); fstamp : list (nat * N); dstamp : list (path * N);
                      taint : list nat }.
(* taint: ghost field, never read or changed by any operation - the inodes that files below the
   working directory share with files outside when the store is opened (pre-populated hard links);
   only the theorems speak about it *)

Fixpoint lookup_ents (l : list (path * node)) (p : path) : option node :=
  match l with
  | [] => None
  | (q, n) :: r => if path_eqb q p then Some n else lookup_ents r p
  end.
Definition lookup (f : fsys) (p : path) : option node := lookup_ents (ents f) p.

Fixpoint lookup_cont (l : list (nat * N)) (i : nat) : N :=
  match l with
  | [] => 0%N
  | (j, c) :: r => if Nat.eqb j i then c else lookup_cont r i
  end.
Definition content (f : fsys) (i : nat) : N := lookup_cont (cont f) i.
Definition file_stamp (f : fsys) (i : nat) : N := lookup_cont (fstamp f) i.

Fixpoint lookup_dmode (l : list (path * N)) (p : path) : N :=
  match l with
  | [] => 493%N
  | (q, m) :: r => if path_eqb q p then m else lookup_dmode r p
  end.
Definition dir_mode (f : fsys) (p : path) : N := lookup_dmode (dmode f) p.

Fixpoint lookup_dstamp (l : list (path * N)) (p : path) : N :=
  match l with
  | [] => 0%N
  | (q, t) :: r => if path_eqb q p then t else lookup_dstamp r p
  end.
Definition dir_stamp (f : fsys) (p : path) : N := lookup_dstamp (dstamp f) p.

Definition enc (tag mode : N) : N := (tag * 1024 + mode)%N.

Definition del_ents (l : list (path * node)) (p : path) : list (path * node) :=
  filter (fun e => negb (path_eqb (fst e) p)) l.

Definition set_ent (p : path) (n : node) (f : fsys) : fsys :=
  mkFS ((p, n) :: del_ents (ents f) p) (cont f) (nexti f) (dmode f) (fstamp f) (dstamp f) (taint f).
Definition del_ent (p : path) (f : fsys) : fsys :=
  mkFS (del_ents (ents f) p) (cont f) (nexti f) (dmode f) (fstamp f) (dstamp f) (taint f).
Definition set_cont (i : nat) (c : N) (f : fsys) : fsys :=
  mkFS (ents f) ((i, c) :: cont f) (nexti f) (dmode f) (fstamp f) (dstamp f) (taint f).
Definition new_file (p : path) (c : N) (f : fsys) : fsys :=
  mkFS ((p, NFile (nexti f)) :: del_ents (ents f) p) ((nexti f, c) :: cont f) (S (nexti f)) (dmode f)
       (fstamp f) (dstamp f) (taint f).
Definition set_dmode (p : path) (m : N) (f : fsys) : fsys :=
  mkFS (ents f) (cont f) (nexti f) ((p, m) :: dmode f) (fstamp f) (dstamp f) (taint f).
Definition set_fstamp (i : nat) (t : N) (f : fsys) : fsys :=
  mkFS (ents f) (cont f) (nexti f) (dmode f) ((i, t) :: fstamp f) (dstamp f) (taint f).
Definition set_dstamp (p : path) (t : N) (f : fsys) : fsys :=
  mkFS (ents f) (cont f) (nexti f) (dmode f) (fstamp f) ((p, t) :: dstamp f) (taint f).
Definition new_dir (p : path) (m : N) (f : fsys) : fsys :=
  set_dmode p (N.land m 493) (set_ent p NDir f).   (* umask 022 *)

Definition has_child (f : fsys) (p : path) : bool :=
  existsb (fun e => match strip_prefix p (fst e) with Some (_ :: _) => true | _ => false end) (ents f).

(* what an observer sees at a location *)
Inductive view := VNone | VDir (m t : N) | VFile (c t : N) | VSym (d : str).
Definition view_at (f : fsys) (p : path) : view :=
  match lookup f p with
  | None => VNone
  | Some NDir => VDir (dir_mode f p) (dir_stamp f p)
  | Some (NFile i) => VFile (content f i) (file_stamp f i)   (* content tag + permission bits, time set *)
  | Some (NSym d _ _) => VSym d
  end.

(* ---------- kernel path resolution ---------- *)

Inductive wres :=
| WDir (p : path)
| WFile (p : path) (i : nat)
| WSym (p : path) (d : str) (a : bool) (cs : list comp)
| WNoEnt (p : path)          (* parent directory exists at the physical location, last name missing *)
| WErrNoEnt                  (* ENOENT in the middle *)
| WErr.                      (* ENOTDIR, ELOOP *)

Fixpoint walk (fuel : nat) (f : fsys) (nl : nat) (cur : path) (rem : list comp) (follow : bool) : wres :=
  match fuel with
  | O => WErr
  | S fu =>
    match rem with
    | [] => WDir cur
    | Up :: r => walk fu f nl (removelast cur) r follow
    | Nm c :: r =>
      let p := cur ++ [c] in
      match lookup f p with
      | None => match r with [] => WNoEnt p | _ => WErrNoEnt end
      | Some NDir => walk fu f nl p r follow
      | Some (NFile i) => match r with [] => WFile p i | _ => WErr end
      | Some (NSym d a cs) =>
        match r, follow with
        | [], false => WSym p d a cs
        | _, _ =>
          match nl with
          | O => WErr
          | S nl' => walk fu f nl' (if a then [] else cur) (cs ++ r) follow
          end
        end
      end
    end
  end.

Definition FUEL : nat := 3000.
Definition NLINK : nat := 40.

(* a path string handed to a system call: absolute, or relative to the process cwd *)
Definition kwalk (f : fsys) (cwd : path) (abs : bool) (cs : list comp) (follow : bool) : wres :=
  walk FUEL f NLINK (if abs then [] else cwd) cs follow.
(* a cleaned absolute path *)
Definition awalk (f : fsys) (ns : list name) (follow : bool) : wres :=
  walk FUEL f NLINK [] (Nms ns) follow.

(* ---------- system calls used by the store ---------- *)

(* os.MkdirAll on an absolute path with raw components *)
Fixpoint mkdir_prefixes (f : fsys) (done todo : list comp) (m : N) : option fsys :=
  match todo with
  | [] => Some f
  | c :: r =>
    let pre := done ++ [c] in
    match walk FUEL f NLINK [] pre true with
    | WDir _ => mkdir_prefixes f pre r m
    | WFile _ _ => None
    | _ =>
      match walk FUEL f NLINK [] pre false with
      | WNoEnt p => mkdir_prefixes (new_dir p m f) pre r m
      | _ => None
      end
    end
  end.
Definition mkdir_all (f : fsys) (cs : list comp) (m : N) : option fsys := mkdir_prefixes f [] cs m.

(* open(O_WRONLY|O_CREAT|O_TRUNC) + write, absolute path with raw components *)
Definition write_at (f : fsys) (cs : list comp) (c m : N) : option fsys :=
  match walk FUEL f NLINK [] cs true with
  | WFile _ i => Some (set_cont i (enc c (content f i mod 1024)) f)   (* mode of an existing file stays *)
  | WNoEnt p => Some (new_file p (enc c (N.land m 493)) f)
  | _ => None
  end.

(* os.Chmod (follows links) *)
Definition chmod_at (f : fsys) (ns : list name) (m : N) : option fsys :=
  match awalk f ns true with
  | WFile _ i => Some (set_cont i (enc (content f i / 1024) m) f)
  | WDir p => Some (set_dmode p m f)
  | _ => None
  end.

(* os.Chtimes (follows links; errors are ignored by the caller; a zero time changes nothing) *)
Definition chtimes_at (f : fsys) (ns : list name) (t : N) : fsys :=
  match t with
  | 0%N => f
  | _ =>
    match awalk f ns true with
    | WFile _ i => set_fstamp i t f
    | WDir p => set_dstamp p t f
    | _ => f
    end
  end.

(* os.Remove *)
Definition remove_at (f : fsys) (ns : list name) : option fsys :=
  match awalk f ns false with
  | WFile p _ => Some (del_ent p f)
  | WSym p _ _ _ => Some (del_ent p f)
  | WDir p => match p with [] => None | _ => if has_child f p then None else Some (del_ent p f) end
  | _ => None
  end.

(* ---------- configuration: which repairs are applied ---------- *)

Record cfg := mkCfg {
  fixH : bool;   (* hard-link target resolved against the link's directory (as validated), not the process cwd *)
  fixA : bool;   (* resolveWritePath returns the cleaned path it validated *)
  fixR : bool;   (* link entry that would replace the unpack directory itself refused *)
  fixN : bool;   (* ensureDirNoSymlink: directories are created element by element, existing links refused *)
  fixW : bool;   (* removeSymlink: an existing symbolic link is replaced, not written through *)
  fixT : bool;   (* Chtimes only when the extracted path is not a symbolic link *)
  fixK : bool    (* no memory of directories already checked: every write walks its path again
                    (false = the seeded change C11-r3m2: a per-store cache in ensureWriteDir) *)
}.
Definition cfg_fixed := mkCfg true true true true true true true.
Definition cfg_prefix := mkCfg false false false false false false true.

(* os.Lstat: the kernel walks the path (links among the parents are followed - the working
   directory may be reached through one), the last element is not followed *)
Inductive lstat_res := LDir (q : path) | LFile | LSym | LNone | LErr.
Definition klstat (f : fsys) (p : list name) : lstat_res :=
  match awalk f p false with
  | WDir q => LDir q
  | WFile _ _ => LFile
  | WSym _ _ _ _ => LSym
  | WNoEnt _ => LNone
  | WErrNoEnt => LNone
  | WErr => LErr
  end.

Definition touch (g : cfg) (f : fsys) (fp : list name) (t : N) : fsys :=
  if fixT g then
    match klstat f fp with
    | LDir _ => chtimes_at f fp t
    | LFile => chtimes_at f fp t
    | _ => f       (* a link, or Lstat failed: no Chtimes *)
    end
  else chtimes_at f fp t.

(* ensureDirNoSymlink(base, target): Lstat each element below [cur]; missing ones are created
   with os.Mkdir, links and files are refused *)
Fixpoint mkdir_real (f : fsys) (cur : path) (qs : list name) (m : N) : option fsys :=
  match qs with
  | [] => Some f
  | c :: r =>
    match klstat f (cur ++ [c]) with
    | LDir _ => mkdir_real f (cur ++ [c]) r m
    | LNone =>
      match awalk f (cur ++ [c]) false with
      | WNoEnt p => mkdir_real (new_dir p m f) (cur ++ [c]) r m
      | _ => None
      end
    | _ => None
    end
  end.

(* removeSymlink(path): Lstat, os.Remove when it is a link *)
Definition unlink_if_symlink (f : fsys) (fp : list name) : option fsys :=
  match klstat f fp with
  | LSym => remove_at f fp
  | _ => Some f
  end.

(* ---------- content/file/utils.go ---------- *)

(* the Lstat loop of resolveRelToBase over the proper parents of the relative path [ns]
   below the (cleaned, absolute) base [dp]; true = no error *)
Fixpoint descend_ok (f : fsys) (cur : path) (qs : list name) : bool :=
  match qs with
  | [] => true
  | c :: r =>
    match lookup f (cur ++ [c]) with
    | None => true
    | Some NDir => descend_ok f (cur ++ [c]) r
    | Some (NFile _) => true   (* Lstat below a regular file: ENOTDIR, "cannot exist" like ENOENT *)
    | Some (NSym _ _ _) => false
    end
  end.

Definition parents_ok (f : fsys) (dp : list name) (ns : list name) : bool :=
  match removelast ns with
  | [] => true
  | qs =>
    match awalk f dp true with
    | WDir cur => descend_ok f cur qs
    | WNoEnt _ => true
    | WErrNoEnt => true
    | _ => false
    end
  end.

(* resolveRelToBase(dirPath, dirName, target) -> relative name list.
   entry_rel is its lexical part (filepath.Rel + the ".." test). *)
Definition entry_rel (dp : list name) (dirName : str) (target : str) : option (list name) :=
  if is_abs target then rel_under true (0, dp) true (clean_str target)
  else rel_under (is_abs dirName) (clean_str dirName) false (clean_str target).

Definition resolve_rel (f : fsys) (dp : list name) (dirName : str) (target : str) : option (list name) :=
  match entry_rel dp dirName target with
  | None => None
  | Some ns => if parents_ok f dp ns then Some ns else None
  end.

(* ensureLinkPath(dirPath, dirName, filePath, target): the cleaned absolute path of the target *)
Definition link_abs_path (fp : list name) (target : str) : list name :=
  if is_abs target then clean_abs (comps_of target)
  else clean_abs (Nms (removelast fp) ++ comps_of target).

Definition ensure_link (f : fsys) (dp fp : list name) (target : str) : option (list name) :=
  let pn := link_abs_path fp target in
  match strip_prefix dp pn with
  | None => None
  | Some ns => if parents_ok f dp ns then Some pn else None
  end.

Inductive entry :=
| EReg (nm : str) (c : N) (m : N)
| EDir (nm : str) (m : N)
| EHard (nm tgt : str)
| ESym (nm tgt : str)
| EOther (nm : str).

Definition entry_name (e : entry) : str :=
  match e with EReg n _ _ => n | EDir n _ => n | EHard n _ => n | ESym n _ => n | EOther n => n end.

(* links are created with the raw target of the archive *)
Definition sym_node (tgt : str) : node := NSym tgt (is_abs tgt) (comps_of tgt).

Definition do_symlink (f : fsys) (fp : list name) (n : node) : option fsys :=
  match awalk f fp false with
  | WNoEnt q => Some (set_ent q n f)
  | WErrNoEnt => None
  | WErr => None
  | _ =>  (* EEXIST: remove and retry *)
    match remove_at f fp with
    | None => None
    | Some f1 =>
      match awalk f1 fp false with
      | WNoEnt q => Some (set_ent q n f1)
      | _ => None
      end
    end
  end.

Definition do_link (g : cfg) (f : fsys) (cwd : path) (fp pn : list name) (tgt : str) : option fsys :=
  let old := if fixH g then awalk f pn false
             else kwalk f cwd (is_abs tgt) (comps_of tgt) false in
  match old with
  | WFile _ i =>
    match awalk f fp false with WNoEnt q => Some (set_ent q (NFile i) f) | _ => None end
  | WSym _ d a cs =>   (* link(2) does not follow: the same link under a second name *)
    match awalk f fp false with WNoEnt q => Some (set_ent q (NSym d a cs) f) | _ => None end
  | _ => None
  end.

Definition chmod_if (pres : bool) (r : option fsys) (fp : list name) (m : N) : option fsys :=
  match r with
  | Some f1 => if pres then chmod_at f1 fp m else Some f1
  | None => None
  end.

Definition extract_entry_core (g : cfg) (pres : bool) (cwd : path) (dp : list name) (dirName : str) (f : fsys) (e : entry)
  : option fsys :=
  match resolve_rel f dp dirName (entry_name e) with
  | None => None
  | Some rel =>
    let fp := dp ++ rel in
    let self := match rel with [] => fixR g | _ => false end in
    match e with
    | EReg _ c m =>
      if self then None else
      match (if fixW g then unlink_if_symlink f fp else Some f) with
      | None => None
      | Some f0 => chmod_if pres (write_at f0 (Nms fp) c m) fp m
      end
    | EDir _ m =>   (* created writable for the owner; the recorded mode is applied after the last entry *)
      if fixN g then mkdir_real f dp rel (N.lor m c11_unpack_dir_or) else mkdir_all f (Nms fp) (N.lor m c11_unpack_dir_or)
    | EHard _ tgt =>
      if self then None else
      match ensure_link f dp fp tgt with
      | None => None
      | Some pn => do_link g f cwd fp pn tgt
      end
    | ESym _ tgt =>
      if self then None else
      match ensure_link f dp fp tgt with
      | None => None
      | Some _ => match tgt with [] => None | _ => do_symlink f fp (sym_node tgt) end
      end
    | EOther _ => Some f
    end
  end.

(* one archive entry with header time [t]: the content, then Chtimes (not for skipped types) *)
Definition extract_entry (g : cfg) (pres : bool) (cwd : path) (dp : list name) (dirName : str) (f : fsys)
  (e : entry) (t : N) : option fsys :=
  match extract_entry_core g pres cwd dp dirName f e with
  | None => None
  | Some f1 =>
    match e, entry_rel dp dirName (entry_name e) with
    | EOther _, _ => Some f1
    | _, Some rel => Some (touch g f1 (dp ++ rel) t)
    | _, None => Some f1
    end
  end.

(* the directory entries of the archive, most recent first: location and recorded mode *)
Definition dir_record (dp : list name) (dirName : str) (e : entry) : option (path * N) :=
  match e with
  | EDir nm m => match entry_rel dp dirName nm with Some rel => Some (dp ++ rel, m) | None => None end
  | _ => None
  end.

(* restoreDirModes after the last entry of a successful extraction: per path the last entry
   wins; Lstat - a path that is no longer a directory is skipped; with PreservePermissions the
   recorded mode exactly, else the creation mode narrowed (never widened); os.Chmod.
   (The order of the paths does not matter for the result.) *)
Fixpoint restore_dirs (pres : bool) (f : fsys) (dirs : list (path * N)) (seen : list path) : option fsys :=
  match dirs with
  | [] => Some f
  | (p, m) :: r =>
    if existsb (path_eqb p) seen then restore_dirs pres f r seen
    else
      match klstat f p with
      | LDir q =>
        let want := if pres then m else N.land (dir_mode f q) m in
        if negb pres && (want =? dir_mode f q)%N then restore_dirs pres f r (p :: seen)
        else match chmod_at f p want with
             | Some f' => restore_dirs pres f' r (p :: seen)
             | None => None
             end
      | LNone => None
      | LErr => None
      | _ => restore_dirs pres f r (p :: seen)
      end
  end.

(* extraction stops at the first error; effects of earlier entries stay (and the directories
   keep their creation mode); after the last entry the directory modes are restored *)
Fixpoint extract (g : cfg) (pres : bool) (cwd : path) (dp : list name) (dirName : str) (f : fsys) (es : list entry)
  (ts : list N) (dirs : list (path * N)) (trunc : bool) : fsys * bool :=
  match es with
  | [] =>
    if trunc then (f, false)   (* the tar stream breaks off here: error, directory modes not restored *)
    else
    match restore_dirs pres f dirs [] with
    | Some f' => (f', true)
    | None => (f, false)
    end
  | e :: r =>
    match extract_entry g pres cwd dp dirName f e (hd 0%N ts) with
    | None => (f, false)
    | Some f' =>
      extract g pres cwd dp dirName f' r (tl ts)
              (match dir_record dp dirName e with Some d => d :: dirs | None => dirs end) trunc
    end
  end.

(* ---------- content/file/file.go ---------- *)

Inductive pushop :=
| PBlob (title : str) (c : N)
| PDir (title : str) (ts : list N) (es : list entry)    (* ts: header times of the entries *)
| PManifest (layers : list (str * N))
| PDirF (how : N) (title : str) (ts : list N) (es : list entry).
  (* an archive that fails: how = 1 the gzip blob fails verification (nothing is unpacked),
     2 the tar stream breaks off after the entries, 3 the digest of the uncompressed tar does not
     match (everything is unpacked, then the push fails) *)   (* unnamed image manifest: titles and content tags of its layers *)

Definition push_title (o : pushop) : str :=
  match o with PBlob t _ => t | PDir t _ _ => t | PManifest _ => [] | PDirF _ t _ _ => t end.

(* absPath + resolveWritePath: raw components of the (absolute) target, or None = ErrPathTraversalDisallowed *)
Definition write_path (g : cfg) (wd : path) (title : str) : option (list comp) :=
  let raw := if is_abs title then comps_of title else Nms (clean_abs (Nms wd ++ comps_of title)) in
  let cl := clean_abs raw in
  if inside wd cl then Some (if fixA g then Nms cl else raw) else None.

(* st_names: names pushed successfully (plus the unnamed contents of the fallback storage, under
   names no title can have); st_d2p: digestToPath - content tag -> path of the file it was last
   saved to (consulted by Fetch when a manifest's named layers are restored) *)
Record store := mkStore { st_fs : fsys; st_names : list str; st_d2p : list (N * path) }.

(* the name under which a (hypothetical, fixK = false) cache of checked directories remembers one *)
Definition cache_mark (dir : list name) : str := 0%N :: 3%N :: 47%N :: join_names dir.
Definition cached (g : cfg) (s_names : list str) (dir : list name) : bool :=
  negb (fixK g) && existsb (str_eqb (cache_mark dir)) s_names.
Definition remember (g : cfg) (s_names : list str) (dir : list name) : list str :=
  if fixK g then s_names else cache_mark dir :: s_names.

Definition ensure_write_dir (g : cfg) (wd : path) (f : fsys) (dir : list name) (rawdir : list comp) : option fsys :=
  match (if fixN g then strip_prefix wd dir else None) with
  | Some rel =>   (* ensureDirNoSymlink: os.MkdirAll(base), then element by element *)
    match mkdir_all f (Nms wd) c11_write_dir_perm with
    | Some f0 => mkdir_real f0 wd rel c11_write_dir_perm
    | None => None
    end
  | None => mkdir_all f rawdir c11_ensure_dir_perm
  end.

(* Store.push of a named blob: [w] is the content written, [good] whether it verifies against
   the descriptor (if not, the partially written file is removed again) *)
Definition push_blob (g : cfg) (wd : path) (s : store) (title : str) (w : N) (good : bool) : store * bool :=
  if existsb (str_eqb title) (st_names s) then (s, false) else
  match write_path g wd title with
  | None => (s, false)
  | Some raw =>
    let f := st_fs s in
    let dir := clean_abs (removelast raw) in
    match (if cached g (st_names s) dir then Some f else ensure_write_dir g wd f dir (Nms dir)) with
    | None => (s, false)
    | Some f1 =>
      let names := remember g (st_names s) dir in
      match (if fixW g && negb (path_eqb (clean_abs raw) wd)
             then unlink_if_symlink f1 (clean_abs raw) else Some f1) with
      | None => (mkStore f1 names (st_d2p s), false)
      | Some f1' =>
        match write_at f1' raw w 438 with
        | None => (mkStore f1' names (st_d2p s), false)
        | Some f2 =>
          if good then (mkStore f2 (title :: names) ((w, clean_abs raw) :: st_d2p s), true)
          else match remove_at f2 (clean_abs raw) with
               | Some f3 => (mkStore f3 names (st_d2p s), false)
               | None => (mkStore f2 names (st_d2p s), false)
               end
        end
      end
    end
  end.

Definition push_dir (g : cfg) (pres : bool) (wd cwd : path) (s : store) (title : str) (ts : list N) (es : list entry)
  (how : N) : store * bool :=
  if existsb (str_eqb title) (st_names s) then (s, false) else
  match write_path g wd title with
  | None => (s, false)
  | Some raw =>
    let dp := clean_abs raw in
    match (if cached g (st_names s) dp then Some (st_fs s) else ensure_write_dir g wd (st_fs s) dp raw) with
    | None => (s, false)
    | Some f1 =>
      let names := remember g (st_names s) dp in
      if (how =? 1)%N then (mkStore f1 names (st_d2p s), false) else
      let '(f2, ok0) := extract g pres cwd dp title f1 es ts [] (how =? 2)%N in
      let ok := ok0 && negb (how =? 3)%N in
      (mkStore f2 (if ok then title :: names else names) (st_d2p s), ok)
    end
  end.

(* ---- manifests: Store.Push restores the named layers whose content the store holds ---- *)

Fixpoint lookup_d2p (l : list (N * path)) (c : N) : option path :=
  match l with
  | [] => None
  | (k, p) :: r => if (k =? c)%N then Some p else lookup_d2p r c
  end.

Inductive fetched := FNone | FErr | FSome (c : N).

(* Store.Fetch by digest: the file the content was last saved to, as it is NOW (os.Open follows
   links; reading is not a mutation), else the fallback storage *)
Definition fetch (s : store) (c : N) : fetched :=
  match lookup_d2p (st_d2p s) c with
  | Some p =>
    match awalk (st_fs s) p true with
    | WFile _ i => FSome (content (st_fs s) i / 1024)
    | WNoEnt _ => FNone
    | WErrNoEnt => FNone
    | _ => FErr
    end
  | None => if existsb (str_eqb [0%N; c]) (st_names s) then FSome c else FNone
  end.

(* the name under which an unnamed manifest sits in the fallback storage *)
Fixpoint manifest_marker (layers : list (str * N)) : str :=
  match layers with
  | [] => [0%N; 1%N]
  | (t, c) :: r => 0%N :: 2%N :: c :: t ++ manifest_marker r
  end.

(* restoreDuplicatesFrom: "not found" is ignored, any other failure ends the push with an error *)
Fixpoint restore_layers (g : cfg) (wd : path) (s : store) (layers : list (str * N)) : store * bool :=
  match layers with
  | [] => (s, true)
  | (t, c) :: r =>
    match t with
    | [] => restore_layers g wd s r
    | _ =>
      if existsb (str_eqb t) (st_names s) then restore_layers g wd s r else
      match fetch s c with
      | FNone => restore_layers g wd s r
      | FErr => (s, false)
      | FSome c' =>
        let '(s1, ok) := push_blob g wd s t c' ((c' =? c)%N && negb (c =? 0)%N) in
        if ok then restore_layers g wd s1 r else (s1, false)
      end
    end
  end.

Definition push (g : cfg) (pres : bool) (wd cwd : path) (s : store) (o : pushop) : store * bool :=
  match o with
  | PManifest layers =>
    let mk := manifest_marker layers in
    if existsb (str_eqb mk) (st_names s) then (s, false)
    else restore_layers g wd (mkStore (st_fs s) (mk :: st_names s) (st_d2p s)) layers
  | PBlob [] c =>
    (* no name: fallback content-addressed storage, no file-system effect; the same blob twice is
       "already exists"; content that fails verification is refused *)
    let mk := [0%N; c] in
    if (c =? 0)%N || existsb (str_eqb mk) (st_names s) then (s, false)
    else (mkStore (st_fs s) (mk :: st_names s) (st_d2p s), true)
  | PBlob title c => push_blob g wd s title c (negb (c =? 0)%N)
  | PDir [] _ _ => (s, true)
  | PDir title ts es => push_dir g pres wd cwd s title ts es 0
  | PDirF _ [] _ _ => (s, false)
  | PDirF how title ts es => push_dir g pres wd cwd s title ts es how
  end.

(* Store.Exists(descriptor with title t and the digest of content c): the name is known (or
   there is none) and the content is in digestToPath or in the fallback storage - the store's
   book-keeping as an observable *)
Definition exists_obs (s : store) (t : str) (c : N) : bool :=
  (match t with [] => true | _ => existsb (str_eqb t) (st_names s) end) &&
  (match lookup_d2p (st_d2p s) c with Some _ => true | None => existsb (str_eqb [0%N; c]) (st_names s) end).

Fixpoint pushes (g : cfg) (pres : bool) (wd cwd : path) (s : store) (os : list pushop) : store * list bool :=
  match os with
  | [] => (s, [])
  | o :: r =>
    let '(s1, ok) := push g pres wd cwd s o in
    let '(s2, oks) := pushes g pres wd cwd s1 r in
    (s2, ok :: oks)
  end.
