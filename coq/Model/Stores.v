(* C06 -- executable models of the built-in Targets (no proofs in this file).

   Universe.  Identities are numbers chosen by the harness:
     d_mt    media type id: 0 = application/octet-stream (descriptor.DefaultMediaType),
             1..5 = the five manifest media types of descriptor.IsManifest /
             content.Successors, >= 6 any other media type;
     d_dig   digest id (SHA-256 collision freedom on the universe is assumed:
             equal digest id <-> equal bytes);
     d_size  the size field;  d_ann  annotation-set id (0 = none).
   A [blob] is what the reader delivers: hash id of the bytes, their length and
   the successor keys content.Successors reports when the bytes are decoded
   under a manifest media type (JSON decoding is external; well-formed
   manifests only).

   Concrete states mirror the composition of the Go code:
     memory store = cas.Memory (sync.Map keyed by descriptor.FromOCI)
                  + resolver.Memory{index,tags} + graph.Memory{nodes,predecessors,successors}
     OCI store    = blobs/<alg>/<hex> files keyed by digest
                  + resolver.Memory (with the implicit tag-by-digest) + graph.Memory
   The abstract specification is a content map plus a tag map; everything the
   stores answer must be a function of those two maps. *)
From Oras Require Import Base.Prelude.

(* ---------- association lists and list-sets over a decidable key ---------- *)
Section AMap.
  Context {K V : Type} (eqb : K -> K -> bool).

  Fixpoint get (k : K) (m : list (K * V)) : option V :=
    match m with
    | [] => None
    | (k', v) :: m' => if eqb k k' then Some v else get k m'
    end.

  Fixpoint put (k : K) (v : V) (m : list (K * V)) : list (K * V) :=
    match m with
    | [] => [(k, v)]
    | (k', v') :: m' => if eqb k k' then (k, v) :: m' else (k', v') :: put k v m'
    end.

  Fixpoint del (k : K) (m : list (K * V)) : list (K * V) :=
    match m with
    | [] => []
    | (k', v') :: m' => if eqb k k' then del k m' else (k', v') :: del k m'
    end.
End AMap.

Section ASet.
  Context {K : Type} (eqb : K -> K -> bool).
  Definition mem (x : K) (l : list K) : bool := existsb (eqb x) l.
  Definition set_add (x : K) (l : list K) : list K := if mem x l then l else l ++ [x].
  Definition set_del (x : K) (l : list K) : list K := filter (fun y => negb (eqb x y)) l.
End ASet.

Definition getd {K V} (eqb : K -> K -> bool) (k : K) (m : list (K * list V)) : list V :=
  match get eqb k m with Some l => l | None => [] end.

Definition is_some {A} (o : option A) : bool := match o with Some _ => true | None => false end.
Definition is_nil {A} (l : list A) : bool := match l with [] => true | _ => false end.

(* ---------- the universe ---------- *)
Record desc := mkDesc { d_mt : N; d_dig : N; d_size : N; d_ann : N }.

(* descriptor.FromOCI: media type, digest, size *)
Definition gkey := (N * N * N)%type.
Definition gk (d : desc) : gkey := (d_mt d, d_dig d, d_size d).
Definition gkey_eqb (a c : gkey) : bool :=
  match a, c with (a1, a2, a3), (c1, c2, c3) => (a1 =? c1) && (a2 =? c2) && (a3 =? c3) end.
Definition k_mt (k : gkey) : N := fst (fst k).
Definition k_dig (k : gkey) : N := snd (fst k).
Definition k_size (k : gkey) : N := snd k.

(* descriptor.Plain *)
Definition plain (d : desc) : desc := mkDesc (d_mt d) (d_dig d) (d_size d) 0.
(* descriptor.IsManifest = the media types content.Successors decodes *)
Definition is_manifest (mt : N) : bool := (1 <=? mt) && (mt <=? 5).

(* b_pre_hash / b_pre_links describe the first d_size bytes of the delivered bytes, for the
   descriptor of the Push that carries the blob (equal to b_hash / b_links when nothing
   follows them): content.LimitedStorage hands only that prefix to the storage. *)
Record blob := mkBlobT { b_hash : N; b_len : N; b_links : list gkey;
                         b_pre_hash : N; b_pre_links : list gkey;
                         (* successor entries that carry an org.opencontainers.image.title
                            annotation (key, name id), in order: the file store restores them *)
                         b_tl : list (gkey * N); b_pre_tl : list (gkey * N) }.
Definition mkBlob (h l : N) (ls : list gkey) (ph : N) (pl : list gkey) : blob :=
  mkBlobT h l ls ph pl [] [].

(* content.ReadAll / ioutil.CopyBuffer + VerifyReader: size and digest must match *)
Definition verify (d : desc) (c : blob) : bool := (d_dig d =? b_hash c) && (d_size d =? b_len c).

(* content.Successors of bytes [c] stored/decoded under key [k] *)
Definition succ_of (k : gkey) (c : blob) : list gkey :=
  if is_manifest (k_mt k) then b_links c else [].

(* references: a tag-like name, the digest string of digest id g, the empty string *)
Inductive ref := RName (n : N) | RDig (g : N) | REmpty.
Definition ref_eqb (a c : ref) : bool :=
  match a, c with
  | RName x, RName y => x =? y
  | RDig x, RDig y => x =? y
  | REmpty, REmpty => true
  | _, _ => false
  end.

Inductive err := EAlreadyExists | ENotFound | EMissingRef | EInvalidRef | EMismatch | EUnsupported.

Inductive out :=
| OOk
| OErr (e : err)
| OBytes (hash len : N)
| OBool (x : bool)
| ODesc (d : desc)
| OPreds (l : list gkey)        (* projected to descriptor.FromOCI; compared as a set *)
| OTags (l : list ref).          (* compared sorted *)

Inductive op :=
| Push (d : desc) (c : blob)
| Fetch (d : desc)
| Exists (d : desc)
| Tag (d : desc) (r : ref)
| Resolve (r : ref)
| Preds (d : desc)
| Untag (r : ref)
| Delete (d : desc)
| Tags.

Definition is_err (o : out) : bool := match o with OErr _ => true | _ => false end.

(* ---------- abstract specification: content map + tag map ---------- *)
Record spec (K : Type) := mkSpec { sp_content : list (K * blob); sp_tags : list (ref * desc) }.
Arguments mkSpec {K}. Arguments sp_content {K}. Arguments sp_tags {K}.

(* memory store: content keyed by the full descriptor key *)
Definition mspec := spec gkey.
Definition mspec_init : mspec := mkSpec [] [].

Definition mspec_preds (n : gkey) (content : list (gkey * blob)) : list gkey :=
  map fst (filter (fun e => mem gkey_eqb n (succ_of (fst e) (snd e))) content).

Definition mspec_step (s : mspec) (o : op) : mspec * out :=
  match o with
  | Push d c =>
      match get gkey_eqb (gk d) (sp_content s) with
      | Some _ => (s, OErr EAlreadyExists)
      | None => if verify d c
                then (mkSpec (put gkey_eqb (gk d) c (sp_content s)) (sp_tags s), OOk)
                else (s, OErr EMismatch)
      end
  | Fetch d =>
      match get gkey_eqb (gk d) (sp_content s) with
      | Some c => (s, OBytes (b_hash c) (b_len c))
      | None => (s, OErr ENotFound)
      end
  | Exists d => (s, OBool (is_some (get gkey_eqb (gk d) (sp_content s))))
  | Tag d r =>
      if is_some (get gkey_eqb (gk d) (sp_content s))
      then (mkSpec (sp_content s) (put ref_eqb r d (sp_tags s)), OOk)
      else (s, OErr ENotFound)
  | Resolve r =>
      match get ref_eqb r (sp_tags s) with
      | Some d => (s, ODesc d)
      | None => (s, OErr ENotFound)
      end
  | Preds d => (s, OPreds (mspec_preds (gk d) (sp_content s)))
  | Untag _ | Delete _ | Tags => (s, OErr EUnsupported)
  end.

(* OCI store: content keyed by digest.  [U g] is the descriptor key under which
   the universe uses digest g (every digest has one media type and size). *)
Definition ospec := spec N.
Definition ospec_init : ospec := mkSpec [] [].

Definition ospec_preds (U : N -> gkey) (n : gkey) (content : list (N * blob)) : list gkey :=
  map (fun e => U (fst e)) (filter (fun e => mem gkey_eqb n (succ_of (U (fst e)) (snd e))) content).

(* Store.tag: also tag by digest *)
Definition spec_oci_tag (d : desc) (r : ref) (t : list (ref * desc)) : list (ref * desc) :=
  let t1 := if ref_eqb r (RDig (d_dig d)) then t else put ref_eqb (RDig (d_dig d)) d t in
  put ref_eqb r d t1.

(* Store.delete: drop every reference to the digest of the target (blobs are stored by
   digest; before the audit-F3 repair the test was content.Equal, which left references
   tagged with another media type -- e.g. the application/octet-stream descriptor that
   Resolve(<digest>) hands out for a plain blob -- dangling).
   [untag_fold] walks a snapshot of the tag map (Go map iteration: any order) and
   deletes the matching references one by one; [spec_untag_equal] is the order-free
   reading (Proofs/Stores.v: they agree on every lookup, for every snapshot order). *)
Definition eq_target (d' : desc) (k : gkey) : bool := d_dig d' =? k_dig k.

Definition untag_fold (k : gkey) (snapshot t : list (ref * desc)) : list (ref * desc) :=
  fold_left (fun acc e => if eq_target (snd e) k then del ref_eqb (fst e) acc else acc) snapshot t.

Definition spec_untag_equal (k : gkey) (t : list (ref * desc)) : list (ref * desc) :=
  filter (fun e => negb (eq_target (snd e) k)) t.

(* Store.Tag: a reference in digest form addresses content, it can only name desc itself *)
Definition foreign_digest_ref (d : desc) (r : ref) : bool :=
  match r with RDig g => negb (g =? d_dig d) | _ => false end.

Definition ospec_step (U : N -> gkey) (s : ospec) (o : op) : ospec * out :=
  match o with
  | Push d c =>
      match get N.eqb (d_dig d) (sp_content s) with
      | Some _ => (s, OErr EAlreadyExists)
      | None =>
          if verify d c
          then (mkSpec (put N.eqb (d_dig d) c (sp_content s))
                       (if is_manifest (d_mt d) then spec_oci_tag d (RDig (d_dig d)) (sp_tags s)
                        else sp_tags s), OOk)
          else (s, OErr EMismatch)
      end
  | Fetch d =>
      match get N.eqb (d_dig d) (sp_content s) with
      | Some c => (s, OBytes (b_hash c) (b_len c))
      | None => (s, OErr ENotFound)
      end
  | Exists d => (s, OBool (is_some (get N.eqb (d_dig d) (sp_content s))))
  | Tag d r =>
      match r with
      | REmpty => (s, OErr EMissingRef)
      | _ => if foreign_digest_ref d r then (s, OErr EInvalidRef)
             else if is_some (get N.eqb (d_dig d) (sp_content s))
             then (mkSpec (sp_content s) (spec_oci_tag d r (sp_tags s)), OOk)
             else (s, OErr ENotFound)
      end
  | Resolve r =>
      match r with
      | REmpty => (s, OErr EMissingRef)
      | _ =>
          match get ref_eqb r (sp_tags s) with
          | Some d => (s, ODesc (if ref_eqb r (RDig (d_dig d)) then plain d else d))
          | None =>
              match r with
              | RDig g => match get N.eqb g (sp_content s) with
                          | Some c => (s, ODesc (mkDesc 0 g (b_len c) 0))
                          | None => (s, OErr ENotFound)
                          end
              | _ => (s, OErr ENotFound)
              end
          end
      end
  | Preds d => (s, OPreds (ospec_preds U (gk d) (sp_content s)))
  | Untag r =>
      match r with
      | REmpty => (s, OErr EMissingRef)
      | _ =>
          match get ref_eqb r (sp_tags s) with
          | None => (s, OErr ENotFound)
          | Some d => if ref_eqb r (RDig (d_dig d)) then (s, OErr EInvalidRef)
                      else (mkSpec (sp_content s) (del ref_eqb r (sp_tags s)), OOk)
          end
      end
  | Delete d =>
      match get N.eqb (d_dig d) (sp_content s) with
      | None => (s, OErr ENotFound)
      | Some _ => (mkSpec (del N.eqb (d_dig d) (sp_content s)) (untag_fold (gk d) (sp_tags s) (sp_tags s)), OOk)
      end
  | Tags =>
      (s, OTags (map fst (filter (fun e => negb (ref_eqb (fst e) (RDig (d_dig (snd e))))) (sp_tags s))))
  end.

(* ---------- resolver.Memory ---------- *)
Record resolver := mkRes { r_index : list (ref * desc); r_tags : list (N * list ref) }.
Definition res_init := mkRes [] [].

Definition res_tag (d : desc) (r : ref) (s : resolver) : resolver :=
  (* a reference that moves to other content leaves the tag set of its previous target *)
  let tags0 :=
    match get ref_eqb r (r_index s) with
    | Some old =>
        if d_dig old =? d_dig d then r_tags s
        else match get N.eqb (d_dig old) (r_tags s) with
             | Some l => let l' := set_del ref_eqb r l in
                         if is_nil l' then del N.eqb (d_dig old) (r_tags s)
                         else put N.eqb (d_dig old) l' (r_tags s)
             | None => r_tags s
             end
    | None => r_tags s
    end in
  mkRes (put ref_eqb r d (r_index s))
        (put N.eqb (d_dig d) (set_add ref_eqb r (getd N.eqb (d_dig d) tags0)) tags0).

Definition res_untag (r : ref) (s : resolver) : resolver :=
  match get ref_eqb r (r_index s) with
  | None => s
  | Some d =>
      let l := set_del ref_eqb r (getd N.eqb (d_dig d) (r_tags s)) in
      mkRes (del ref_eqb r (r_index s))
            (if is_nil l then del N.eqb (d_dig d) (r_tags s) else put N.eqb (d_dig d) l (r_tags s))
  end.

(* ---------- graph.Memory ---------- *)
Record graph := mkGraph {
  g_nodes : list (gkey * desc);
  g_preds : list (gkey * list gkey);
  g_succs : list (gkey * list gkey) }.
Definition graph_init := mkGraph [] [] [].

(* Memory.index with the successor list already computed by content.Successors *)
Definition g_index (n : desc) (ss : list gkey) (g : graph) : graph :=
  let k := gk n in
  mkGraph (put gkey_eqb k n (g_nodes g))
          (fold_left (fun ps sk => put gkey_eqb sk (set_add gkey_eqb k (getd gkey_eqb sk ps)) ps)
                     ss (g_preds g))
          (put gkey_eqb k (fold_left (fun acc sk => set_add gkey_eqb sk acc) ss []) (g_succs g)).

Definition zero_desc := mkDesc 0 0 0 0.

Definition g_predecessors (n : desc) (g : graph) : list desc :=
  match get gkey_eqb (gk n) (g_preds g) with
  | None => []
  | Some l => map (fun k => match get gkey_eqb k (g_nodes g) with Some d => d | None => zero_desc end) l
  end.

(* Memory.Remove (the danglings result is only consumed by AutoGC: not modelled here) *)
Definition g_remove (n : desc) (g : graph) : graph :=
  let k := gk n in
  mkGraph (del gkey_eqb k (g_nodes g))
          (fold_left (fun ps sk =>
                        let e := set_del gkey_eqb k (getd gkey_eqb sk ps) in
                        if is_nil e then del gkey_eqb sk ps else put gkey_eqb sk e ps)
                     (getd gkey_eqb k (g_succs g)) (g_preds g))
          (del gkey_eqb k (g_succs g)).

(* ---------- memory store ---------- *)
Record mem_store := mkMem { m_cas : list (gkey * blob); m_res : resolver; m_graph : graph }.
Definition mem_init := mkMem [] res_init graph_init.

Definition mem_step (s : mem_store) (o : op) : mem_store * out :=
  match o with
  | Push d c =>
      match get gkey_eqb (gk d) (m_cas s) with
      | Some _ => (s, OErr EAlreadyExists)
      | None =>
          if verify d c
          then (mkMem (put gkey_eqb (gk d) c (m_cas s)) (m_res s)
                      (g_index d (succ_of (gk d) c) (m_graph s)), OOk)
          else (s, OErr EMismatch)
      end
  | Fetch d =>
      match get gkey_eqb (gk d) (m_cas s) with
      | Some c => (s, OBytes (b_hash c) (b_len c))
      | None => (s, OErr ENotFound)
      end
  | Exists d => (s, OBool (is_some (get gkey_eqb (gk d) (m_cas s))))
  | Tag d r =>
      if is_some (get gkey_eqb (gk d) (m_cas s))
      then (mkMem (m_cas s) (res_tag d r (m_res s)) (m_graph s), OOk)
      else (s, OErr ENotFound)
  | Resolve r =>
      match get ref_eqb r (r_index (m_res s)) with
      | Some d => (s, ODesc d)
      | None => (s, OErr ENotFound)
      end
  | Preds d => (s, OPreds (map gk (g_predecessors d (m_graph s))))
  | Untag _ | Delete _ | Tags => (s, OErr EUnsupported)
  end.

Definition mem_abs (s : mem_store) : mspec := mkSpec (m_cas s) (r_index (m_res s)).

(* ---------- OCI layout store (AutoGC off; index.json persistence is C08's) ---------- *)
Record oci_store := mkOci { o_blobs : list (N * blob); o_res : resolver; o_graph : graph }.
Definition oci_init := mkOci [] res_init graph_init.

Definition oci_tag (d : desc) (r : ref) (s : resolver) : resolver :=
  let s1 := if ref_eqb r (RDig (d_dig d)) then s else res_tag d (RDig (d_dig d)) s in
  res_tag d r s1.

(* Store.delete's loop over tagResolver.Map(): untag every reference whose
   descriptor content.Equal the target; [snapshot] is the iteration order *)
Definition oci_untag_equal (k : gkey) (snapshot : list (ref * desc)) (s : resolver) : resolver :=
  fold_left (fun acc e => if eq_target (snd e) k then res_untag (fst e) acc else acc) snapshot s.

(* Store.Tag indexes a manifest descriptor before tagging it (index.json must only name
   manifests that can be loaded again): graph.Index re-reads the blob *)
Definition oci_tag_graph (d : desc) (blobs : list (N * blob)) (g : graph) : graph :=
  if is_manifest (d_mt d)
  then match get N.eqb (d_dig d) blobs with
       | Some c => g_index d (succ_of (gk d) c) g
       | None => g
       end
  else g.

Definition oci_step (s : oci_store) (o : op) : oci_store * out :=
  match o with
  | Push d c =>
      match get N.eqb (d_dig d) (o_blobs s) with
      | Some _ => (s, OErr EAlreadyExists)
      | None =>
          if verify d c
          then (mkOci (put N.eqb (d_dig d) c (o_blobs s))
                      (if is_manifest (d_mt d) then oci_tag d (RDig (d_dig d)) (o_res s) else o_res s)
                      (g_index d (succ_of (gk d) c) (o_graph s)), OOk)
          else (s, OErr EMismatch)
      end
  | Fetch d =>
      match get N.eqb (d_dig d) (o_blobs s) with
      | Some c => (s, OBytes (b_hash c) (b_len c))
      | None => (s, OErr ENotFound)
      end
  | Exists d => (s, OBool (is_some (get N.eqb (d_dig d) (o_blobs s))))
  | Tag d r =>
      match r with
      | REmpty => (s, OErr EMissingRef)
      | _ => if foreign_digest_ref d r then (s, OErr EInvalidRef)
             else if is_some (get N.eqb (d_dig d) (o_blobs s))
             then (mkOci (o_blobs s) (oci_tag d r (o_res s)) (oci_tag_graph d (o_blobs s) (o_graph s)), OOk)
             else (s, OErr ENotFound)
      end
  | Resolve r =>
      match r with
      | REmpty => (s, OErr EMissingRef)
      | _ =>
          match get ref_eqb r (r_index (o_res s)) with
          | Some d => (s, ODesc (if ref_eqb r (RDig (d_dig d)) then plain d else d))
          | None =>
              (* resolveBlob: only a valid digest string names a blob file *)
              match r with
              | RDig g => match get N.eqb g (o_blobs s) with
                          | Some c => (s, ODesc (mkDesc 0 g (b_len c) 0))
                          | None => (s, OErr ENotFound)
                          end
              | _ => (s, OErr ENotFound)
              end
          end
      end
  | Preds d => (s, OPreds (map gk (g_predecessors d (o_graph s))))
  | Untag r =>
      match r with
      | REmpty => (s, OErr EMissingRef)
      | _ =>
          match get ref_eqb r (r_index (o_res s)) with
          | None => (s, OErr ENotFound)
          | Some d => if ref_eqb r (RDig (d_dig d)) then (s, OErr EInvalidRef)
                      else (mkOci (o_blobs s) (res_untag r (o_res s)) (o_graph s), OOk)
          end
      end
  | Delete d =>
      (* untag, graph.Remove, then storage.Delete -- in the order of the code: the
         first two happen even when the blob file turns out to be missing *)
      let res' := oci_untag_equal (gk d) (r_index (o_res s)) (o_res s) in
      let g' := g_remove d (o_graph s) in
      match get N.eqb (d_dig d) (o_blobs s) with
      | None => (mkOci (o_blobs s) res' g', OErr ENotFound)
      | Some _ => (mkOci (del N.eqb (d_dig d) (o_blobs s)) res' g', OOk)
      end
  | Tags =>
      (s, OTags (map fst (filter (fun e => negb (ref_eqb (fst e) (RDig (d_dig (snd e)))))
                                 (r_index (o_res s)))))
  end.

Definition oci_abs (s : oci_store) : ospec := mkSpec (o_blobs s) (r_index (o_res s)).

(* ---------- histories ---------- *)
Section Run.
  Context {S : Type} (step : S -> op -> S * out).
  Fixpoint run (s : S) (h : list op) : S * list out :=
    match h with
    | [] => (s, [])
    | o :: h' => let (s1, x) := step s o in
                 let (s2, xs) := run s1 h' in (s2, x :: xs)
    end.
End Run.

Definition run_mem (h : list op) : list out := snd (run mem_step mem_init h).
Definition run_mspec (h : list op) : list out := snd (run mspec_step mspec_init h).
Definition run_oci (h : list op) : list out := snd (run oci_step oci_init h).
Definition run_ospec (U : N -> gkey) (h : list op) : list out := snd (run (ospec_step U) ospec_init h).

(* final observable state: content map and tag map *)
Definition final_mem (h : list op) : mspec := mem_abs (fst (run mem_step mem_init h)).
Definition final_oci (h : list op) : ospec := oci_abs (fst (run oci_step oci_init h)).

(* ---------- file store (content/file): a virtual CAS over named files ----------
   Annotation-set ids are numbered so that a / 8 is the id of the
   org.opencontainers.image.title annotation (0 = no title).  A path is identified
   with the name it was resolved from, except for one deliberate alias ([path_of]);
   traversal and symlinks are C11's.  Not modelled: pushDir/unpack, Add,
   restoreDuplicates (successor descriptors carry no titles), Close, the fallback
   size limit, ForceCAS/SkipUnpack/PreservePermissions. *)
Definition d_name (d : desc) : N := N.div (d_ann d) 8.

(* resolveWritePath: name 5 of the universe is "./" ++ name 1 -- a second name for the
   same path; every other name is its own path *)
Definition path_of (n : N) : N := if n =? 5 then 1 else n.

Record file_store := mkFile {
  f_names : list N;                (* nameToStatus entries whose exists flag is set *)
  f_d2p : list (N * N);            (* digestToPath *)
  f_disk : list (N * blob);        (* regular files under the working directory, by path *)
  f_cas : list (gkey * blob);      (* fallback storage: cas.Memory *)
  f_res : resolver;
  f_graph : graph }.
Definition file_init := mkFile [] [] [] [] res_init graph_init.

Definition name_ok (d : desc) (s : file_store) : bool :=
  (d_name d =? 0) || mem N.eqb (d_name d) (f_names s).

(* Store.Fetch: Some blob | None = not found *)
Definition file_fetch (d : desc) (s : file_store) : option blob :=
  if name_ok d s then
    match get N.eqb (d_dig d) (f_d2p s) with
    | Some p => get N.eqb p (f_disk s)          (* os.Open; a missing file is not-found *)
    | None => get gkey_eqb (gk d) (f_cas s)
    end
  else None.

Definition file_exists (d : desc) (s : file_store) : bool :=
  name_ok d s && (is_some (get N.eqb (d_dig d) (f_d2p s)) || is_some (get gkey_eqb (gk d) (f_cas s))).

(* resolveWritePath: name 6 of the universe is "../x" -- refused (path traversal) *)
Definition bad_name (n : N) : bool := n =? 6.

(* io.LimitReader(content, expected.Size): bytes after the first Size are never read *)
Definition limit_reader (d : desc) (c : blob) : blob :=
  if d_size d <? b_len c
  then mkBlobT (b_pre_hash c) (d_size d) (b_pre_links c) (b_pre_hash c) (b_pre_links c) (b_pre_tl c) (b_pre_tl c)
  else c.

Inductive ferr := FDuplicateName | FOverwrite | FTraversal.

Inductive fout := FO (o : out) | FE (e : ferr).

(* Store.push of a named descriptor (key k, name n) with content c, under the name's lock:
   None = written.  [fixed]: pushFile removes the file it created when the content does not
   verify; [fixed = false] is the code as first found. *)
Definition file_named_push (fixed disable_overwrite : bool) (s : file_store) (k : gkey) (n : N) (c : blob)
  : file_store * option fout :=
  if mem N.eqb n (f_names s) then (s, Some (FE FDuplicateName))
  else if bad_name n then (s, Some (FE FTraversal))
  else if disable_overwrite && is_some (get N.eqb (path_of n) (f_disk s)) then (s, Some (FE FOverwrite))
  else if (k_dig k =? b_hash c) && (k_size k =? b_len c)
  then (mkFile (n :: f_names s) (put N.eqb (k_dig k) (path_of n) (f_d2p s))
               (put N.eqb (path_of n) c (f_disk s)) (f_cas s) (f_res s) (f_graph s), None)
  else (* os.Create truncated/created the file, the copy failed verification *)
    (mkFile (f_names s) (f_d2p s)
            (if fixed then del N.eqb (path_of n) (f_disk s) else put N.eqb (path_of n) c (f_disk s))
            (f_cas s) (f_res s) (f_graph s), Some (FO (OErr EMismatch))).

(* restoreDuplicatesFrom: for every titled successor whose name does not exist yet, fetch
   the content by its plain descriptor and push it under that name; not-found and
   duplicate-name are skipped, any other error aborts (and is what Push returns) *)
Fixpoint file_restore (fixed ov : bool) (tl : list (gkey * N)) (s : file_store) : file_store * option fout :=
  match tl with
  | [] => (s, None)
  | (k, n) :: rest =>
      if (n =? 0) || mem N.eqb n (f_names s) then file_restore fixed ov rest s
      else match file_fetch (mkDesc (k_mt k) (k_dig k) (k_size k) 0) s with
           | None => file_restore fixed ov rest s
           | Some c2 =>
               (* a second name for the very file the content is read from: os.Create truncates
                  the source before it is copied (an empty file stays what it was) *)
               let c2 := match get N.eqb (k_dig k) (f_d2p s) with
                         | Some p => if (p =? path_of n) && negb (b_len c2 =? 0) then mkBlob 0 0 [] 0 [] else c2
                         | None => c2
                         end in
               match file_named_push fixed ov s k n c2 with
               | (s1, None) => file_restore fixed ov rest s1
               | (s1, Some (FE FDuplicateName)) => file_restore fixed ov rest s1
               | (s1, Some e) => (s1, Some e)
               end
           end
  end.

(* graph.Index(ctx, s, expected): content.Successors fetches the content through the store
   (content.FetchAll verifies it; modelled on the hash: equal hash, equal bytes) *)
Definition file_index (d : desc) (s1 : file_store) : file_store * fout :=
  if is_manifest (d_mt d) then
    match file_fetch d s1 with
    | None => (s1, FO (OErr ENotFound))
    | Some c1 =>
        if d_dig d =? b_hash c1
        then (mkFile (f_names s1) (f_d2p s1) (f_disk s1) (f_cas s1) (f_res s1)
                     (g_index d (succ_of (gk d) c1) (f_graph s1)), FO OOk)
        else (s1, FO (OErr EMismatch))
    end
  else (mkFile (f_names s1) (f_d2p s1) (f_disk s1) (f_cas s1) (f_res s1)
               (g_index d [] (f_graph s1)), FO OOk).

(* after a successful store: graph.Index first (so that a failing restore cannot leave stored
   content out of the graph), then restoreDuplicates, which reads the manifest back again *)
Definition file_index_after (fixed ov : bool) (d : desc) (s1 : file_store) : file_store * fout :=
  let (s2, r) := file_index d s1 in
  match r with
  | FO OOk =>
      if is_manifest (d_mt d) then
        match file_fetch d s2 with
        | None => (s2, FO (OErr ENotFound))
        | Some c1 =>
            if d_dig d =? b_hash c1
            then match file_restore fixed ov (b_tl c1) s2 with
                 | (s3, Some e) => (s3, e)    (* "failed to restore duplicated file": stored and indexed *)
                 | (s3, None) => (s3, FO OOk)
                 end
            else (s2, FO (OErr EMismatch))
        end
      else (s2, FO OOk)
  | _ => (s2, r)
  end.

Definition file_step (fixed ignore_noname disable_overwrite : bool)
           (s : file_store) (o : op) : file_store * fout :=
  match o with
  | Push d c =>
      let index_after := file_index_after fixed disable_overwrite d in
      if d_name d =? 0 then
        if ignore_noname then
          (* errSkipUnnamed: the content is discarded; restoreDuplicatesOfSkipped still reads a
             manifest with content.ReadAll (full verification, no LimitReader) and restores its
             titled successors *)
          if is_manifest (d_mt d) then
            if verify d c
            then match file_restore fixed disable_overwrite (b_tl c) s with
                 | (s2, Some e) => (s2, e)
                 | (s2, None) => (s2, FO OOk)
                 end
            else (s, FO (OErr EMismatch))
          else (s, FO OOk)
        else match get gkey_eqb (gk d) (f_cas s) with
             | Some _ => (s, FO (OErr EAlreadyExists))
             | None =>
                 (* LimitedStorage.Push: io.LimitReader(content, expected.Size) *)
                 let c := limit_reader d c in
                 if verify d c
                 then index_after (mkFile (f_names s) (f_d2p s) (f_disk s)
                                          (put gkey_eqb (gk d) c (f_cas s)) (f_res s) (f_graph s))
                 else (s, FO (OErr EMismatch))
             end
      else match file_named_push fixed disable_overwrite s (gk d) (d_name d) c with
           | (s1, None) => index_after s1
           | (s1, Some e) => (s1, e)
           end
  | Fetch d =>
      match file_fetch d s with
      | Some c => (s, FO (OBytes (b_hash c) (b_len c)))
      | None => (s, FO (OErr ENotFound))
      end
  | Exists d => (s, FO (OBool (file_exists d s)))
  | Tag d r =>
      match r with
      | REmpty => (s, FO (OErr EMissingRef))
      | _ => if file_exists d s
             then (mkFile (f_names s) (f_d2p s) (f_disk s) (f_cas s) (res_tag d r (f_res s)) (f_graph s), FO OOk)
             else (s, FO (OErr ENotFound))
      end
  | Resolve r =>
      match r with
      | REmpty => (s, FO (OErr EMissingRef))
      | _ => match get ref_eqb r (r_index (f_res s)) with
             | Some d => (s, FO (ODesc d))
             | None => (s, FO (OErr ENotFound))
             end
      end
  | Preds d => (s, FO (OPreds (map gk (g_predecessors d (f_graph s)))))
  | Untag _ | Delete _ | Tags => (s, FO (OErr EUnsupported))
  end.

Definition fout_is_err (o : fout) : bool := match o with FO x => is_err x | FE _ => true end.

Section RunF.
  Context {S : Type} (step : S -> op -> S * fout).
  Fixpoint runf (s : S) (h : list op) : S * list fout :=
    match h with
    | [] => (s, [])
    | o :: h' => let (s1, x) := step s o in
                 let (s2, xs) := runf s1 h' in (s2, x :: xs)
    end.
End RunF.
