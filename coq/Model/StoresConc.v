(* C06 -- concurrent executions of the memory store and of the OCI store, as
   interleavings of their atomic steps (no proofs in this file).

   Memory store (content/memory + internal/cas + internal/resolver + internal/graph):
     Push  = Load (already exists?) ; verify the bytes (thread local) ;
             LoadOrStore (the commit: one winner per key) ;
             graph.index under the graph lock (content.Successors re-reads the stored value)
     Tag   = Exists (Load) ; resolver.Tag under the resolver lock (the commit)
     Fetch / Exists / Resolve / Predecessors = one atomic read.
   A configuration holds the shared store, one program counter + remaining program per
   goroutine, and two ghost components used only to state the theorems: the commit log
   (operations in the order of their commit steps) and the set of keys already indexed. *)
From Oras Require Import Base.Prelude Model.Stores.

Inductive mpc :=
| MIdle
| MPush2 (d : desc) (c : blob)   (* checked and verified; before LoadOrStore *)
| MPush3 (d : desc)              (* stored; before graph.index *)
| MTag2 (d : desc) (r : ref).    (* existence checked; before resolver.Tag *)

Record mthread := mkT { t_pc : mpc; t_ops : list op }.

Record mconf := mkC {
  c_store : mem_store;
  c_threads : list mthread;
  c_log : list (nat * op);  (* ghost: commit order, with the committing goroutine *)
  c_indexed : list gkey }.  (* ghost: keys whose graph.index step has run *)

(* result of one atomic step of a goroutine: new store, new thread state, operations
   committed by this step, keys indexed by this step *)
Definition mthread_step (s : mem_store) (t : mthread)
  : option (mem_store * mthread * list op * list gkey) :=
  match t_pc t with
  | MIdle =>
      match t_ops t with
      | [] => None
      | o :: rest =>
          match o with
          | Push d c =>
              if is_some (get gkey_eqb (gk d) (m_cas s)) then Some (s, mkT MIdle rest, [o], [])
              else if verify d c then Some (s, mkT (MPush2 d c) rest, [], [])
                   else Some (s, mkT MIdle rest, [o], [])
          | Tag d r =>
              if is_some (get gkey_eqb (gk d) (m_cas s)) then Some (s, mkT (MTag2 d r) rest, [], [])
              else Some (s, mkT MIdle rest, [o], [])
          | _ => Some (s, mkT MIdle rest, [o], [])
          end
      end
  | MPush2 d c =>
      match get gkey_eqb (gk d) (m_cas s) with
      | Some _ => Some (s, mkT MIdle (t_ops t), [Push d c], [])
      | None => Some (mkMem (put gkey_eqb (gk d) c (m_cas s)) (m_res s) (m_graph s),
                      mkT (MPush3 d) (t_ops t), [Push d c], [])
      end
  | MPush3 d =>
      match get gkey_eqb (gk d) (m_cas s) with
      | Some c => Some (mkMem (m_cas s) (m_res s) (g_index d (succ_of (gk d) c) (m_graph s)),
                        mkT MIdle (t_ops t), [], [gk d])
      | None => Some (s, mkT MIdle (t_ops t), [], [])   (* Successors: not found *)
      end
  | MTag2 d r =>
      Some (mkMem (m_cas s) (res_tag d r (m_res s)) (m_graph s), mkT MIdle (t_ops t), [Tag d r], [])
  end.

Fixpoint upd_nth {A} (i : nat) (x : A) (l : list A) : list A :=
  match l, i with
  | [], _ => []
  | _ :: l', O => x :: l'
  | y :: l', S j => y :: upd_nth j x l'
  end.

(* goroutine i takes one atomic step (a finished or non-existent goroutine stutters) *)
Definition mconf_step (cf : mconf) (i : nat) : mconf :=
  match nth_error (c_threads cf) i with
  | None => cf
  | Some t =>
      match mthread_step (c_store cf) t with
      | None => cf
      | Some (s', t', lg, ix) =>
          mkC s' (upd_nth i t' (c_threads cf)) (c_log cf ++ map (pair i) lg) (ix ++ c_indexed cf)
      end
  end.

Definition mconf_init (progs : list (list op)) : mconf :=
  mkC mem_init (map (fun p => mkT MIdle p) progs) [] [].

Definition mconf_run (cf : mconf) (sched : list nat) : mconf := fold_left mconf_step sched cf.

Definition thread_done (t : mthread) : bool :=
  match t_pc t, t_ops t with MIdle, [] => true | _, _ => false end.

Definition quiescent (cf : mconf) : bool := forallb thread_done (c_threads cf).

(* the operations goroutine i has committed, in commit order *)
Definition log_of (i : nat) (L : list (nat * op)) : list op :=
  map snd (filter (fun e => Nat.eqb (fst e) i) L).
