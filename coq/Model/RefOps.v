(* Reference-taking operations of remote.Repository (registry/remote/repository.go):
   which requests (method, URL) an operation emits for a reference string given in
   any of the accepted forms.  Every operation first resolves the string with
   Repository.ParseReference and must build its URLs from the *resolved* reference
   (tag@digest drops the tag, fully-qualified forms drop the base).  Executable model
   only; theorems in Proofs/RefOps.v. *)
From Oras Require Import Base.Prelude Base.Regex Generated.GC20 Model.Reference.

Inductive refop :=
| OpMResolve      (* manifestStore.Resolve        : HEAD manifests/<ref> *)
| OpMFetchRef     (* manifestStore.FetchReference : GET  manifests/<ref> *)
| OpTag           (* manifestStore.Tag            : GET manifests/<desc digest>, PUT manifests/<ref> *)
| OpPushRef       (* manifestStore.PushReference  : PUT  manifests/<ref> *)
| OpBResolve      (* blobStore.Resolve            : HEAD blobs/<digest>, reference must be a digest *)
| OpBFetchRef.    (* blobStore.FetchReference     : GET  blobs/<digest> *)

Definition m_head := b "HEAD".
Definition m_get := b "GET".
Definition m_put := b "PUT".

(* requests emitted once the reference is resolved to [r]; [d] is the digest of the
   descriptor handed to Tag.  Digest validity of [d] is the caller's business. *)
Section WithDigests.
Variable avail : str -> bool.
Notation valid_digest := (valid_digest avail).
Definition op_requests_resolved (op : refop) (plain : bool) (r : reference) (d : str)
  : option (list (str * str)) :=
  match op with
  | OpMResolve => Some [(m_head, url_manifest plain r)]
  | OpMFetchRef => Some [(m_get, url_manifest plain r)]
  | OpTag => Some [(m_get, url_manifest plain (mkRef (r_registry r) (r_repository r) d));
                   (m_put, url_manifest plain r)]
  | OpPushRef => Some [(m_put, url_manifest plain r)]
  | OpBResolve => if valid_digest (r_reference r) then Some [(m_head, url_blob plain r)] else None
  | OpBFetchRef => if valid_digest (r_reference r) then Some [(m_get, url_blob plain r)] else None
  end.

Section WithRegistry.
  Variable valid_registry : str -> bool.
  (* None = the operation refuses the reference string before sending anything *)
  Definition op_requests (op : refop) (plain : bool) (breg brepo s d : str)
    : option (list (str * str)) :=
    match repo_parse avail valid_registry breg brepo s with
    | Some r => op_requests_resolved op plain r d
    | None => None
    end.
End WithRegistry.
End WithDigests.

(* three-valued version for the correspondence check (registry adjudication as in
   repo_parse_verdict) *)
Inductive opverdict := OReqs (l : list (str * str)) | ORefused | OUnjudged.
Definition op_requests_verdict (avail : str -> bool) (op : refop) (plain : bool) (breg brepo s d : str) : opverdict :=
  match repo_parse_verdict avail breg brepo s with
  | VOk r => match op_requests_resolved avail op plain r d with Some l => OReqs l | None => ORefused end
  | VErr => ORefused
  | VUnjudged => OUnjudged
  end.
