(* Reference-taking operations of remote.Repository (registry/remote/repository.go):
   which requests (method, URL) an operation emits for a reference string given in
   any of the accepted forms.  Every operation first resolves the string with
   Repository.ParseReference and must build its URLs from the *resolved* reference
   (tag@digest drops the tag, fully-qualified forms drop the base).  Executable model
   only; theorems in Proofs/RefOps.v. *)
From Oras Require Import Base.Prelude Base.Regex Generated.GC20 Model.NetURL Model.Reference.

Inductive refop :=
| OpMResolve      (* manifestStore.Resolve        : HEAD manifests/<ref> *)
| OpMFetchRef     (* manifestStore.FetchReference : GET  manifests/<ref> *)
| OpTag           (* manifestStore.Tag            : GET manifests/<desc digest>, PUT manifests/<ref> *)
| OpPushRef       (* manifestStore.PushReference  : PUT  manifests/<ref> *)
| OpBResolve      (* blobStore.Resolve            : HEAD blobs/<digest>, reference must be a digest *)
| OpBFetchRef.    (* blobStore.FetchReference     : GET  blobs/<digest> *)

Definition m_head := b "HEAD".
Definition m_get := b "GET".
Definition m_put := b "PUT".

(* requests emitted once the reference is resolved to [r]; [d] is the digest of the
   descriptor handed to Tag.  Digest validity of [d] is the caller's business. *)
Section WithDigests.
Variable avail : str -> bool.
Notation valid_digest := (valid_digest avail).
Definition op_requests_resolved (op : refop) (plain : bool) (r : reference) (d : str)
  : option (list (str * str)) :=
  match op with
  | OpMResolve => Some [(m_head, url_manifest plain r)]
  | OpMFetchRef => Some [(m_get, url_manifest plain r)]
  | OpTag => Some [(m_get, url_manifest plain (mkRef (r_registry r) (r_repository r) d));
                   (m_put, url_manifest plain r)]
  | OpPushRef => Some [(m_put, url_manifest plain r)]
  | OpBResolve => if valid_digest (r_reference r) then Some [(m_head, url_blob plain r)] else None
  | OpBFetchRef => if valid_digest (r_reference r) then Some [(m_get, url_blob plain r)] else None
  end.

Section WithRegistry.
  Variable valid_registry : str -> bool.
  (* None = the operation refuses the reference string before sending anything *)
  Definition op_requests (op : refop) (plain : bool) (breg brepo s d : str)
    : option (list (str * str)) :=
    match repo_parse avail valid_registry breg brepo s with
    | Some r => op_requests_resolved op plain r d
    | None => None
    end.
End WithRegistry.
End WithDigests.

(* three-valued version for the correspondence check (registry adjudication as in
   repo_parse_verdict) *)
Inductive opverdict := OReqs (l : list (str * str)) | ORefused | OUnjudged.
Definition op_requests_verdict (avail : str -> bool) (op : refop) (plain : bool) (breg brepo s d : str) : opverdict :=
  match repo_parse_verdict avail breg brepo s with
  | VOk r => match op_requests_resolved avail op plain r d with Some l => OReqs l | None => ORefused end
  | VErr => ORefused
  | VUnjudged => OUnjudged
  end.

(* ---------- operations that build their URL from the base repository and a DESCRIPTOR ----------
   (registry/remote/repository.go: manifestStore / blobStore Fetch, Exists, Delete; blobStore.Mount
   and Push; Repository.Referrers via the Referrers API; Repository.Tags).  The digest [d] is
   target.Digest.String(), used as it is.  Requests carry a query only where documented:
   referrers: artifactType=<filter> [&n=<page size>]; tags: [n=<page size>][&last=<tag>]
   (setQueryParams appends in that order); mount: mount=<digest>&from=<repository>. *)
Inductive descop :=
| DMFetch | DMDelete                 (* manifests/<d> : GET / DELETE (referrers API supported) *)
| DBFetch | DBDelete                 (* blobs/<d>     : GET / DELETE;  Exists is Resolve(d): covered by OpMResolve / OpBResolve *)
| DReferrers                         (* GET referrers/<d>?artifactType=a1&n=num *)
| DMount                             (* POST blobs/uploads/?mount=<d>&from=a1 *)
| DBPush                             (* POST blobs/uploads/ *)
| DTags.                             (* GET tags/list?n=num&last=a1 *)

Definition m_delete := b "DELETE".
Definition m_post := b "POST".

Fixpoint join_amp (l : list str) : str :=
  match l with
  | [] => []
  | [x] => x
  | x :: r => x ++ [38] ++ join_amp r
  end.
(* escaped key '=' escaped value, joined by '&' (url.Values.Encode for one key; setQueryParams) *)
Definition encode_params (ps : list (str * str)) : str :=
  join_amp (map (fun kv => query_escape (fst kv) ++ [61] ++ query_escape (snd kv)) ps).
Definition with_query (u : str) (ps : list (str * str)) : str :=
  match ps with [] => u | _ => u ++ [c_qm] ++ encode_params ps end.
Definition opt_param (k v : str) : list (str * str) := match v with [] => [] | _ => [(k, v)] end.

(* [num] is the page size printed by strconv.Itoa, empty when it is not set (<= 0) *)
Definition desc_op_requests (op : descop) (plain : bool) (base : reference) (d a1 num : str)
  : list (str * str) :=
  let r := mkRef (r_registry base) (r_repository base) d in
  match op with
  | DMFetch => [(m_get, url_manifest plain r)]
  | DMDelete => [(m_delete, url_manifest plain r)]
  | DBFetch => [(m_get, url_blob plain r)]
  | DBDelete => [(m_delete, url_blob plain r)]
  | DReferrers => [(m_get, with_query (url_referrers plain r) (opt_param (b "artifactType") a1 ++ opt_param (b "n") num))]
  | DMount => [(m_post, url_upload plain r ++ b "?mount=" ++ d ++ b "&from=" ++ a1)]
  | DBPush => [(m_post, url_upload plain r)]
  | DTags => [(m_get, with_query (url_taglist plain r) (opt_param (b "n") num ++ opt_param (b "last") a1))]
  end.

(* url.ParseQuery restricted to what encode_params produces: split at '&', cut at the first '=',
   QueryUnescape both sides *)
Fixpoint parse_params (l : list str) : option (list (str * str)) :=
  match l with
  | [] => Some []
  | p :: r =>
      match split_first 61 p with
      | None => None
      | Some (k, v) =>
          match query_unescape k, query_unescape v, parse_params r with
          | Some k', Some v', Some r' => Some ((k', v') :: r')
          | _, _, _ => None
          end
      end
  end.
Definition parse_query (q : str) : option (list (str * str)) := parse_params (split_on 38 q).

(* ---------- how a Repository / Registry value comes to exist, and the Registry's own requests ----------
   remote.NewRepository(s): registry.ParseReference(s), the whole parsed reference is the base;
   remote.NewRegistry(name): ValidateRegistry;  Registry.Repository(ctx, name): the registry's name
   plus ValidateRepository(name);  Registry.Ping: GET <base URL>;  Registry.Repositories(last):
   GET <catalog URL>[?n=<page size>][&last=<last>]. *)
Section Constructors.
  Variable avail : str -> bool.
  Variable valid_registry : str -> bool.
  Definition new_repository (s : str) : option reference := parse avail valid_registry s.
  Definition new_registry (name : str) : option str := if valid_registry name then Some name else None.
  Definition registry_repository (reg name : str) : option reference :=
    if valid_repository name then Some (mkRef reg name []) else None.
End Constructors.

Inductive regop := RPing | RCatalog.
Definition reg_op_requests (op : regop) (plain : bool) (reg a1 num : str) : list (str * str) :=
  let r := mkRef reg [] [] in
  match op with
  | RPing => [(m_get, url_base plain r)]
  | RCatalog => [(m_get, with_query (url_catalog plain r) (opt_param (b "n") num ++ opt_param (b "last") a1))]
  end.

(* ---------- the top-level oras.Tag / oras.TagN on a remote Repository (content.go) ----------
   ReferenceFetcher + ReferencePusher path: FetchReference(src) -- GET manifests/<resolved src>,
   which fails when src is a digest other than the one the registry serves -- then
   PushReference(dst) for each destination in turn (TagN with Concurrency 1), stopping at the
   first destination the Repository refuses.  [served] = digest of what the registry returns. *)
Section Compound.
  Variable avail : str -> bool.
  Variable valid_registry : str -> bool.
  Variable plain : bool.
  Variables breg brepo : str.

  Fixpoint put_until_refused (dsts : list str) : list (str * str) :=
    match dsts with
    | [] => []
    | dst :: rest =>
        match repo_parse avail valid_registry breg brepo dst with
        | Some r2 => (m_put, url_manifest plain r2) :: put_until_refused rest
        | None => []
        end
    end.

  Definition fetch_ok (r : reference) (served : str) : bool :=
    if valid_digest avail (r_reference r) then str_eqb (r_reference r) served else true.

  Definition oras_tag_requests (src : str) (dsts : list str) (served : str) : list (str * str) :=
    match dsts with
    | [] => []
    | _ =>
        match repo_parse avail valid_registry breg brepo src with
        | None => []
        | Some r => (m_get, url_manifest plain r) :: (if fetch_ok r served then put_until_refused dsts else [])
        end
    end.
End Compound.
