(* Executable model of pack.go: PackManifest (v1.0, v1.1), Pack (v1.1-rc2 image
   manifest, artifact manifest), pushIfNotExist / pushManifest /
   pushCustomEmptyConfig, ensureAnnotationCreated, validateMediaType.
   No proofs here (Proofs/Pack.v).

   Conventions
   - a Go map[string]string is an association list (first match wins; nil and
     empty maps are the same list []);
   - [manifest] is the JSON-level document that json.Marshal sees after
     omitempty: [m_layers = None] is JSON null / an omitted array,
     [m_at = []] an omitted artifactType, [m_subject = None] an omitted subject;
   - json.Marshal and the digest function are parameters ([marshal], [H]);
   - the target is a content store with a key discipline (digest only, media
     type + digest + size, or digest per manifest/blob namespace), that may or may not implement Exists, may already
     hold content, and may fail at one chosen storage operation ([fa]);
   - time.Now().UTC().Format(RFC3339) is the parameter [now];
     the validation of a caller-supplied created value is the recogniser [rfc3339_ok]
     = time.Parse(time.RFC3339, _) (lenient mirror [rfc3339_gen false]) and the explicit
     checks of validateRFC3339 translated from pack.go on every run. *)
From Oras Require Import Base.Prelude Base.Regex Base.StrCheck Generated.GC19.

Definition kv := (str * str)%type.

(* urls, data and platform of a descriptor: Pack only passes them through *)
Record platform := mkPlatform {
  p_arch : str; p_os : str; p_osver : str; p_osfeat : list str; p_variant : str
}.
Record dextra := mkExtra {
  x_urls : list str;             (* [] = omitted *)
  x_data : str;                  (* embedded content, [] = omitted *)
  x_platform : option platform
}.
Definition no_extra : dextra := mkExtra [] [] None.

Record desc := mkDesc {
  d_mt : str;          (* mediaType *)
  d_dg : str;          (* digest *)
  d_sz : Z;            (* size *)
  d_ann : list kv;     (* annotations *)
  d_at : str;          (* artifactType *)
  d_extra : dextra     (* urls / data / platform *)
}.

Inductive mkind := KImage | KArtifact.

Record manifest := mkManifest {
  m_kind : mkind;
  m_config : option desc;
  m_layers : option (list desc);
  m_subject : option desc;
  m_at : str;
  m_ann : list kv
}.

(* ---------- constants of image-spec v1.1.1 (hand-written; tied by correspondence) ---------- *)
Definition MediaTypeImageManifest : str := b "application/vnd.oci.image.manifest.v1+json".
Definition MediaTypeEmptyJSON : str := b "application/vnd.oci.empty.v1+json".
Definition AnnotationCreated : str := b "org.opencontainers.image.created".
Definition empty_json : str := [123; 125].  (* {} *)
Definition empty_json_digest : str :=
  b "sha256:44136fa355b3678a1146ad16f7e8649e94fb4fc21fe77e8310c060f61caaff8a".
(* ocispec.DescriptorEmptyJSON carries Data = "{}" *)
Definition empty_json_extra : dextra := mkExtra [] [123; 125] None.
Definition DescriptorEmptyJSON : desc :=
  mkDesc MediaTypeEmptyJSON empty_json_digest 2 [] [] empty_json_extra.

Definition kind_mt (k : mkind) : str :=
  match k with KImage => MediaTypeImageManifest | KArtifact => MediaTypeArtifactManifest end.

(* ---------- validateMediaType ---------- *)
Definition valid_media_type (s : str) : bool := matches mediaTypeRegexp s.

(* ---------- RFC 3339 timestamps as the Go time package reads them ---------- *)
Definition is_digit (c : N) : bool := (48 <=? c) && (c <=? 57).
Definition dval (c : N) : N := c - 48.

(* getnum(s, fixed=true): exactly two digits *)
Definition num2 (s : str) : option (N * str) :=
  match s with
  | a :: c :: r => if is_digit a && is_digit c then Some (dval a * 10 + dval c, r) else None
  | _ => None
  end.

(* getnum(s, fixed=false): one or two digits *)
Definition num12 (s : str) : option (N * str) :=
  match s with
  | a :: r =>
    if is_digit a then
      match r with
      | c :: r' => if is_digit c then Some (dval a * 10 + dval c, r') else Some (dval a, r)
      | [] => Some (dval a, r)
      end
    else None
  | [] => None
  end.

(* stdLongYear: four digits *)
Definition num4 (s : str) : option (N * str) :=
  match s with
  | a :: c :: d :: e :: r =>
    if is_digit a && is_digit c && is_digit d && is_digit e
    then Some (((dval a * 10 + dval c) * 10 + dval d) * 10 + dval e, r) else None
  | _ => None
  end.

Definition lit (c : N) (s : str) : option str :=
  match s with x :: r => if x =? c then Some r else None | [] => None end.

Fixpoint skip_digits (s : str) : str :=
  match s with c :: r => if is_digit c then skip_digits r else s | [] => [] end.

(* Two recognisers, structurally.
   [strict = false]: time.Parse(time.RFC3339, _) -- mirrors time.parse of go1.26.8 for that layout
   (4-digit year, 2-digit fields except a 1-or-2-digit hour, fraction after '.' or ',', "Z" or
   +hh:mm with hh <= 24 and mm <= 60, nothing after it, day-of-month check); compared with the real
   time.Parse on every run (case kind L).
   [strict = true]: the same with a two-digit hour, '.' only and offsets <= 23:59.  The model of
   validateRFC3339 ([rfc3339_ok] below) is NOT this function: it is the lenient recogniser plus the
   checks translated from pack.go; Proofs/PackTime.v proves the two equal. *)

Definition is_nil (s : str) : bool := match s with [] => true | _ => false end.

(* optional fractional second: "." digit+  (lenient: "," too) *)
Definition skip_frac (strict : bool) (s : str) : str :=
  match s with
  | p :: d :: r => if ((p =? 46) || (negb strict && (p =? 44))) && is_digit d then skip_digits r else s
  | _ => s
  end.

(* Z07:00 and nothing after it *)
Definition tz_ok (strict : bool) (s : str) : bool :=
  match s with
  | [] => false
  | sg :: r =>
    if sg =? 90 then is_nil r
    else
      match r with
      | h1 :: h2 :: col :: m1 :: m2 :: r' =>
        (col =? 58) && is_digit h1 && is_digit h2 && is_digit m1 && is_digit m2 &&
        ((sg =? 43) || (sg =? 45)) &&
        (dval h1 * 10 + dval h2 <=? (if strict then 23 else 24)) &&
        (dval m1 * 10 + dval m2 <=? (if strict then 59 else 60)) && is_nil r'
      | _ => false
      end
  end.

Definition is_leap (y : N) : bool :=
  (y mod 4 =? 0) && (negb (y mod 100 =? 0) || (y mod 400 =? 0)).

Definition days_in (m y : N) : N :=
  if m =? 2 then (if is_leap y then 29 else 28)
  else if (m =? 4) || (m =? 6) || (m =? 9) || (m =? 11) then 30 else 31.

Definition rfc3339_gen (strict : bool) (s : str) : bool :=
  match num4 s with None => false | Some (year, s) =>
  match lit 45 s with None => false | Some s =>
  match num2 s with None => false | Some (month, s) =>
  match lit 45 s with None => false | Some s =>
  match num2 s with None => false | Some (day, s) =>
  match lit 84 s with None => false | Some s =>
  match (if strict then num2 s else num12 s) with None => false | Some (hour, s) =>
  match lit 58 s with None => false | Some s =>
  match num2 s with None => false | Some (minute, s) =>
  match lit 58 s with None => false | Some s =>
  match num2 s with None => false | Some (sec, s) =>
    (1 <=? month) && (month <=? 12) && (hour <? 24) && (minute <? 60) && (sec <? 60) &&
    (1 <=? day) && (day <=? days_in month year) && tz_ok strict (skip_frac strict s)
  end end end end end end end end end end end.

(* ensureAnnotationCreated -> validateRFC3339: time.Parse(time.RFC3339, v) must succeed and none of
   the explicit checks translated from pack.go (Generated: validateRFC3339_checks) may reject.
   Proofs/PackTime.v shows this equals [rfc3339_gen true]. *)
Definition rfc3339_ok (s : str) : bool :=
  rfc3339_gen false s && negb (switch_rejects s validateRFC3339_checks).
Definition rfc3339_ok_prefix : str -> bool := rfc3339_gen false.

(* ---------- annotations ---------- *)
Fixpoint ann_get (k : str) (l : list kv) : option str :=
  match l with
  | [] => None
  | (k', v) :: l' => if str_eqb k k' then Some v else ann_get k l'
  end.

(* ensureAnnotationCreated: None = ErrInvalidDateTimeFormat *)
Definition ensure_created (ann : list kv) (key now : str) : option (list kv) :=
  match ann_get key ann with
  | Some v => if rfc3339_ok v then Some ann else None
  | None => Some (ann ++ [(key, now)])
  end.

(* ---------- what encoding/json does to strings ---------- *)
(* json.Marshal coerces a Go string to valid UTF-8: every byte that does not start a well-formed
   UTF-8 sequence (utf8.DecodeRuneInString = RuneError, size 1) is replaced by U+FFFD.  So the
   document that can be read back from the stored bytes is [san_manifest m], not [m]. *)
Definition in_rng (lo hi c : N) : bool := (lo <=? c) && (c <=? hi).
Definition utf8_cont (c : N) : bool := in_rng 128 191 c.
Definition utf8_three (b0 b1 : N) : bool :=
  ((b0 =? 224) && in_rng 160 191 b1) || (in_rng 225 236 b0 && utf8_cont b1) ||
  ((b0 =? 237) && in_rng 128 159 b1) || (in_rng 238 239 b0 && utf8_cont b1).
Definition utf8_four (b0 b1 : N) : bool :=
  ((b0 =? 240) && in_rng 144 191 b1) || (in_rng 241 243 b0 && utf8_cont b1) ||
  ((b0 =? 244) && in_rng 128 143 b1).
Definition ufffd : str := [239; 191; 189].

Fixpoint utf8_san (s : str) : str :=
  match s with
  | [] => []
  | b0 :: r1 =>
    if b0 <? 128 then b0 :: utf8_san r1
    else
      match r1 with
      | [] => ufffd
      | b1 :: r2 =>
        if in_rng 194 223 b0 && utf8_cont b1 then b0 :: b1 :: utf8_san r2
        else
          match r2 with
          | [] => ufffd ++ utf8_san r1
          | b2 :: r3 =>
            if utf8_three b0 b1 && utf8_cont b2 then b0 :: b1 :: b2 :: utf8_san r3
            else
              match r3 with
              | [] => ufffd ++ utf8_san r1
              | b3 :: r4 =>
                if utf8_four b0 b1 && utf8_cont b2 && utf8_cont b3
                then b0 :: b1 :: b2 :: b3 :: utf8_san r4
                else ufffd ++ utf8_san r1
              end
          end
      end
  end.

Definition san_ann (l : list kv) : list kv := map (fun p => (utf8_san (fst p), utf8_san (snd p))) l.
Definition san_platform (p : platform) : platform :=
  mkPlatform (utf8_san (p_arch p)) (utf8_san (p_os p)) (utf8_san (p_osver p)) (map utf8_san (p_osfeat p))
             (utf8_san (p_variant p)).
(* the embedded data is bytes (base64 in JSON), not a string: untouched *)
Definition san_extra (x : dextra) : dextra :=
  mkExtra (map utf8_san (x_urls x)) (x_data x) (option_map san_platform (x_platform x)).
Definition san_desc (d : desc) : desc :=
  mkDesc (utf8_san (d_mt d)) (utf8_san (d_dg d)) (d_sz d) (san_ann (d_ann d)) (utf8_san (d_at d))
         (san_extra (d_extra d)).
Definition san_manifest (m : manifest) : manifest :=
  mkManifest (m_kind m) (option_map san_desc (m_config m)) (option_map (map san_desc) (m_layers m))
             (option_map san_desc (m_subject m)) (utf8_san (m_at m)) (san_ann (m_ann m)).

(* ---------- the target ---------- *)
(* how a target decides that two descriptors name the same content *)
Inductive keykind :=
| KFull        (* media type + digest + size: memory store, fallback of the file store *)
| KDigest      (* digest only: OCI layout *)
| KNamespace   (* digest within the manifest / blob namespace: a registry repository *)
| KFile.       (* file store (file.New defaults): a descriptor with a title annotation is a named file,
                  found by digest once its name is taken, refused when the name is taken at Push;
                  unnamed content lives in a fallback memory store keyed by media type + digest + size *)

Record tcfg := mkTcfg {
  t_exists : bool;     (* the pusher also implements content.ReadOnlyStorage *)
  t_key : keykind
}.

(* registry/remote/manifest.go defaultManifestMediaTypes (hand-written; tied by correspondence) *)
Definition manifest_media_types : list str :=
  [ b "application/vnd.docker.distribution.manifest.v2+json";
    b "application/vnd.docker.distribution.manifest.list.v2+json";
    MediaTypeImageManifest;
    b "application/vnd.oci.image.index.v1+json";
    MediaTypeArtifactManifest ].

Definition is_manifest_mt (mt : str) : bool := existsb (str_eqb mt) manifest_media_types.

(* [e_name]: the file name under which a file store holds the content ([] = unnamed / other targets) *)
Record entry := mkEntry { e_mt : str; e_dg : str; e_sz : Z; e_bytes : str; e_name : str }.

Inductive role := RBlob | RManifest.
Inductive event :=
| EvExists (d : desc)
| EvPush (r : role) (d : desc) (bytes : str).

Record state := mkState {
  s_store : list entry;
  s_ops : nat;              (* storage operations issued so far *)
  s_events : list event     (* in call order *)
}.

Definition full_key (d : desc) (e : entry) : bool :=
  str_eqb (d_mt d) (e_mt e) && (d_sz d =? e_sz e)%Z.

(* content/file: a descriptor with the title annotation is a named file *)
Definition AnnotationTitle : str := b "org.opencontainers.image.title".
Definition title (d : desc) : str :=
  match ann_get AnnotationTitle (d_ann d) with Some n => n | None => [] end.
Definition is_named (e : entry) : bool := negb (is_nil (e_name e)).
Definition name_exists (st : list entry) (n : str) : bool := existsb (fun e => str_eqb (e_name e) n) st.
Definition entry_name (k : keykind) (d : desc) : str := match k with KFile => title d | _ => [] end.

(* does entry e hold the content descriptor d asks for *)
Definition same_key (k : keykind) (d : desc) (e : entry) : bool :=
  str_eqb (d_dg d) (e_dg e) &&
  match k with
  | KDigest => true
  | KFull => full_key d e
  | KNamespace => Bool.eqb (is_manifest_mt (d_mt d)) (is_manifest_mt (e_mt e))
  | KFile => if is_named e then true else full_key d e
  end.

(* file.Store.Exists / Fetch: a titled descriptor is looked up only when its name is taken *)
Definition name_ok (k : keykind) (st : list entry) (d : desc) : bool :=
  match k with KFile => is_nil (title d) || name_exists st (title d) | _ => true end.

(* Exists *)
Definition stored (k : keykind) (st : list entry) (d : desc) : bool :=
  name_ok k st d && existsb (same_key k d) st.

(* Push answers ErrAlreadyExists (file store: only its unnamed fallback does) *)
Definition push_key (k : keykind) (d : desc) (e : entry) : bool :=
  match k with
  | KFile => negb (is_named e) && same_key k d e
  | _ => same_key k d e
  end.
Definition push_dup (k : keykind) (st : list entry) (d : desc) : bool := existsb (push_key k d) st.

(* Push fails for good: file.ErrDuplicateName, the name of a titled descriptor is taken *)
Definition push_refused (k : keykind) (st : list entry) (d : desc) : bool :=
  match k with KFile => negb (is_nil (title d)) && name_exists st (title d) | _ => false end.

Definition faulty (fa : option nat) (s : state) : bool :=
  match fa with Some k => Nat.eqb k (s_ops s) | None => false end.

Definition tick (s : state) (ev : event) : state :=
  mkState (s_store s) (S (s_ops s)) (s_events s ++ [ev]).

(* Exists: None = injected error *)
Definition do_exists (tc : tcfg) (fa : option nat) (s : state) (d : desc) : state * option bool :=
  let s' := tick s (EvExists d) in
  if faulty fa s then (s', None)
  else (s', Some (stored (t_key tc) (s_store s) d)).

(* Push: false = the storage operation failed (injected fault, or the target refused: duplicate
   name); ErrAlreadyExists is success for every caller in pack.go.  A titled descriptor goes to a
   file store as a named file without consulting the fallback. *)
Definition do_push (tc : tcfg) (fa : option nat) (s : state) (r : role) (d : desc) (bytes : str)
  : state * bool :=
  let s' := tick s (EvPush r d bytes) in
  let k := t_key tc in
  if faulty fa s then (s', false)
  else if push_refused k (s_store s) d then (s', false)
  else if is_nil (entry_name k d) && push_dup k (s_store s) d then (s', true)
  else (mkState (s_store s ++ [mkEntry (d_mt d) (d_dg d) (d_sz d) bytes (entry_name k d)]) (s_ops s') (s_events s'), true).

(* pushIfNotExist *)
Definition push_if_not_exist (tc : tcfg) (fa : option nat) (s : state) (d : desc) (bytes : str)
  : state * bool :=
  if t_exists tc then
    match do_exists tc fa s d with
    | (s1, None) => (s1, false)
    | (s1, Some true) => (s1, true)
    | (s1, Some false) => do_push tc fa s1 RBlob d bytes
    end
  else do_push tc fa s RBlob d bytes.

Inductive err :=
| EUnsupported | EInvalidMediaType | EMissingArtifactType | EInvalidDateTime | EInjected.

Inductive result := Err (e : err) | Ok (d : desc) (m : manifest).

Record opts := mkOpts {
  o_subject : option desc;
  o_layers : option (list desc);   (* None = nil slice *)
  o_ann : list kv;                 (* ManifestAnnotations *)
  o_config : option desc;          (* ConfigDescriptor *)
  o_config_ann : list kv           (* ConfigAnnotations *)
}.

Inductive fn := FV10 | FV11 | FBadVersion | FRC2 | FArtifact.

Definition is_empty (s : str) : bool := match s with [] => true | _ => false end.

Section Pack.
  Variable marshal : manifest -> str.   (* json.Marshal *)
  Variable H : str -> str.              (* digest.FromBytes(..).String() *)

  (* content.NewDescriptorFromBytes *)
  Definition desc_from_bytes (mt : str) (bytes : str) : desc :=
    mkDesc mt (H bytes) (Z.of_nat (length bytes)) [] [] no_extra.

  Definition with_ann (d : desc) (ann : list kv) : desc :=
    mkDesc (d_mt d) (d_dg d) (d_sz d) ann (d_at d) (d_extra d).

  (* pushManifest *)
  Definition push_manifest (tc : tcfg) (fa : option nat) (s : state) (m : manifest) (at_ : str)
    : state * result :=
    let bytes := marshal m in
    let d := mkDesc (kind_mt (m_kind m)) (H bytes) (Z.of_nat (length bytes)) (m_ann m) at_ no_extra in
    match do_push tc fa s RManifest d bytes with
    | (s', true) => (s', Ok d m)
    | (s', false) => (s', Err EInjected)
    end.

  (* pushCustomEmptyConfig *)
  Definition push_custom_empty_config (tc : tcfg) (fa : option nat) (s : state) (mt : str)
             (ann : list kv) : state * option desc :=
    let d := with_ann (desc_from_bytes mt empty_json) ann in
    match push_if_not_exist tc fa s d empty_json with
    | (s', true) => (s', Some d)
    | (s', false) => (s', None)
    end.

  Definition layers_or_empty (l : option (list desc)) : list desc :=
    match l with Some x => x | None => [] end.

  (* packManifestV1_0 *)
  Definition pack_v1_0 (tc : tcfg) (fa : option nat) (s : state) (at_ : str) (o : opts) (now : str)
    : state * result :=
    match o_subject o with
    | Some _ => (s, Err EUnsupported)
    | None =>
      let cfg : state * (err + desc) :=
        match o_config o with
        | Some c => if valid_media_type (d_mt c) then (s, inr c) else (s, inl EInvalidMediaType)
        | None =>
          if is_empty at_ then
            match push_custom_empty_config tc fa s MediaTypeUnknownConfig (o_config_ann o) with
            | (s1, Some c) => (s1, inr c)
            | (s1, None) => (s1, inl EInjected)
            end
          else if valid_media_type at_ then
            match push_custom_empty_config tc fa s at_ (o_config_ann o) with
            | (s1, Some c) => (s1, inr c)
            | (s1, None) => (s1, inl EInjected)
            end
          else (s, inl EInvalidMediaType)
        end in
      match cfg with
      | (s1, inl e) => (s1, Err e)
      | (s1, inr c) =>
        match ensure_created (o_ann o) AnnotationCreated now with
        | None => (s1, Err EInvalidDateTime)
        | Some ann =>
          push_manifest tc fa s1
            (mkManifest KImage (Some c) (Some (layers_or_empty (o_layers o))) None [] ann) (d_mt c)
        end
      end
    end.

  (* packManifestV1_1_RC2 (Pack with PackImageManifest) *)
  Definition pack_rc2 (tc : tcfg) (fa : option nat) (s : state) (cmt : str) (o : opts) (now : str)
    : state * result :=
    let cmt := if is_empty cmt then MediaTypeUnknownConfig else cmt in
    let cfg : state * (err + desc) :=
      match o_config o with
      | Some c => (s, inr c)
      | None =>
        match push_custom_empty_config tc fa s cmt (o_config_ann o) with
        | (s1, Some c) => (s1, inr c)
        | (s1, None) => (s1, inl EInjected)
        end
      end in
    match cfg with
    | (s1, inl e) => (s1, Err e)
    | (s1, inr c) =>
      match ensure_created (o_ann o) AnnotationCreated now with
      | None => (s1, Err EInvalidDateTime)
      | Some ann =>
        push_manifest tc fa s1
          (mkManifest KImage (Some c) (Some (layers_or_empty (o_layers o))) (o_subject o) [] ann)
          (d_mt c)
      end
    end.

  Definition config_is_empty_or_nil (o : opts) : bool :=
    match o_config o with None => true | Some c => str_eqb (d_mt c) MediaTypeEmptyJSON end.

  (* packManifestV1_1, after the validation of artifactType *)
  Definition pack_v1_1_body (tc : tcfg) (fa : option nat) (s : state) (at_ : str) (o : opts) (now : str)
    : state * result :=
    (* (state, error | (emptyBlobExists, configDesc)) *)
    let cfg : state * (err + (bool * desc)) :=
      match o_config o with
      | Some c => if valid_media_type (d_mt c) then (s, inr (false, c)) else (s, inl EInvalidMediaType)
      | None =>
        let c := with_ann DescriptorEmptyJSON (o_config_ann o) in
        match push_if_not_exist tc fa s c empty_json with
        | (s1, true) => (s1, inr (true, c))
        | (s1, false) => (s1, inl EInjected)
        end
      end in
    match cfg with
    | (s1, inl e) => (s1, Err e)
    | (s1, inr (empty_exists, c)) =>
      match ensure_created (o_ann o) AnnotationCreated now with
      | None => (s1, Err EInvalidDateTime)
      | Some ann =>
        let lay : state * option (list desc) :=
          match layers_or_empty (o_layers o) with
          | [] =>
            if empty_exists then (s1, Some [DescriptorEmptyJSON])
            else match push_if_not_exist tc fa s1 DescriptorEmptyJSON empty_json with
                 | (s2, true) => (s2, Some [DescriptorEmptyJSON])
                 | (s2, false) => (s2, None)
                 end
          | l => (s1, Some l)
          end in
        match lay with
        | (s2, None) => (s2, Err EInjected)
        | (s2, Some l) =>
          push_manifest tc fa s2 (mkManifest KImage (Some c) (Some l) (o_subject o) at_ ann) at_
        end
      end
    end.

  (* packManifestV1_1 *)
  Definition pack_v1_1 (tc : tcfg) (fa : option nat) (s : state) (at_ : str) (o : opts) (now : str)
    : state * result :=
    if is_empty at_ && config_is_empty_or_nil o then (s, Err EMissingArtifactType)
    else if negb (is_empty at_) && negb (valid_media_type at_) then (s, Err EInvalidMediaType)
    else pack_v1_1_body tc fa s at_ o now.

  (* packArtifact (Pack without PackImageManifest) *)
  Definition pack_artifact (tc : tcfg) (fa : option nat) (s : state) (at_ : str) (o : opts) (now : str)
    : state * result :=
    let at_ := if is_empty at_ then MediaTypeUnknownArtifact else at_ in
    match ensure_created (o_ann o) AnnotationArtifactCreated now with
    | None => (s, Err EInvalidDateTime)
    | Some ann =>
      let blobs := match layers_or_empty (o_layers o) with [] => None | l => Some l end in
      push_manifest tc fa s (mkManifest KArtifact None blobs (o_subject o) at_ ann) at_
    end.

  (* PackManifest / Pack *)
  Definition pack (f : fn) (tc : tcfg) (fa : option nat) (s : state) (at_ : str) (o : opts) (now : str)
    : state * result :=
    match f with
    | FV10 => pack_v1_0 tc fa s at_ o now
    | FV11 => pack_v1_1 tc fa s at_ o now
    | FBadVersion => (s, Err EUnsupported)
    | FRC2 => pack_rc2 tc fa s at_ o now
    | FArtifact => pack_artifact tc fa s at_ o now
    end.

  Definition init_state (st : list entry) : state := mkState st 0 [].
End Pack.

(* ---------- histories: any sequence of Pack / PackManifest calls on one target ---------- *)
Record call := mkCall { c_fn : fn; c_at : str; c_opts : opts; c_now : str }.

Section History.
  Variable marshal : manifest -> str.
  Variable H : str -> str.

  (* the fault plan counts the storage operations of the whole history *)
  Fixpoint run_calls (tc : tcfg) (fa : option nat) (s : state) (cs : list call) : state * list result :=
    match cs with
    | [] => (s, [])
    | c :: rest =>
      match pack marshal H (c_fn c) tc fa s (c_at c) (c_opts c) (c_now c) with
      | (s1, r1) =>
        match run_calls tc fa s1 rest with
        | (s2, rs) => (s2, r1 :: rs)
        end
      end
    end.
End History.

(* ---------- time.Now().UTC().Format(time.RFC3339) on a broken-down UTC time ---------- *)
Definition dig2 (n : N) : str := [48 + n / 10; 48 + n mod 10].
Definition dig4 (n : N) : str := [48 + n / 1000; 48 + (n / 100) mod 10; 48 + (n / 10) mod 10; 48 + n mod 10].

(* "2006-01-02T15:04:05Z07:00" with offset 0 *)
Definition format_rfc3339_utc (y mo d h mi s : N) : str :=
  dig4 y ++ [45] ++ dig2 mo ++ [45] ++ dig2 d ++ [84] ++ dig2 h ++ [58] ++ dig2 mi ++ [58] ++ dig2 s ++ [90].

(* what the runtime's clock guarantees of a UTC time before the year 10000 *)
Definition civil_ok (y mo d h mi s : N) : bool :=
  (y <=? 9999) && (1 <=? mo) && (mo <=? 12) && (1 <=? d) && (d <=? days_in mo y) &&
  (h <=? 23) && (mi <=? 59) && (s <=? 59).
