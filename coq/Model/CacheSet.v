(* C16 -- concurrentCache.Set under concurrency, as a transition system:
   the status map (statusKey -> *syncutil.Once), the Once instances, and the
   results the calls return.  A call is identified by a number; [calls g] gives
   its status key (registry, scheme, scope key) and where its fetch function
   takes its value from:
     csrc = None    a real fetch: the value is a fresh token, named after the call
     csrc = Some p  the constant function of fallbackCache.Set: the value is what
                    call p returned
   Token values are named after the real fetch that produced them, so
   "the token call g returned was fetched for the key of call v" is [ck (calls v)].
   status.Delete is a separate event (there is a window between closing the Once
   and deleting it from the map) and is over-approximated: a call may delete the
   mapping of its own instance at any time.
   No proofs in this file. *)
From Oras Require Import Base.Prelude Model.Challenge Model.Once.

Definition skey := (N * scheme * str)%type.

Definition skey_eqb (a b : skey) : bool :=
  let '(h1, s1, k1) := a in
  let '(h2, s2, k2) := b in
  (h1 =? h2) && scheme_eqb s1 s2 && str_eqb k1 k2.

Record call := mkCall { ck : skey; csrc : option N }.

Record cstate := mkC {
  status : list (skey * nat);
  insts : list (nat * (skey * ostate));
  next : nat;
  loaded : list (N * nat);
  results : list (N * N);
}.

Definition cinit : cstate := mkC [] [] 0 [] [].

Fixpoint status_get (m : list (skey * nat)) (k : skey) : option nat :=
  match m with
  | [] => None
  | (k', i) :: m' => if skey_eqb k k' then Some i else status_get m' k
  end.

Fixpoint status_del (m : list (skey * nat)) (k : skey) (i : nat) : list (skey * nat) :=
  match m with
  | [] => []
  | (k', i') :: m' =>
    if skey_eqb k k' && Nat.eqb i i' then status_del m' k i else (k', i') :: status_del m' k i
  end.

Fixpoint inst_get (m : list (nat * (skey * ostate))) (i : nat) : option (skey * ostate) :=
  match m with
  | [] => None
  | (i', x) :: m' => if Nat.eqb i i' then Some x else inst_get m' i
  end.

Fixpoint nget {A} (m : list (N * A)) (g : N) : option A :=
  match m with
  | [] => None
  | (g', x) :: m' => if g =? g' then Some x else nget m' g
  end.

Inductive cevent :=
| CLoad (g : N)                 (* status.LoadOrStore(statusKey, NewOnce()) *)
| COnce (g : N) (e : oevent)    (* a step of Once.Do on the loaded instance *)
| CDelete (g : N).              (* status.Delete(statusKey) *)

Definition ev_goroutine (e : oevent) : N :=
  match e with
  | OAcquire g | ODone g _ | OCancelF g | OReadClosed g _ | OCtxDone g => g
  end.

Definition cstep (calls : N -> call) (st : cstate) (e : cevent) : option cstate :=
  match e with
  | CLoad g =>
    match nget (loaded st) g with
    | Some _ => None
    | None =>
      let k := ck (calls g) in
      match status_get (status st) k with
      | Some i => Some (mkC (status st) (insts st) (next st) ((g, i) :: loaded st) (results st))
      | None =>
        let i := next st in
        Some (mkC ((k, i) :: status st) ((i, (k, OTok)) :: insts st) (S i) ((g, i) :: loaded st) (results st))
      end
    end
  | COnce g e =>
    if negb (ev_goroutine e =? g) then None else
    match nget (loaded st) g with
    | None => None
    | Some i =>
      match inst_get (insts st) i with
      | None => None
      | Some (k, s) =>
        let value_ok :=
          match e with
          | ODone _ v =>
            match csrc (calls g) with
            | None => v =? g
            | Some p => match nget (results st) p with Some w => v =? w | None => false end
            end
          | _ => true
          end in
        if negb value_ok then None else
        match ostep s e with
        | None => None
        | Some s' =>
          let res :=
            match e with
            | ODone _ v | OReadClosed _ v => (g, v) :: results st
            | _ => results st
            end in
          Some (mkC (status st) ((i, (k, s')) :: insts st) (next st) (loaded st) res)
        end
      end
    end
  | CDelete g =>
    match nget (loaded st) g with
    | None => None
    | Some i => Some (mkC (status_del (status st) (ck (calls g)) i) (insts st) (next st) (loaded st) (results st))
    end
  end.

Fixpoint crun (calls : N -> call) (st : cstate) (tr : list cevent) : option cstate :=
  match tr with
  | [] => Some st
  | e :: tr' => match cstep calls st e with Some st' => crun calls st' tr' | None => None end
  end.

(* call tables for the examples *)
Fixpoint table_calls (tbl : list (N * call)) (g : N) : call :=
  match tbl with
  | [] => mkCall (0, SchUnknown, []) None
  | (g', c) :: tbl' => if g =? g' then c else table_calls tbl' g
  end.

(* Acceptor for recorded executions: every event may carry the instance the
   harness saw the call use (pointer identity of the *syncutil.Once, numbered in
   order of first appearance = the order in which the model creates them). *)
Fixpoint crun_obs (calls : N -> call) (st : cstate) (tr : list (cevent * option nat)) : option cstate :=
  match tr with
  | [] => Some st
  | (e, exp) :: tr' =>
    match cstep calls st e with
    | None => None
    | Some st' =>
      let ok :=
        match e, exp with
        | CLoad g, Some i => match nget (loaded st') g with Some j => Nat.eqb i j | None => false end
        | _, _ => true
        end in
      if ok then crun_obs calls st' tr' else None
    end
  end.

Definition set_accepts (tbl : list (N * call)) (tr : list (cevent * option nat)) : bool :=
  match crun_obs (table_calls tbl) cinit tr with Some _ => true | None => false end.
