(* CopyHold -- C04's permit-holding overlay on the copyGraph transition system (Model/CopySpec.v).
   No proofs in this file.

   CopySpec's own guard counts a task as "active" between the first and the last visible event of
   a segment in which it certainly holds a permit, and treats every node in phase [Waiting] as
   inactive.  copyGraph.fn (copy.go) however releases the permit -- region.End() -- only
       if len(successors) != 0 { region.End(); syncutil.Go(successors); <wait>; region.Start() }
   i.e. for NON-LEAF nodes; a leaf (no successor after removeForeignLayers) keeps the permit it got
   from syncutil.Go's dispatch loop from before dst.Exists until its task ends (the deferred
   lr.End() of the errgroup closure).  This overlay states the holding intervals exactly as far as
   they are visible:

     holds n  :=  n's phase is active, or n is a leaf waiting for its PreCopy
     a permit is ACQUIRED at   ExB n                       (acquired by the dispatch loop before the
                                                            goroutine was spawned: held at the latest here)
                               PreCopy / MountFrom of a non-leaf n in [Waiting]   (region.Start())
     guard of an acquiring event: holders < K

   [step_h] is [step] with this stronger guard, so every trace accepted by [run_h] is accepted by
   [run] and all theorems about accepted traces apply; in addition holders <= K at every prefix
   (Proofs/CopyHold.v).  In the protocol model Model/CopyImpl.v the same intervals are the program
   counters of [must_hold]: TExists (ExQ), TFind (NeedFetch, MF1, MF2), TPush (a leaf goes from
   TFind straight to TPush; a non-leaf passes TEnd .. TStart without a permit). *)
From Oras Require Import Base.Prelude Model.CopySpec Model.CopyOpt Model.CopyCancel.
Local Open Scope nat_scope.

Definition leaf (g : graph) (n : node) : bool :=
  match succ' g n with [] => true | _ => false end.

(* the task of node n certainly holds a permit *)
Definition holds_ph (g : graph) (n : node) (p : phase) : bool :=
  active_ph p || (is_waiting p && leaf g n).

Definition holders (g : graph) (st : state) : nat :=
  length (filter (fun n => holds_ph g n (ph st n)) (seq 0 (g_n g))).

(* the event is the first visible sign of a freshly acquired permit *)
Definition acquires (g : graph) (st : state) (e : event) : bool :=
  match e with
  | ExB _ => true
  | Cb CPre n | CbFail CPre n | Cb CMountFrom n | CbFail CMountFrom n =>
      is_waiting (ph st n) && negb (leaf g n)
  | _ => false
  end.

Definition step_h (g : graph) (c : cfg) (st : state) (e : event) : option state :=
  if acquires g st e && negb (Nat.ltb (holders g st) (c_K c)) then None else step g c st e.

Fixpoint run_h (g : graph) (c : cfg) (st : state) (tr : list event) : option state :=
  match tr with
  | [] => Some st
  | e :: tr' => match step_h g c st e with Some st' => run_h g c st' tr' | None => None end
  end.

Definition accepts_h (g : graph) (c : cfg) (d0 : list node) (tr : list event) : option state :=
  run_h g c (init c d0) tr.

(* nil callbacks: Model/CopyOpt.step_opt over [run_h] *)
Definition step_opt_h (cs : cbset) (g : graph) (c : cfg) (st : state) (e : event) : option (state * list event) :=
  if nil_cb_event cs e then None else
  let pre := pre_events cs st e in
  match run_h g c st (pre ++ [e]) with
  | None => None
  | Some st2 =>
      let post := post_events cs st2 e in
      match run_h g c st2 post with
      | None => None
      | Some st3 => Some (st3, pre ++ [e] ++ post)
      end
  end.

Fixpoint run_opt_h (cs : cbset) (g : graph) (c : cfg) (st : state) (tr : list event) : option (state * list event) :=
  match tr with
  | [] => Some (st, [])
  | e :: tr' =>
      match step_opt_h cs g c st e with
      | None => None
      | Some (st1, full1) =>
          match run_opt_h cs g c st1 tr' with
          | None => None
          | Some (st2, full2) => Some (st2, full1 ++ full2)
          end
      end
  end.

Definition accepts_opt_h (cs : cbset) (g : graph) (c : cfg) (d0 : list node) (tr : list event) :=
  run_opt_h cs g c (init c d0) tr.

(* the cancellation layer (Model/CopyCancel.cstep_opt) over the overlay's nil-callback step *)
Definition cstep_opt_h (cs : cbset) (g : graph) (c : cfg) (s : cstate) (ce : cevent)
  : option (cstate * list event) :=
  match ce with
  | Cancel =>
      match returned (cs_st s) with
      | Some _ => None
      | None => Some (mkCState (cs_st s) true, [])
      end
  | Ev e =>
      match step_opt_h cs g c (cs_st s) e with
      | Some (st', full) => Some (mkCState st' (cs_cancelled s), full)
      | None =>
          match e, returned (cs_st s) with
          | Ret false, None => if cs_cancelled s then Some (mkCState (ret_false (cs_st s)) true, []) else None
          | _, _ => None
          end
      end
  end.

Fixpoint crun_opt_h (cs : cbset) (g : graph) (c : cfg) (s : cstate) (tr : list cevent)
  : option (cstate * list event) :=
  match tr with
  | [] => Some (s, [])
  | ce :: tr' =>
      match cstep_opt_h cs g c s ce with
      | None => None
      | Some (s1, f1) =>
          match crun_opt_h cs g c s1 tr' with
          | None => None
          | Some (s2, f2) => Some (s2, f1 ++ f2)
          end
      end
  end.

Definition caccepts_opt_h (cs : cbset) (g : graph) (c : cfg) (d0 : list node) (tr : list cevent) :=
  crun_opt_h cs g c (mkCState (init c d0) false) tr.
