(* C10 -- crash model of the OCI layout store (content/oci/oci.go, storage.go).

   Executable model only (no proofs).  Primitive operations: Push, Tag, Untag, plain
   Delete, SaveIndex, Forget (the in-memory half of GC).  Delete with AutoGC and GC are
   lists of primitives executed in a row (steps_seq); which nodes a cascade or a sweep
   visits is C09's subject.  [autosave] is Store.AutoSaveIndex.

   Every operation of an initialised store is compiled, in program order, to the
   list of file-system micro-steps it issues (one per mutating system call, plus
   the close of every file opened for writing).  A crash is a cut of that list
   at any position k: the process is killed before its k-th mutating system
   call.  Nothing written before the cut is lost (process crash, not power
   loss), rename is atomic.

   Blob contents are lists of write units ("chunks": the bytes handed to one
   write system call).  [H] is digest-and-size verification: a content [c]
   matches the name [d] iff [H c = d].  [shuffle] is Go's map iteration order in
   saveIndex: any function, indexed by the operation counter. *)
From Oras Require Import Base.Prelude Generated.GC10.

(* ---------- paths ---------- *)
Inductive fpath :=
| FLayout                       (* oci-layout *)
| FIndex                        (* index.json *)
| FIndexTmp (c : nat)           (* index.json.tmp<random>: temporary sibling, c = operation counter *)
| FBlob (d : N)                 (* blobs/sha256/<d> *)
| FIngest (d : N) (c : nat)     (* ingest/<d>_<random> *)
| FLayoutTmp (c : nat).         (* oci-layout.tmp<random>: temporary sibling during initialisation *)

(* blob names are pairs (algorithm, digest) encoded as 1000 * algorithm + n:
   algorithm 0 = sha256, 1 = sha512; blobs/<algorithm>/ is created by the first push into it *)
Definition alg_of (d : N) : N := d / 1000.
Inductive dpath := DBlobs | DAlg (a : N) | DIngest.

Definition fpath_eqb (p q : fpath) : bool :=
  match p, q with
  | FLayout, FLayout => true
  | FIndex, FIndex => true
  | FIndexTmp a, FIndexTmp b => Nat.eqb a b
  | FBlob a, FBlob b => N.eqb a b
  | FIngest a x, FIngest b y => N.eqb a b && Nat.eqb x y
  | FLayoutTmp a, FLayoutTmp b => Nat.eqb a b
  | _, _ => false
  end.

Definition dpath_eqb (p q : dpath) : bool :=
  match p, q with
  | DBlobs, DBlobs | DIngest, DIngest => true
  | DAlg a, DAlg b => N.eqb a b
  | _, _ => false
  end.

Definition is_temp (p : fpath) : bool :=
  match p with FIndexTmp _ | FIngest _ _ | FLayoutTmp _ => true | _ => false end.

(* ---------- file contents ---------- *)
Definition entry := (N * option N)%type.      (* index.json entry: blob name, ref-name annotation *)

Inductive atom :=
| AChunk (t : N)                (* one write unit of blob content *)
| AIndex (l : list entry)       (* the marshalled index, written by one write *)
| ALayout.                      (* {"imageLayoutVersion":"1.0.0"} *)

Record file := mkFile { fcontent : list atom; fro : bool }.

Record FS := mkFS { files : fpath -> option file; dirs : dpath -> bool }.

Definition upd (f : fpath -> option file) (p : fpath) (v : option file) : fpath -> option file :=
  fun q => if fpath_eqb q p then v else f q.

Definition exists_file (fs : FS) (p : fpath) : bool :=
  match files fs p with Some _ => true | None => false end.

(* ---------- micro-steps ---------- *)
Inductive mstep :=
| Mkdir (d : dpath)
| Create (p : fpath)            (* open O_CREAT|O_EXCL *)
| OpenTrunc (p : fpath)         (* open O_CREAT|O_TRUNC *)
| Write (p : fpath) (a : atom)  (* append one unit *)
| Chmod (p : fpath)             (* 0444 *)
| Close (p : fpath)
| Rename (p q : fpath)
| Unlink (p : fpath).

Definition apply1 (fs : FS) (m : mstep) : FS :=
  match m with
  | Mkdir d => mkFS (files fs) (fun q => if dpath_eqb q d then true else dirs fs q)
  | Create p =>
      match files fs p with
      | Some _ => fs
      | None => mkFS (upd (files fs) p (Some (mkFile [] false))) (dirs fs)
      end
  | OpenTrunc p => mkFS (upd (files fs) p (Some (mkFile [] false))) (dirs fs)
  | Write p a =>
      match files fs p with
      | Some f => mkFS (upd (files fs) p (Some (mkFile (fcontent f ++ [a]) (fro f)))) (dirs fs)
      | None => fs
      end
  | Chmod p =>
      match files fs p with
      | Some f => mkFS (upd (files fs) p (Some (mkFile (fcontent f) true))) (dirs fs)
      | None => fs
      end
  | Close _ => fs
  | Rename p q =>
      match files fs p with
      | Some f => mkFS (upd (upd (files fs) q (Some f)) p None) (dirs fs)
      | None => fs
      end
  | Unlink p => mkFS (upd (files fs) p None) (dirs fs)
  end.

Definition apply (ms : list mstep) (fs : FS) : FS := fold_left apply1 ms fs.

(* ---------- in-memory state of the Store ---------- *)
Record st := mkSt {
  sfs   : FS;
  stags : list (N * N);     (* tagResolver: ref -> blob name, keys unique *)
  sdigs : list N;           (* tagResolver: digest references ("tag by digest") *)
  sctr  : nat               (* operations executed so far: names temporaries, indexes shuffle *)
}.

Inductive op :=
| Push (d : N) (c : list N) (man : bool)   (* expected name, content units, IsManifest(expected) *)
| Tag (d r : N)
| Untag (r : N)
| Delete (d : N)
| SaveIndex
| TagDig (d : N)            (* Tag(desc, <the digest string of desc>): tag() enters the digest reference only *)
| Forget (live : list N).   (* the in-memory half of GC: digest references of content outside
                               [live] are dropped (tagged content always stays), then saveIndex *)

Inductive res := ROk | RExists | RNotFound | RMismatch | RInvalid | RInvalidRef.

Definition memN (x : N) (l : list N) : bool := existsb (N.eqb x) l.

Definition tag_set (r d : N) (tags : list (N * N)) : list (N * N) :=
  (r, d) :: filter (fun e => negb (fst e =? r)) tags.
Definition tag_del (r : N) (tags : list (N * N)) : list (N * N) :=
  filter (fun e => negb (fst e =? r)) tags.
Definition tag_get (r : N) (tags : list (N * N)) : option N :=
  match find (fun e => fst e =? r) tags with Some e => Some (snd e) | None => None end.
Definition dig_add (d : N) (digs : list N) : list N := if memN d digs then digs else d :: digs.

(* saveIndex: tagged descriptors with their ref name, then the descriptors only
   tagged by digest *)
Definition save (tags : list (N * N)) (digs : list N) : list entry :=
  map (fun e => (snd e, Some (fst e))) tags ++
  map (fun d => (d, None)) (filter (fun d => negb (existsb (fun e => snd e =? d) tags)) digs).

Section Model.
Variable H : list N -> N.
Variable shuffle : nat -> list entry -> list entry.
(* inplace = true is the code before the repair: os.WriteFile on index.json *)
Variable inplace : bool.
(* unlink_first = true: Store.delete removes the blob before it rewrites index.json
   (the order is read off the source, see src_unlink_first below) *)
Variable unlink_first : bool.
(* Store.AutoSaveIndex (default true): Push of a manifest, Tag, Untag, Delete and GC save
   index.json themselves; when false only SaveIndex writes it *)
Variable autosave : bool.

Definition index_steps (c : nat) (tags : list (N * N)) (digs : list N) : list mstep :=
  let l := shuffle c (save tags digs) in
  if inplace
  then [OpenTrunc FIndex; Write FIndex (AIndex l); Close FIndex]
  else [Create (FIndexTmp c); Write (FIndexTmp c) (AIndex l); Close (FIndexTmp c);
        Rename (FIndexTmp c) FIndex].

Definition auto_idx (c : nat) (tags : list (N * N)) (digs : list N) : list mstep :=
  if autosave then index_steps c tags digs else [].

Definition mkdirs (fs : FS) (d : N) : list mstep :=
  (if dirs fs (DAlg (alg_of d)) then [] else [Mkdir (DAlg (alg_of d))]) ++
  (if dirs fs DIngest then [] else [Mkdir DIngest]).

(* memory after the operation completed (the tag resolver) *)
Definition op_mem (s : st) (o : op) : list (N * N) * list N :=
  match o with
  | Push d c man =>
      if exists_file (sfs s) (FBlob d) then (stags s, sdigs s)
      else if negb (H c =? d) then (stags s, sdigs s)
      else if man then (stags s, dig_add d (sdigs s)) else (stags s, sdigs s)
  | Tag d r =>
      if exists_file (sfs s) (FBlob d) then (tag_set r d (stags s), dig_add d (sdigs s))
      else (stags s, sdigs s)
  | Untag r =>
      match tag_get r (stags s) with
      | Some _ => (tag_del r (stags s), sdigs s)
      | None => (stags s, sdigs s)
      end
  | Delete d =>
      (filter (fun e => negb (snd e =? d)) (stags s), filter (fun x => negb (x =? d)) (sdigs s))
  | SaveIndex => (stags s, sdigs s)
  | TagDig d =>
      if exists_file (sfs s) (FBlob d) then (stags s, dig_add d (sdigs s)) else (stags s, sdigs s)
  | Forget live =>
      (stags s, filter (fun x => memN x live || existsb (fun e => snd e =? x) (stags s)) (sdigs s))
  end.

Definition op_steps (s : st) (o : op) : list mstep :=
  let c := sctr s in
  let (tags', digs') := op_mem s o in
  match o with
  | Push d cont man =>
      if exists_file (sfs s) (FBlob d) then []
      else
        let t := FIngest d c in
        mkdirs (sfs s) d ++ [Create t] ++ map (fun x => Write t (AChunk x)) cont ++
        (if H cont =? d
         then [Chmod t; Close t; Rename t (FBlob d)] ++ (if man then auto_idx c tags' digs' else [])
         else [Close t; Unlink t])
  | Tag d r =>
      if exists_file (sfs s) (FBlob d) then auto_idx c tags' digs' else []
  | Untag r =>
      match tag_get r (stags s) with
      | Some _ => auto_idx c tags' digs'
      | None => []
      end
  | Delete d =>
      let ix := if existsb (fun e => snd e =? d) (stags s) || memN d (sdigs s)
                then auto_idx c tags' digs' else [] in
      let un := if exists_file (sfs s) (FBlob d) then [Unlink (FBlob d)] else [] in
      if unlink_first then un ++ ix else ix ++ un
  | SaveIndex => index_steps c tags' digs'
  | TagDig d => if exists_file (sfs s) (FBlob d) then auto_idx c tags' digs' else []
  | Forget _ => auto_idx c tags' digs'
  end.

Definition op_res (s : st) (o : op) : res :=
  match o with
  | Push d c man =>
      if exists_file (sfs s) (FBlob d) then RExists
      else if H c =? d then ROk else RMismatch
  | Tag d r => if exists_file (sfs s) (FBlob d) then ROk else RNotFound
  | Untag r => match tag_get r (stags s) with Some _ => ROk | None => RNotFound end
  | Delete d => if exists_file (sfs s) (FBlob d) then ROk else RNotFound
  | SaveIndex => ROk
  | TagDig d => if exists_file (sfs s) (FBlob d) then ROk else RNotFound
  | Forget _ => ROk
  end.

Definition run_op (s : st) (o : op) : st :=
  let (tags', digs') := op_mem s o in
  mkSt (apply (op_steps s o) (sfs s)) tags' digs' (S (sctr s)).

Definition run (h : list op) (s : st) : st := fold_left run_op h s.

(* One API call that performs several primitive operations in a row under the store's
   lock: Delete with AutoGC = plain deletes of the target, of its untagged referrers and of
   the content left dangling, in queue order; GC = Forget, then the plain delete of every
   blob file outside the live set, in directory order.  Which nodes a cascade or a sweep
   visits is C09's subject; here they are an arbitrary list. *)
Fixpoint steps_seq (s : st) (os : list op) : list mstep :=
  match os with
  | [] => []
  | o :: r => op_steps s o ++ steps_seq (run_op s o) r
  end.
Definition crash_seq (s : st) (os : list op) (k : nat) : FS :=
  apply (firstn k (steps_seq s os)) (sfs s).

(* the operation [o] interrupted before its k-th micro-step *)
Definition crash_fs (s : st) (o : op) (k : nat) : FS :=
  apply (firstn k (op_steps s o)) (sfs s).

(* oci.New on an empty directory: blobs/, oci-layout, index.json with no manifests *)
Definition init_fs : FS :=
  mkFS (fun p => match p with
                 | FLayout => Some (mkFile [ALayout] false)
                 | FIndex => Some (mkFile [AIndex []] false)
                 | _ => None
                 end)
       (fun d => match d with DBlobs => true | _ => false end).
Definition init : st := mkSt init_fs [] [] 0.

(* ---------- initialisation itself: oci.New on a directory that is not (yet) a layout ---------- *)
Definition empty_fs : FS := mkFS (fun _ => None) (fun _ => false).

(* layout_inplace = true is the code before the repair: os.WriteFile on oci-layout *)
Definition layout_steps (layout_inplace : bool) (c : nat) : list mstep :=
  if layout_inplace
  then [OpenTrunc FLayout; Write FLayout ALayout; Close FLayout]
  else [Create (FLayoutTmp c); Write (FLayoutTmp c) ALayout; Close (FLayoutTmp c);
        Rename (FLayoutTmp c) FLayout].

(* New: ensureDir(blobs); oci-layout is written when it does not exist (validated when it
   does); index.json is written (no manifests) when it does not exist (loaded when it does) *)
Definition new_steps (layout_inplace : bool) (fs : FS) (c : nat) : list mstep :=
  (if dirs fs DBlobs then [] else [Mkdir DBlobs]) ++
  (if exists_file fs FLayout then [] else layout_steps layout_inplace c) ++
  (if exists_file fs FIndex then [] else index_steps c [] []).

(* ---------- what a reader of the directory sees ---------- *)
Definition read_index (fs : FS) : option (list entry) :=
  match files fs FIndex with
  | Some f => match fcontent f with [AIndex l] => Some l | _ => None end
  | None => None
  end.

Definition layout_okb (fs : FS) : bool :=
  match files fs FLayout with
  | Some f => match fcontent f with [ALayout] => true | _ => false end
  | None => false
  end.

(* initialisation attempted repeatedly: every oci.New but the last is cut at ks[i] *)
Fixpoint init_attempts (layout_inplace : bool) (ks : list nat) (fs : FS) (c : nat) : FS * nat :=
  match ks with
  | [] => (fs, c)
  | k :: r => init_attempts layout_inplace r (apply (firstn k (new_steps layout_inplace fs c)) fs) (S c)
  end.

(* New does not fail on this directory: what exists parses *)
Definition new_okb (fs : FS) : bool :=
  (negb (exists_file fs FLayout) || layout_okb fs) &&
  (negb (exists_file fs FIndex) || match read_index fs with Some _ => true | None => false end).

(* ---------- crash, then oci.New on the directory that was left behind ---------- *)
(* loadIndex: every entry is tagged by its digest; an entry with a ref name is tagged by it
   too (a later entry with the same name wins) *)
Fixpoint load (l : list entry) (tags : list (N * N)) (digs : list N) : list (N * N) * list N :=
  match l with
  | [] => (tags, digs)
  | (n, Some r) :: l' => load l' (tag_set r n tags) (dig_add n digs)
  | (n, None) :: l' => load l' tags (dig_add n digs)
  end.

(* oci.New on an existing layout changes nothing on disk; leftover temporaries stay where
   they are.  [c] continues the operation counter (temporary names never repeat). *)
Definition reopen (fs : FS) (c : nat) : st :=
  match read_index fs with
  | Some l => mkSt fs (fst (load l [] [])) (snd (load l [] [])) c
  | None => mkSt fs [] [] c        (* oci.New fails: excluded by the theorems *)
  end.

(* a history in which operations complete or are interrupted (and the store is reopened) *)
Inductive hop := Done (o : op) | Crashed (o : op) (k : nat).

Definition run_hop (s : st) (x : hop) : st :=
  match x with
  | Done o => run_op s o
  | Crashed o k => reopen (crash_fs s o k) (S (sctr s))
  end.

Definition runc (h : list hop) (s : st) : st := fold_left run_hop h s.

(* ---------- the API of the Store: one call = a list of primitives ---------- *)
(* [mt d]: the descriptor of blob d carries a manifest media type; [dec d]: its bytes decode as
   a manifest (graph.Index / loadIndex succeed on it).  A manifest-typed blob that does not
   decode is stored by Storage.Push, fails graph.Index and is removed again (Store.Push);
   Store.Tag indexes a manifest-typed blob first and refuses it when that fails. *)
Variable mt : N -> bool.
Variable dec : N -> bool.

Inductive api :=
| APush (d : N) (c : list N)
| ATag (d r : N)
| AUntag (r : N)
| ATagDigest (d : N)                   (* Tag with the digest string as reference *)
| AUntagDigest (d : N)                 (* Untag of a digest string: refused *)
| ADelete (d : N) (cascade : list N)   (* AutoGC: the nodes deleted after d, in queue order *)
| ASaveIndex
| AGC (live sweep : list N)            (* live set of the mark phase; blobs swept, in directory order *)
| AReopen.                             (* oci.New on the existing layout: reads only *)

Definition expand (s : st) (a : api) : list op :=
  match a with
  | APush d c =>
      if mt d then
        if dec d then [Push d c true]
        else if exists_file (sfs s) (FBlob d) then [Push d c false]      (* AlreadyExists *)
        else if H c =? d then [Push d c false; Delete d]                 (* stored, unindexable, removed *)
        else [Push d c false]                                            (* verification fails first *)
      else [Push d c false]
  | ATag d r =>
      if exists_file (sfs s) (FBlob d) && mt d && negb (dec d) then [] else [Tag d r]
  | AUntag r => [Untag r]
  | ATagDigest d =>
      if exists_file (sfs s) (FBlob d) && mt d && negb (dec d) then [] else [TagDig d]
  | AUntagDigest _ => []
  | ADelete d cascade => Delete d :: map Delete cascade
  | ASaveIndex => [SaveIndex]
  | AGC live sweep => Forget live :: map Delete sweep
  | AReopen => []
  end.

Definition api_res (s : st) (a : api) : res :=
  match a with
  | APush d c =>
      match op_res s (Push d c false) with
      | ROk => if mt d && negb (dec d) then RInvalid else ROk
      | r => r
      end
  | ATag d r =>
      if exists_file (sfs s) (FBlob d) then (if mt d && negb (dec d) then RInvalid else ROk) else RNotFound
  | AUntag r => op_res s (Untag r)
  | ATagDigest d =>
      if exists_file (sfs s) (FBlob d) then (if mt d && negb (dec d) then RInvalid else ROk) else RNotFound
  | AUntagDigest d => if memN d (sdigs s) then RInvalidRef else RNotFound
  | ADelete d _ => op_res s (Delete d)
  | ASaveIndex | AGC _ _ | AReopen => ROk
  end.

(* a call interrupted after k micro-steps of its concatenated step list, then oci.New:
   the cut falls into one primitive (Proofs: seq_cut); the earlier ones completed *)
Fixpoint crash_ops (s : st) (os : list op) (k : nat) : st :=
  match os with
  | [] => reopen (sfs s) (S (sctr s))
  | o :: r =>
      let n := length (op_steps s o) in
      if Nat.leb k n then run_hop s (Crashed o k) else crash_ops (run_op s o) r (k - n)
  end.

Inductive acall := ADone (a : api) | ACrashed (a : api) (k : nat).

Definition run_acall (s : st) (x : acall) : st :=
  match x with
  | ADone a => run (expand s a) s
  | ACrashed a k => crash_ops s (expand s a) k
  end.

Definition runa (h : list acall) (s : st) : st := fold_left run_acall h s.

(* loadIndex succeeds on this directory: index.json parses, every entry names a blob file, and
   every manifest-typed entry decodes *)
Definition load_okb (fs : FS) : bool :=
  match read_index fs with
  | Some l => forallb (fun e => exists_file fs (FBlob (fst e)) && (negb (mt (fst e)) || dec (fst e))) l
  | None => false
  end.

Fixpoint chunks_of (l : list atom) : option (list N) :=
  match l with
  | [] => Some []
  | AChunk t :: l' => match chunks_of l' with Some c => Some (t :: c) | None => None end
  | _ :: _ => None
  end.

(* the blob file named d is complete and matches its name *)
Definition blob_okb (fs : FS) (d : N) : bool :=
  match files fs (FBlob d) with
  | None => true
  | Some f => match chunks_of (fcontent f) with Some c => H c =? d | None => false end
  end.

Definition entries_okb (fs : FS) (l : list entry) : bool :=
  forallb (fun e => exists_file fs (FBlob (fst e))) l.

Definition entry_eqb (a b : entry) : bool :=
  N.eqb (fst a) (fst b) &&
  match snd a, snd b with
  | Some x, Some y => N.eqb x y
  | None, None => true
  | _, _ => false
  end.
Fixpoint list_eqb {A} (eqb : A -> A -> bool) (x y : list A) : bool :=
  match x, y with
  | [], [] => true
  | a :: x', b :: y' => eqb a b && list_eqb eqb x' y'
  | _, _ => false
  end.
Definition oindex_eqb (a b : option (list entry)) : bool :=
  match a, b with
  | Some x, Some y => list_eqb entry_eqb x y
  | None, None => true
  | _, _ => false
  end.

(* executable form of Recoverable over a finite universe of blob names *)
Definition recoverableb (univ : list N) (fs0 fsk fs1 : FS) : bool :=
  layout_okb fsk &&
  forallb (blob_okb fsk) univ &&
  match read_index fsk with Some l => entries_okb fsk l | None => false end &&
  (oindex_eqb (read_index fsk) (read_index fs0) || oindex_eqb (read_index fsk) (read_index fs1)) &&
  forallb (fun d => implb (exists_file fs0 (FBlob d) && exists_file fs1 (FBlob d)) (exists_file fsk (FBlob d))) univ &&
  forallb (fun d => implb (exists_file fsk (FBlob d)) (exists_file fs0 (FBlob d) || exists_file fs1 (FBlob d))) univ.

End Model.

(* ---------- configuration read off the Go source (Generated/GC10.v, layer T) ---------- *)
(* writeIndexFile goes through writeFileAtomic = open(O_EXCL) a sibling, write, close, rename *)
Definition src_inplace : bool :=
  negb (list_eqb str_eqb calls_write_index [b "writeFileAtomic"] &&
        list_eqb str_eqb calls_write_atomic [b "os.OpenFile"; b "f.Write"; b "f.Close"; b "os.Rename"; b "os.Remove"]).
(* Store.delete: saveIndex before storage.Delete *)
Definition src_unlink_first : bool :=
  negb (list_eqb str_eqb calls_delete [b "s.saveIndex"; b "s.storage.Delete"]).
(* Store.GC: rebuild the maps, save index.json, only then remove blob files *)
(* control flow around the effects (translator kind callguards): the conditions under which the
   model's operations write index.json, index a manifest, remove a blob *)
Definition guard_eqb (x y : list (str * list str)) : bool :=
  list_eqb (fun a c => str_eqb (fst a) (fst c) && list_eqb str_eqb (snd a) (snd c)) x y.
Definition src_guards_ok : bool :=
  (* delete: saveIndex iff a reference went (or came back) and AutoSaveIndex; the unlink unconditionally *)
  guard_eqb guards_delete [(b "s.saveIndex", [b "indexChanged && s.AutoSaveIndex"]); (b "s.storage.Delete", [])] &&
  (* tag: by digest when the reference is not the digest, by reference always, save iff AutoSaveIndex *)
  guard_eqb guards_tag [(b "s.tagResolver.Tag", [b "reference != dgst"]); (b "s.tagResolver.Tag", []);
                        (b "s.saveIndex", [b "s.AutoSaveIndex"])] &&
  guard_eqb guards_untag [(b "s.tagResolver.Untag", []); (b "s.saveIndex", [b "s.AutoSaveIndex"])] &&
  (* Push: store, index, remove again iff indexing failed, tag iff manifest-typed *)
  guard_eqb guards_push [(b "s.storage.Push", []); (b "s.graph.Index", []);
                         (b "s.storage.Delete", [b "err != nil"]);
                         (b "s.tag", [b "descriptor.IsManifest(expected)"])] &&
  (* Tag: existence, index iff manifest-typed, tag *)
  guard_eqb guards_tag_api [(b "s.storage.Exists", []); (b "s.graph.Index", [b "descriptor.IsManifest(desc)"]);
                            (b "s.tag", [])] &&
  (* GC: save iff AutoSaveIndex; remove exactly the unreachable *)
  guard_eqb guards_gc [(b "s.saveIndex", [b "s.AutoSaveIndex"]);
                       (b "os.Remove", [b "!reachableNodes.Contains(blobDigest)"])] &&
  guard_eqb guards_saveindex [(b "s.saveIndex", [])] &&
  (* writeFileAtomic: rename iff everything before succeeded, the temp is removed only on error *)
  guard_eqb guards_write_atomic [(b "os.Rename", [b "err == nil"]); (b "os.Remove", [b "err != nil"])] &&
  (* Storage.Push: the temp is removed only when the rename failed *)
  guard_eqb guards_storage_push [(b "ensureDir", []); (b "s.ingest", []); (b "os.Rename", []);
                                 (b "os.Remove", [b "err != nil"])].

(* ensureOCILayoutFile writes oci-layout through writeFileAtomic *)
Definition src_layout_inplace : bool :=
  negb (list_eqb str_eqb calls_ensure_layout [b "writeFileAtomic"]).
Definition src_gc_order_ok : bool :=
  list_eqb str_eqb calls_gc [b "s.gcIndex"; b "s.saveIndex"; b "os.Remove"].
(* Store.Push: the blob is stored before it is tagged; Storage.Push: ingest then rename;
   ingest: create temp, copy+verify, chmod *)
Definition src_push_order_ok : bool :=
  list_eqb str_eqb calls_store_push [b "s.storage.Push"; b "s.tag"] &&
  list_eqb str_eqb calls_storage_push [b "s.ingest"; b "os.Rename"] &&
  list_eqb str_eqb calls_ingest [b "os.CreateTemp"; b "ioutil.CopyBuffer"; b "os.Chmod"].

(* initialisation and loading as modelled by new_steps / reopen / load / load_okb (callseq, callguards):
   NewWithContext = storage, blobs directory, oci-layout, index.json in this order; each of the two
   files is written (through writeFileAtomic / writeIndexFile) only when opening it failed, and is
   read and validated otherwise; loadIndex enters every entry by digest, by name iff it carries
   a reference name, and indexes (decodes) it *)
Definition src_init_ok : bool :=
  list_eqb str_eqb calls_new [b "NewStorage"; b "ensureDir"; b "store.ensureOCILayoutFile"; b "store.loadIndexFile"] &&
  guard_eqb guards_ensure_layout [(b "os.Open", []); (b "writeFileAtomic", [b "err != nil"]); (b "validateOCILayout", [])] &&
  guard_eqb guards_load_index_file [(b "os.Open", []); (b "s.writeIndexFile", [b "err != nil"]); (b "loadIndex", [])] &&
  guard_eqb guards_load_index [(b "tagger.Tag", []); (b "tagger.Tag", [b "ref != ''"]); (b "graph.IndexAll", [])].

(* lock discipline assumed by the two models (translator kind callseq with mark_defer):
   Push / Tag / Untag / SaveIndex hold the READ lock of Store.sync from their first statement to
   their return (so they interleave with one another: Model/OciCrashConc.v), Delete and GC hold
   the WRITE lock (so they run alone: sequential operations between concurrent batches);
   saveIndex holds indexLock from before the resolver snapshot until the file is renamed into
   place (TLockSnap .. TPublishIndex .. TUnlock is one critical section); the helpers tag and
   delete take no lock of their own (they run under their caller's). *)
Definition src_locks_ok : bool :=
  list_eqb str_eqb locks_push [b "s.sync.RLock"; b "defer s.sync.RUnlock"; b "s.storage.Push"; b "s.tag"] &&
  list_eqb str_eqb locks_tag [b "s.sync.RLock"; b "defer s.sync.RUnlock"; b "s.storage.Exists"; b "s.tag"] &&
  list_eqb str_eqb locks_untag [b "s.sync.RLock"; b "defer s.sync.RUnlock"; b "s.tagResolver.Untag"; b "s.saveIndex"] &&
  list_eqb str_eqb locks_saveindex_api [b "s.sync.RLock"; b "defer s.sync.RUnlock"; b "s.saveIndex"] &&
  list_eqb str_eqb locks_delete [b "s.sync.Lock"; b "defer s.sync.Unlock"; b "s.delete"] &&
  list_eqb str_eqb locks_gc [b "s.sync.Lock"; b "defer s.sync.Unlock"; b "s.gcIndex"; b "s.saveIndex"; b "os.Remove"] &&
  list_eqb str_eqb locks_saveindex [b "s.indexLock.Lock"; b "defer s.indexLock.Unlock"; b "s.tagResolver.Map"; b "s.writeIndexFile"] &&
  list_eqb str_eqb locks_tag_inner [b "s.tagResolver.Tag"; b "s.tagResolver.Tag"; b "s.saveIndex"] &&
  list_eqb str_eqb locks_delete_inner [b "s.saveIndex"; b "s.storage.Delete"].
