(* CopyOpt -- nil callbacks.  CopyGraphOptions' callbacks are optional; a nil
   callback leaves no event in the recorded trace.  The transition system of
   CopySpec is written over traces in which every callback invocation is an
   event (its phase changes are driven by them), so a recorded trace is first
   *elaborated*: the invocations of the nil callbacks are inserted at the only
   places the code can "not call" them --
     PostCopy nil      : right after the event that leaves the node waiting for PostCopy
     OnCopySkipped nil : right after dst.Exists answered true
     OnMounted nil     : right after Mount reported "mounted"
     PreCopy nil       : right before the node's next src.Fetch / dst.Push(Reference)
                         when it still waits for PreCopy
   -- and an event of a nil callback in the recorded trace is rejected.
   (MountFrom nil is [c_mount = false]: mountOrCopyNode then never tries to mount.)
   No proofs in this file. *)
From Oras Require Import Base.Prelude Model.CopySpec.
Local Open Scope nat_scope.

(* which callbacks of CopyGraphOptions are set *)
Definition cbset := cbk -> bool.

Definition ev_node (e : event) : option node :=
  match e with
  | ExB n | ExE n _ | SFB n | SFE n | SFC n | PuB n _ | PuE n _ _ | Cb _ n | CbFail _ n
  | MtB n | MtE n _ | TagB n | TagE n => Some n
  | Ret _ => None
  end.

(* the recorded trace may not contain an invocation of a nil callback *)
Definition nil_cb_event (cs : cbset) (e : event) : bool :=
  match e with Cb k _ | CbFail k _ => negb (cs k) | _ => false end.

Definition awaits_pre (p : phase) : bool :=
  match p with Waiting | MtRdy | Mounting => true | _ => false end.

Definition pre_events (cs : cbset) (st : state) (e : event) : list event :=
  match e with
  | SFB n | PuB n _ => if negb (cs CPre) && awaits_pre (ph st n) then [Cb CPre n] else []
  | _ => []
  end.

Definition post_events (cs : cbset) (st : state) (e : event) : list event :=
  match ev_node e with
  | Some n =>
      match ph st n with
      | PostP => if cs CPost then [] else [Cb CPost n]
      | SkipP => if cs CSkip then [] else [Cb CSkip n]
      | MountedP => if cs CMounted then [] else [Cb CMounted n]
      | _ => []
      end
  | None => []
  end.

(* one recorded event: the state after it and the elaborated events it stands for *)
Definition step_opt (cs : cbset) (g : graph) (c : cfg) (st : state) (e : event) : option (state * list event) :=
  if nil_cb_event cs e then None else
  let pre := pre_events cs st e in
  match run g c st (pre ++ [e]) with
  | None => None
  | Some st2 =>
      let post := post_events cs st2 e in
      match run g c st2 post with
      | None => None
      | Some st3 => Some (st3, pre ++ [e] ++ post)
      end
  end.

Fixpoint run_opt (cs : cbset) (g : graph) (c : cfg) (st : state) (tr : list event) : option (state * list event) :=
  match tr with
  | [] => Some (st, [])
  | e :: tr' =>
      match step_opt cs g c st e with
      | None => None
      | Some (st1, full1) =>
          match run_opt cs g c st1 tr' with
          | None => None
          | Some (st2, full2) => Some (st2, full1 ++ full2)
          end
      end
  end.

Definition accepts_opt (cs : cbset) (g : graph) (c : cfg) (d0 : list node) (tr : list event) :=
  run_opt cs g c (init c d0) tr.

(* erase the invocations of nil callbacks *)
Definition erase (cs : cbset) (tr : list event) : list event :=
  filter (fun e => negb (nil_cb_event cs e)) tr.

Definition all_set : cbset := fun _ => true.
