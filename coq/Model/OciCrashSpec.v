(* C10 -- the specification side: what "recoverable" means for a directory
   found after a crash.  Definitions only. *)
From Oras Require Import Base.Prelude Model.OciCrash.

Section Spec.
Variable H : list N -> N.

Definition has (fs : FS) (p : fpath) : Prop := files fs p <> None.

(* oci-layout parses *)
Definition layout_ok (fs : FS) : Prop :=
  exists f, files fs FLayout = Some f /\ fcontent f = [ALayout].

(* every file under blobs/ is complete and matches its name *)
Definition blob_ok (fs : FS) : Prop :=
  forall d f, files fs (FBlob d) = Some f ->
    exists c, fcontent f = map AChunk c /\ H c = d.

(* index.json parses and every entry names an existing blob *)
Definition index_ok (fs : FS) : Prop :=
  exists l, read_index fs = Some l /\ forall e, In e l -> has fs (FBlob (fst e)).

(* the tag mapping a reader derives from index.json: ref name -> blob *)
Definition tag_of (l : list entry) (r n : N) : Prop := In (n, Some r) l.
Definition same_tags (fs fs' : FS) : Prop :=
  exists l l', read_index fs = Some l /\ read_index fs' = Some l' /\
               forall r n, tag_of l r n <-> tag_of l' r n.

(* fsk: the directory found after the crash; fs0 / fs1: the directory before the
   interrupted operation / after it, had it completed *)
Definition Recoverable (fs0 fsk fs1 : FS) : Prop :=
  layout_ok fsk /\ blob_ok fsk /\ index_ok fsk /\
  (read_index fsk = read_index fs0 \/ read_index fsk = read_index fs1) /\
  (forall d, has fs0 (FBlob d) -> has fs1 (FBlob d) -> has fsk (FBlob d)) /\
  (forall d, has fsk (FBlob d) -> has fs0 (FBlob d) \/ has fs1 (FBlob d)).

(* ---------- sequential specification of completed operations ---------- *)
(* blobs present and tag map after a history, as a client understands the API *)
Definition spec_blobs_step (bs : N -> bool) (o : op) : N -> bool :=
  match o with
  | Push d c _ => if bs d then bs else if H c =? d then (fun x => if x =? d then true else bs x) else bs
  | Delete d => fun x => if x =? d then false else bs x
  | _ => bs
  end.
Definition spec_tags_step (bs : N -> bool) (tg : N -> option N) (o : op) : N -> option N :=
  match o with
  | Tag d r => if bs d then (fun x => if x =? r then Some d else tg x) else tg
  | Untag r => fun x => if x =? r then None else tg x
  | Delete d => fun x => match tg x with Some n => if n =? d then None else Some n | None => None end
  | _ => tg
  end.
Fixpoint spec_run (h : list op) (bs : N -> bool) (tg : N -> option N) : (N -> bool) * (N -> option N) :=
  match h with
  | [] => (bs, tg)
  | o :: h' => spec_run h' (spec_blobs_step bs o) (spec_tags_step bs tg o)
  end.

(* ---------- completed effects across earlier crashes ---------- *)
(* blob d was stored by a push that RETURNED (Done) and no operation since -- completed or
   interrupted -- was a Delete of d (cascades and sweeps are sequences of such deletes) *)
Definition stored_step (d : N) (acc : bool) (x : hop) : bool :=
  match x with
  | Done (Push d' c _) => if (d' =? d) && (H c =? d) then true else acc
  | Done (Delete d') | Crashed (Delete d') _ => if d' =? d then false else acc
  | _ => acc
  end.
Definition stored_since (d : N) (h : list hop) : bool := fold_left (stored_step d) h false.

(* reference r was set to blob d by a Tag that RETURNED while d was stored (so it succeeded),
   and no operation since -- completed or interrupted -- was a Tag or Untag of r or a
   Delete of d.  State: (d stored since, r -> d since). *)
Definition tagged_step (d r : N) (acc : bool * bool) (x : hop) : bool * bool :=
  let st' := stored_step d (fst acc) x in
  match x with
  | Done (Tag d' r') => if r' =? r then (st', (d' =? d) && fst acc) else (st', snd acc)
  | Crashed (Tag _ r') _ | Done (Untag r') | Crashed (Untag r') _ =>
      if r' =? r then (st', false) else (st', snd acc)
  | Done (Delete d') | Crashed (Delete d') _ => if d' =? d then (st', false) else (st', snd acc)
  | _ => (st', snd acc)
  end.
Definition tagged_since (d r : N) (h : list hop) : bool :=
  snd (fold_left (tagged_step d r) h (false, false)).

(* ---------- nothing is invented, across crashes ---------- *)
Definition hop_op (x : hop) : op := match x with Done o | Crashed o _ => o end.
(* some operation of the history (completed or interrupted) pushed verified content named d *)
Definition pushed_in (d : N) (h : list hop) : Prop :=
  exists x c m, In x h /\ hop_op x = Push d c m /\ H c = d.
(* some operation of the history (completed or interrupted) was Tag d r *)
Definition tagged_in (d r : N) (h : list hop) : Prop :=
  exists x, In x h /\ hop_op x = Tag d r.

End Spec.
