(* CopyImplRegion: syncutil.LimitedRegion (internal/syncutil/limit.go) over the semaphore model of
   Model/CopyImplSem.v.  A region is owned by one goroutine; its `ended` flag makes Start / End
   idempotent:
     Start: if !ended -> nil, nothing happens;  else Acquire(ctx, 1); on nil: ended = false
     End:   if ended -> nothing;                else Release(1); ended = true
   While the goroutine is blocked inside Acquire it cannot call anything (RPending).  No proofs here. *)
From Coq Require Import List Arith Bool.
From Oras Require Import Model.CopyImplSem.
Import ListNotations.

Inductive rstate := REnded | RPending | RStarted.
Record rsys := mkR { r_sem : sem; r_reg : nat -> rstate }.

Inductive rop :=
| RStart (w : nat) (ctxdone : bool)   (* region w: Start(); ctxdone = its ctx is done at the call *)
| REnd (w : nat)                      (* region w: End() *)
| RWake (w : nat) (ctxdone : bool)    (* the pending Acquire of region w returns (granted, or granted-then-cancelled) *)
| RCancel (w : nat).                  (* the pending Acquire of region w fails: ctx done while queued *)

Definition rset (f : nat -> rstate) (w : nat) (x : rstate) : nat -> rstate :=
  fun j => if Nat.eqb j w then x else f j.

Definition rinit (n : nat) : rsys := mkR (ssize_init n) (fun _ => REnded).

(* None = the operation is impossible (blocked goroutine) or the semaphore would panic *)
Definition rstep (x : rsys) (o : rop) : option rsys :=
  match o with
  | RStart w d =>
      match r_reg x w with
      | RStarted => Some x                                   (* !ended: return nil *)
      | RPending => None                                     (* the goroutine is blocked in Acquire *)
      | REnded =>
          match sstep (r_sem x) (SAcquire w d) with
          | Some (s', RGranted) => Some (mkR s' (rset (r_reg x) w RStarted))
          | Some (s', RBlocked) => Some (mkR s' (rset (r_reg x) w RPending))
          | Some (s', _) => Some (mkR s' (r_reg x))          (* Acquire failed: ended stays true *)
          | None => None
          end
      end
  | REnd w =>
      match r_reg x w with
      | REnded => Some x                                     (* ended: nothing *)
      | RPending => None
      | RStarted =>
          match sstep (r_sem x) SRelease with
          | Some (s', _) => Some (mkR s' (rset (r_reg x) w REnded))
          | None => None                                     (* "semaphore: released more than held" *)
          end
      end
  | RWake w d =>
      match r_reg x w with
      | RPending =>
          match sstep (r_sem x) (SWake w d) with
          | Some (s', _) => Some (mkR s' (rset (r_reg x) w (if d then REnded else RStarted)))
          | None => None
          end
      | _ => None
      end
  | RCancel w =>
      match r_reg x w with
      | RPending =>
          match sstep (r_sem x) (SCancel w) with
          | Some (s', _) => Some (mkR s' (rset (r_reg x) w REnded))
          | None => None
          end
      | _ => None
      end
  end.
