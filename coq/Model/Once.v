(* C16 -- internal/syncutil/once.go: Once.Do as a labelled transition system.
   The status channel (capacity 1) is either holding the value true (nobody is
   running f), empty because goroutine g took the value and is running f, or
   closed after a result was stored.  Events are the visible steps of the
   goroutines calling Do; any interleaving of any number of callers is a list of
   events, executable as a trace acceptor.  No proofs in this file. *)
From Oras Require Import Base.Prelude.

Inductive ostate :=
| OTok                (* channel holds true *)
| OHeld (g : N)       (* g received true and is inside f *)
| OClosed (v : N).    (* result v stored, channel closed *)

Inductive oevent :=
| OAcquire (g : N)            (* g receives true from the channel and calls f *)
| ODone (g : N) (v : N)       (* f returned v (value or non-cancellation error): store, close, return (true, v) *)
| OCancelF (g : N)            (* f returned an error that Is context.Canceled/DeadlineExceeded (possibly wrapped,
                                 as net/http does; since fix 93f5889): put true back, return (false, nil, err) *)
| OReadClosed (g : N) (v : N) (* g receives from the closed channel and returns (false, v) *)
| OCtxDone (g : N).           (* g's own context is done while waiting: return (false, nil, ctx.Err()) *)

Definition ostep (s : ostate) (e : oevent) : option ostate :=
  match s, e with
  | OTok, OAcquire g => Some (OHeld g)
  | OHeld g, ODone g' v => if g =? g' then Some (OClosed v) else None
  | OHeld g, OCancelF g' => if g =? g' then Some OTok else None
  | OClosed v, OReadClosed _ v' => if v =? v' then Some s else None
  | OHeld g, OCtxDone g' => if g =? g' then None else Some s
  | _, OCtxDone _ => Some s
  | _, _ => None
  end.

Fixpoint orun (s : ostate) (tr : list oevent) : option ostate :=
  match tr with
  | [] => Some s
  | e :: tr' => match ostep s e with Some s' => orun s' tr' | None => None end
  end.

Definition once_accepts_ev (tr : list oevent) : bool :=
  match orun OTok tr with Some _ => true | None => false end.

Definition once_accepts := once_accepts_ev.
