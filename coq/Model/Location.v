(* Model/Location.v -- step 2 of the two-step blob upload
   (blobStore.completePushAfterInitialPost): where the PUT goes, computed from the
   URL of the POST and the Location header of its 202 answer, as string manipulation:
     - an absolute-path Location inherits scheme and authority of the POST;
     - an absolute Location is followed as it is;
     - the work-around for registries behind port 443 that answer with a Location
       without the port (oras-go issue 177): the port is added back;
     - the query of the Location is kept and `digest=<digest>` is set (url.Values.Set
       + Encode: one value per key, keys sorted, ':' escaped).
   Executable, no proofs.  Only plain URLs are judged (no user info, no IPv6 literal,
   unreserved characters in path and query); everything else prints UNJUDGED. *)
From Oras Require Import Base.Prelude.

Record url := mkUrl {
  u_scheme : str; u_host : str; u_port : str;      (* port "" = none *)
  u_path : str; u_query : list (str * str) }.

Inductive loc :=
| LAbs (u : url)                                   (* scheme://authority/path?query *)
| LPath (path : str) (query : list (str * str)).   (* /path?query *)

Definition resolve (req : url) (l : loc) : url :=
  match l with
  | LAbs u => u
  | LPath p q => mkUrl (u_scheme req) (u_host req) (u_port req) p q
  end.

Definition port443 : str := b "443".

(* "if location port 443 is missing, add it back" *)
Definition needs_repair (req l : url) : bool :=
  str_eqb (u_port req) port443 && str_eqb (u_host l) (u_host req) && str_eqb (u_port l) [].

Definition repair (req l : url) : url :=
  if needs_repair req l then mkUrl (u_scheme l) (u_host l) port443 (u_path l) (u_query l) else l.

(* byte-wise lexicographic order (Go string order) *)
Fixpoint str_ltb (x y : str) : bool :=
  match x, y with
  | [], [] => false
  | [], _ :: _ => true
  | _ :: _, [] => false
  | c :: x', d :: y' => if c <? d then true else if d <? c then false else str_ltb x' y'
  end.

Fixpoint insert_sorted (kv : str * str) (q : list (str * str)) : list (str * str) :=
  match q with
  | [] => [kv]
  | kv' :: r => if str_ltb (fst kv') (fst kv) then kv' :: insert_sorted kv r else kv :: q
  end.
Definition sort_query (q : list (str * str)) : list (str * str) := fold_right insert_sorted [] q.

Definition k_digest : str := b "digest".

(* q.Set("digest", d); RawQuery = q.Encode() *)
Definition set_digest (dg : str) (q : list (str * str)) : list (str * str) :=
  sort_query ((k_digest, dg) :: filter (fun kv => negb (str_eqb (fst kv) k_digest)) q).

Definition put_url (req : url) (l : loc) (dg : str) : url :=
  let u := repair req (resolve req l) in
  mkUrl (u_scheme u) (u_host u) (u_port u) (u_path u) (set_digest dg (u_query u)).

(* ---------- plain-URL parsing and printing (correspondence only) ---------- *)

Definition c_colon := 58. Definition c_slash := 47. Definition c_qm := 63.
Definition c_amp := 38. Definition c_eq := 61.

Definition unreserved (c : N) : bool :=
  ((48 <=? c) && (c <=? 57)) || ((65 <=? c) && (c <=? 90)) || ((97 <=? c) && (c <=? 122))
  || (c =? 45) || (c =? 46) || (c =? 95) || (c =? 126).
Definition path_char (c : N) : bool := unreserved c || (c =? c_slash).
Definition host_char (c : N) : bool := unreserved c.
Definition is_digit (c : N) : bool := (48 <=? c) && (c <=? 57).

Fixpoint split_on (c : N) (s : str) : str * option str :=
  match s with
  | [] => ([], None)
  | d :: r => if d =? c then ([], Some r)
              else let '(a, rest) := split_on c r in (d :: a, rest)
  end.

Fixpoint split_all (c : N) (s : str) (fuel : nat) : list str :=
  match fuel with
  | O => [s]
  | S f => match split_on c s with
           | (a, None) => [a]
           | (a, Some r) => a :: split_all c r f
           end
  end.

Definition parse_query (s : str) : option (list (str * str)) :=
  match s with
  | [] => Some []
  | _ =>
      let parts := split_all c_amp s (length s) in
      fold_right (fun part acc =>
                    match acc, split_on c_eq part with
                    | Some l, (k, Some v) =>
                        if forallb unreserved k && forallb unreserved v
                           && negb (str_eqb k []) && negb (existsb (fun kv => str_eqb (fst kv) k) l)
                        then Some ((k, v) :: l) else None
                    | _, _ => None
                    end) (Some []) parts
  end.

(* "." and ".." segments are removed by URL reference resolution (net/url): not judged *)
Definition has_dot_segment (p : str) : bool :=
  existsb (fun seg => str_eqb seg (b ".") || str_eqb seg (b "..")) (split_all c_slash p (length p)).

Definition parse_path_query (s : str) : option (str * list (str * str)) :=
  let '(p, q) := split_on c_qm s in
  if forallb path_char p && negb (has_dot_segment p) then
    match q with
    | None => Some (p, [])
    | Some qs => match parse_query qs with Some l => Some (p, l) | None => None end
    end
  else None.

Definition parse_authority (s : str) : option (str * str) :=
  let '(h, p) := split_on c_colon s in
  match h with
  | [] => None
  | _ => if forallb host_char h then
           match p with
           | None => Some (h, [])
           | Some ps => match ps with
                        | [] => None
                        | _ => if forallb is_digit ps then Some (h, ps) else None
                        end
           end
         else None
  end.

Definition sep : str := b "://".

Fixpoint strip_prefix (p s : str) : option str :=
  match p, s with
  | [], _ => Some s
  | c :: p', d :: s' => if c =? d then strip_prefix p' s' else None
  | _ :: _, [] => None
  end.

Definition http_s : str := b "http". Definition https_s : str := b "https".

(* a Location header value *)
Definition parse_loc (s : str) : option loc :=
  match s with
  | c :: r =>
      if c =? c_slash then
        match r with
        | d :: _ => if d =? c_slash then None
                    else match parse_path_query s with Some (p, q) => Some (LPath p q) | None => None end
        | [] => Some (LPath s [])
        end
      else
        let try (sch : str) :=
          match strip_prefix (sch ++ sep) s with
          | Some rest =>
              let '(auth, tail) := split_on c_slash rest in
              match tail, parse_authority auth with
              | Some t, Some (h, p) =>
                  match parse_path_query (c_slash :: t) with
                  | Some (pa, q) => Some (LAbs (mkUrl sch h p pa q))
                  | None => None
                  end
              | _, _ => None
              end
          | None => None
          end in
        match try https_s with
        | Some l => Some l
        | None => try http_s
        end
  | [] => None
  end.

Definition esc_value (v : str) : option str :=
  (* url.QueryEscape on the characters a digest can contain *)
  if forallb (fun c => unreserved c || (c =? c_colon)) v then
    Some (flat_map (fun c => if c =? c_colon then b "%3A" else [c]) v)
  else None.

Fixpoint show_query (q : list (str * str)) : option str :=
  match q with
  | [] => Some []
  | (k, v) :: r =>
      match esc_value v, show_query r with
      | Some ev, Some rs => Some (k ++ [c_eq] ++ ev ++ match r with [] => [] | _ => [c_amp] ++ rs end)
      | _, _ => None
      end
  end.

Definition show_url (u : url) : option str :=
  match show_query (u_query u) with
  | Some qs =>
      Some (u_scheme u ++ sep ++ u_host u ++ (match u_port u with [] => [] | p => [c_colon] ++ p end)
            ++ u_path u ++ match qs with [] => [] | _ => [c_qm] ++ qs end)
  | None => None
  end.

(* the PUT URL for a POST to scheme://host[:port]/v2/<repo>/blobs/uploads/ answered with
   Location [ls]; None = not judged *)
Definition put_url_str (scheme host port ls dg : str) : option str :=
  match parse_loc ls with
  | Some l => show_url (put_url (mkUrl scheme host port [] []) l dg)
  | None => None
  end.
