(* C16 -- executable model of registry/remote/auth/challenge.go: parseChallenge.
   Bytes >= 0x80 are never token characters (IndexFunc decodes them to runes
   above 'z' or to RuneError), so the byte-wise scan is exact.
   strconv.QuotedPrefix/Unquote is modelled only for quoted strings without
   bytes >= 0x80 and with the escapes backslash-backslash and backslash-quote
   only (otherwise the verdict is Unjudged).
   No proofs in this file. *)
From Oras Require Import Base.Prelude Generated.GC16.

Inductive scheme := SchUnknown | SchBasic | SchBearer.

Definition scheme_eqb (a b : scheme) : bool :=
  match a, b with
  | SchUnknown, SchUnknown | SchBasic, SchBasic | SchBearer, SchBearer => true
  | _, _ => false
  end.

Definition in_range (lo hi c : N) : bool := (lo <=? c) && (c <=? hi).

(* tchar of RFC 7230: "!#$%&'*+-.^_`|~" DIGIT ALPHA *)
Definition is_tchar (c : N) : bool :=
  in_range 65 90 c || in_range 97 122 c || in_range 48 57 c ||
  existsb (fun d => d =? c) tcharSpecials.   (* Generated.GC16: the literal in isNotTokenChar *)

Fixpoint parse_token (s : str) : str * str :=
  match s with
  | [] => ([], [])
  | c :: s' => if is_tchar c then let (t, r) := parse_token s' in (c :: t, r) else ([], s)
  end.

Fixpoint skip_space (s : str) : str :=
  match s with
  | c :: s' => if (c =? 32) || (c =? 9) then skip_space s' else s
  | [] => []
  end.

Definition lower (c : N) : N := if in_range 65 90 c then c + 32 else c.

Definition eq_fold (s t : str) : bool := str_eqb (map lower s) (map lower t).

Definition parse_scheme (s : str) : scheme :=
  if eq_fold s schemeNameBasic then SchBasic
  else if eq_fold s schemeNameBearer then SchBearer
  else SchUnknown.

(* the body of a quoted string: Some (Some (value, rest)) ok; Some None = error
   (parseChallenge returns what it has); None = outside the modelled subset *)
Fixpoint quoted_body (s : str) : option (option (str * str)) :=
  match s with
  | [] => Some None
  | c :: s' =>
    if c =? 34 then Some (Some ([], s'))
    else if c =? 92 then
      (* escapes: only backslash-backslash and backslash-quote are modelled *)
      match s' with
      | e :: s'' =>
        if (e =? 92) || (e =? 34) then
          match quoted_body s'' with
          | Some (Some (v, r)) => Some (Some (e :: v, r))
          | x => x
          end
        else None
      | [] => Some None
      end
    else if 128 <=? c then None
    else if c =? 10 then Some None
    else match quoted_body s' with
         | Some (Some (v, r)) => Some (Some (c :: v, r))
         | x => x
         end
  end.

Definition params := list (str * str).

Fixpoint set_param (k v : str) (p : params) : params :=
  match p with
  | [] => [(k, v)]
  | (k', v') :: p' => if str_eqb k k' then (k, v) :: p' else (k', v') :: set_param k v p'
  end.

Fixpoint get_param (k : str) (p : params) : str :=
  match p with
  | [] => []
  | (k', v') :: p' => if str_eqb k k' then v' else get_param k p'
  end.

(* the parameter loop; fuel = length of the input is enough (each round consumes
   at least one byte).  None = Unjudged. *)
Fixpoint parse_params (fuel : nat) (rest : str) (acc : params) : option params :=
  match fuel with
  | O => Some acc
  | S fuel' =>
    let (key, rest1) := parse_token (skip_space rest) in
    match key with
    | [] => Some acc
    | _ =>
      match skip_space rest1 with
      | [] => Some acc
      | c :: rest2 =>
        if negb (c =? 61) then Some acc
        else
          match skip_space rest2 with
          | [] => Some acc
          | q :: rest3 =>
            let cont (value rest4 : str) :=
              let acc' := set_param key value acc in
              match skip_space rest4 with
              | [] => Some acc'
              | d :: rest5 => if d =? 44 then parse_params fuel' rest5 acc' else Some acc'
              end in
            if q =? 34 then
              match quoted_body rest3 with
              | None => None
              | Some None => Some acc
              | Some (Some (v, r)) => cont v r
              end
            else
              let (value, rest4) := parse_token (q :: rest3) in
              match value with
              | [] => Some acc
              | _ => cont value rest4
              end
          end
      end
    end
  end.

Inductive challenge :=
| ChUnjudged
| Ch (s : scheme) (p : params).

Definition parse_challenge (h : str) : challenge :=
  let (tok, rest) := parse_token h in
  match parse_scheme tok with
  | SchBearer =>
    match parse_params (S (length rest)) rest [] with
    | None => ChUnjudged
    | Some p => Ch SchBearer p
    end
  | s => Ch s []
  end.
