(* C06 -- abstract specification of the file store (no proofs in this file): the set of written
   names, ONE content map by digest for everything reachable through a named file (the
   digestToPath -> path -> file indirection of content/file is gone), the fallback content map
   by descriptor key, the tag map and the predecessor graph.  DisableOverwrite does not occur:
   without a second name for one path it never fires (Proofs/StoresFileSpec.v). *)
From Oras Require Import Base.Prelude Model.Stores.

Record fspec := mkFSpec {
  fs_names : list N;
  fs_named : list (N * blob);
  fs_cas : list (gkey * blob);
  fs_res : resolver;
  fs_graph : graph }.
Definition fspec_init := mkFSpec [] [] [] res_init graph_init.

Definition fs_name_ok (d : desc) (a : fspec) : bool :=
  (d_name d =? 0) || mem N.eqb (d_name d) (fs_names a).

Definition fspec_fetch (d : desc) (a : fspec) : option blob :=
  if fs_name_ok d a then
    match get N.eqb (d_dig d) (fs_named a) with
    | Some c => Some c
    | None => get gkey_eqb (gk d) (fs_cas a)
    end
  else None.

Definition fspec_exists (d : desc) (a : fspec) : bool :=
  fs_name_ok d a && (is_some (get N.eqb (d_dig d) (fs_named a)) || is_some (get gkey_eqb (gk d) (fs_cas a))).

Definition fspec_named_push (a : fspec) (k : gkey) (n : N) (c : blob) : fspec * option fout :=
  if mem N.eqb n (fs_names a) then (a, Some (FE FDuplicateName))
  else if bad_name n then (a, Some (FE FTraversal))
  else if (k_dig k =? b_hash c) && (k_size k =? b_len c)
  then (mkFSpec (n :: fs_names a) (put N.eqb (k_dig k) c (fs_named a)) (fs_cas a) (fs_res a) (fs_graph a), None)
  else (a, Some (FO (OErr EMismatch))).

Fixpoint fspec_restore (tl : list (gkey * N)) (a : fspec) : fspec * option fout :=
  match tl with
  | [] => (a, None)
  | (k, n) :: rest =>
      if (n =? 0) || mem N.eqb n (fs_names a) then fspec_restore rest a
      else match fspec_fetch (mkDesc (k_mt k) (k_dig k) (k_size k) 0) a with
           | None => fspec_restore rest a
           | Some c2 =>
               match fspec_named_push a k n c2 with
               | (a1, None) => fspec_restore rest a1
               | (a1, Some (FE FDuplicateName)) => fspec_restore rest a1
               | (a1, Some e) => (a1, Some e)
               end
           end
  end.

Definition fspec_index (d : desc) (a : fspec) : fspec * fout :=
  if is_manifest (d_mt d) then
    match fspec_fetch d a with
    | None => (a, FO (OErr ENotFound))
    | Some c1 =>
        if d_dig d =? b_hash c1
        then (mkFSpec (fs_names a) (fs_named a) (fs_cas a) (fs_res a)
                      (g_index d (succ_of (gk d) c1) (fs_graph a)), FO OOk)
        else (a, FO (OErr EMismatch))
    end
  else (mkFSpec (fs_names a) (fs_named a) (fs_cas a) (fs_res a) (g_index d [] (fs_graph a)), FO OOk).

Definition fspec_index_after (d : desc) (a : fspec) : fspec * fout :=
  let (a2, r) := fspec_index d a in
  match r with
  | FO OOk =>
      if is_manifest (d_mt d) then
        match fspec_fetch d a2 with
        | None => (a2, FO (OErr ENotFound))
        | Some c1 =>
            if d_dig d =? b_hash c1
            then match fspec_restore (b_tl c1) a2 with
                 | (a3, Some e) => (a3, e)
                 | (a3, None) => (a3, FO OOk)
                 end
            else (a2, FO (OErr EMismatch))
        end
      else (a2, FO OOk)
  | _ => (a2, r)
  end.

Definition fspec_step (ignore_noname : bool) (a : fspec) (o : op) : fspec * fout :=
  match o with
  | Push d c =>
      if d_name d =? 0 then
        if ignore_noname then
          if is_manifest (d_mt d) then
            if verify d c
            then match fspec_restore (b_tl c) a with
                 | (a2, Some e) => (a2, e)
                 | (a2, None) => (a2, FO OOk)
                 end
            else (a, FO (OErr EMismatch))
          else (a, FO OOk)
        else match get gkey_eqb (gk d) (fs_cas a) with
             | Some _ => (a, FO (OErr EAlreadyExists))
             | None =>
                 let c := limit_reader d c in
                 if verify d c
                 then fspec_index_after d (mkFSpec (fs_names a) (fs_named a)
                                                   (put gkey_eqb (gk d) c (fs_cas a)) (fs_res a) (fs_graph a))
                 else (a, FO (OErr EMismatch))
             end
      else match fspec_named_push a (gk d) (d_name d) c with
           | (a1, None) => fspec_index_after d a1
           | (a1, Some e) => (a1, e)
           end
  | Fetch d =>
      match fspec_fetch d a with
      | Some c => (a, FO (OBytes (b_hash c) (b_len c)))
      | None => (a, FO (OErr ENotFound))
      end
  | Exists d => (a, FO (OBool (fspec_exists d a)))
  | Tag d r =>
      match r with
      | REmpty => (a, FO (OErr EMissingRef))
      | _ => if fspec_exists d a
             then (mkFSpec (fs_names a) (fs_named a) (fs_cas a) (res_tag d r (fs_res a)) (fs_graph a), FO OOk)
             else (a, FO (OErr ENotFound))
      end
  | Resolve r =>
      match r with
      | REmpty => (a, FO (OErr EMissingRef))
      | _ => match get ref_eqb r (r_index (fs_res a)) with
             | Some d => (a, FO (ODesc d))
             | None => (a, FO (OErr ENotFound))
             end
      end
  | Preds d => (a, FO (OPreds (map gk (g_predecessors d (fs_graph a)))))
  | Untag _ | Delete _ | Tags => (a, FO (OErr EUnsupported))
  end.
