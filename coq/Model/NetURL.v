(* Executable model of the parts of net/url (go1.26.8, the toolchain bin/check pins) on which
   registry.Reference.ValidateRegistry and remote.buildReferrersURL depend:

     ValidateRegistry:  uri, err := url.ParseRequestURI(dummy:// + r.Registry)
                        err == nil && uri.Host nonempty && uri.Host == r.Registry
     buildReferrersURL: url.Values{artifactType: ...}.Encode()  (QueryEscape)

   url.go: parse (viaRequest), getScheme, parseAuthority, parseHost, validOptionalPort, unescape
   (modes encodeHost / encodeZone / encodeQueryComponent), escape (encodeQueryComponent),
   shouldEscape (gen_encoding_table.go).  The one thing left abstract is netip.ParseAddr on the
   contents of a bracketed IP literal ([ip6_ok]); the theorems hold for every [ip6_ok].
   No proofs here (Proofs/NetURL.v). *)
From Oras Require Import Base.Prelude.

Definition is_digit_c (c : N) : bool := (48 <=? c) && (c <=? 57).
Definition is_alnum_c (c : N) : bool :=
  is_digit_c c || ((65 <=? c) && (c <=? 90)) || ((97 <=? c) && (c <=? 122)).
Definition is_hex_c (c : N) : bool :=
  is_digit_c c || ((65 <=? c) && (c <=? 70)) || ((97 <=? c) && (c <=? 102)).
(* unhex: 9*(c>>6) + (c&15) on hex characters *)
Definition unhex_c (c : N) : N := if is_digit_c c then c - 48 else if c <=? 70 then c - 55 else c - 87.

Definition mem_c (c : N) (l : list N) : bool := existsb (fun d => d =? c) l.

(* not shouldEscape(c, encodeHost) = not shouldEscape(c, encodeZone):
   alphanumerics, ! $ & apostrophe ( ) * + , ; = : [ ] < > double-quote and - _ . ~ *)
Definition host_plain (c : N) : bool :=
  is_alnum_c c || mem_c c [33; 36; 38; 39; 40; 41; 42; 43; 44; 59; 61; 58; 91; 93; 60; 62; 34]
  || mem_c c [45; 95; 46; 126].

(* not shouldEscape(c, encodeQueryComponent): alphanumerics and - _ . ~ *)
Definition query_plain (c : N) : bool := is_alnum_c c || mem_c c [45; 95; 46; 126].

Definition c_pct := 37.

(* unescape(s, encodeHost) *)
Fixpoint unescape_host (s : str) : option str :=
  match s with
  | [] => Some []
  | c :: r =>
      if c =? c_pct then
        match r with
        | h1 :: h2 :: rest =>
            if is_hex_c h1 && is_hex_c h2 then
              if (unhex_c h1 <? 8) && negb ((h1 =? 50) && (h2 =? 53)) then None
              else match unescape_host rest with
                   | Some t => Some ((unhex_c h1 * 16 + unhex_c h2) :: t)
                   | None => None
                   end
            else None
        | _ => None
        end
      else if (c <? 128) && negb (host_plain c) && negb (c =? 43) then None
      else match unescape_host r with Some t => Some (c :: t) | None => None end
  end.

(* unescape(s, encodeZone) *)
Fixpoint unescape_zone (s : str) : option str :=
  match s with
  | [] => Some []
  | c :: r =>
      if c =? c_pct then
        match r with
        | h1 :: h2 :: rest =>
            if is_hex_c h1 && is_hex_c h2 then
              let v := unhex_c h1 * 16 + unhex_c h2 in
              if negb ((h1 =? 50) && (h2 =? 53)) && negb (v =? 32) && negb (host_plain v) then None
              else match unescape_zone rest with
                   | Some t => Some (v :: t)
                   | None => None
                   end
            else None
        | _ => None
        end
      else if (c <? 128) && negb (host_plain c) && negb (c =? 43) then None
      else match unescape_zone r with Some t => Some (c :: t) | None => None end
  end.

(* validOptionalPort *)
Definition valid_optional_port (p : str) : bool :=
  match p with
  | [] => true
  | c :: ds => (c =? 58) && forallb is_digit_c ds
  end.

Fixpoint last_index_of (c : N) (s : str) : option nat :=
  match s with
  | [] => None
  | x :: t => match last_index_of c t with
              | Some i => Some (S i)
              | None => if x =? c then Some 0%nat else None
              end
  end.

Fixpoint prefixb (p s : str) : bool :=
  match p, s with
  | [], _ => true
  | x :: p', y :: s' => (x =? y) && prefixb p' s'
  | _, [] => false
  end.

(* strings.Index(s, %25) *)
Fixpoint index_pct25 (s : str) : option nat :=
  match s with
  | [] => None
  | _ :: t => if prefixb [37; 50; 53] s then Some 0%nat
              else match index_pct25 t with Some i => Some (S i) | None => None end
  end.

Section WithIP6.
  (* netip.ParseAddr(x) succeeds and the address is not IPv4 *)
  Variable ip6_ok : str -> bool.

  (* parseHost(scheme, host) for a scheme other than http/https (ValidateRegistry uses dummy:
     the port starts at the LAST colon) *)
  Definition parse_host (host : str) : option str :=
    match last_index_of 91 host with
    | Some (S _) => None                                   (* '[' not at the start *)
    | Some O =>
        match last_index_of 93 host with
        | None => None                                     (* missing ']' *)
        | Some cb =>
            let colon_port := skipn (S cb) host in
            if negb (valid_optional_port colon_port) then None
            else match unescape_host colon_port with
                 | None => None
                 | Some uport =>
                     let hostname := skipn 1 (firstn cb host) in
                     let uhost :=
                       match index_pct25 hostname with
                       | Some z =>
                           match unescape_host (firstn z hostname), unescape_zone (skipn z hostname) with
                           | Some a, Some c => Some (a ++ c)
                           | _, _ => None
                           end
                       | None => unescape_host hostname
                       end in
                     match uhost with
                     | None => None
                     | Some uh => if ip6_ok uh then Some ([91] ++ uh ++ [93] ++ uport) else None
                     end
                 end
        end
    | None =>
        match last_index_of 58 host with
        | Some i => if valid_optional_port (skipn i host) then unescape_host host else None
        | None => unescape_host host
        end
    end.

  Definition is_ctl (c : N) : bool := (c <? 32) || (c =? 127).

  (* Reference.ValidateRegistry() == nil.
     ParseRequestURI(dummy://+reg): a control byte anywhere is an error; a '?' moves the rest
     into RawQuery / ForceQuery, a '/' ends the authority, an '@' makes what precedes it
     user-info: in all three cases Host comes out of a proper part of the registry and can not be
     equal to it (or parsing fails): rejected.  Otherwise the authority is the registry itself. *)
  Definition go_valid_registry (reg : str) : bool :=
    negb (existsb is_ctl reg) && negb (contains 63 reg) && negb (contains 47 reg) && negb (contains 64 reg) &&
    match parse_host reg with
    | Some h => match h with [] => false | _ => str_eqb h reg end
    | None => false
    end.
  (* The same validator WITHOUT the three shortcuts, following url.ParseRequestURI step by step:
     everything from the first '?' on is the query, the authority ends at the first '/', what
     precedes the last '@' of the authority is user-info; [other_ok authority path] stands for
     the checks this model does not spell out (validUserinfo / unescaping of the user-info,
     unescaping of the path), whatever they answer.  Proofs/NetURL.v: equal to go_valid_registry. *)
  Variable other_ok : str -> option str -> bool.
  Definition cut_first (c : N) (s : str) : str * option str :=
    match index_of c s with
    | Some i => (firstn i s, Some (skipn (S i) s))
    | None => (s, None)
    end.
  Definition request_uri_host (reg : str) : option str :=
    if existsb is_ctl reg then None
    else
      let rest := fst (cut_first 63 reg) in
      let (auth, path) := cut_first 47 rest in
      let hostpart := match last_index_of 64 auth with Some i => skipn (S i) auth | None => auth end in
      match parse_host hostpart with
      | None => None
      | Some h => if other_ok auth path then Some h else None
      end.
  Definition go_valid_registry_faithful (reg : str) : bool :=
    match request_uri_host reg with
    | Some h => match h with [] => false | _ => str_eqb h reg end
    | None => false
    end.
End WithIP6.

(* ---------- netip.ParseAddr (go1.26.8) on the contents of a bracketed IP literal ----------
   parseHost needs: ParseAddr succeeds and the address is not an IPv4 address.  ParseAddr looks at
   the first of '.', ':', '%': a dot first means IPv4 (rejected inside brackets), a colon first
   means parseIPv6, a percent first or none of them is an error. *)

(* parseIPv4Fields on a whole string: four decimal octets <= 255 without leading zeros *)
Fixpoint ipv4_go (s : str) (val : N) (dig pos : nat) (prevdot first : bool) : bool :=
  match s with
  | [] => Nat.eqb pos 3
  | c :: t =>
      if is_digit_c c then
        if Nat.eqb dig 1 && (val =? 0) then false
        else let v := val * 10 + (c - 48) in
             if 255 <? v then false else ipv4_go t v (S dig) pos false false
      else if c =? 46 then
        if first || prevdot || match t with [] => true | _ => false end then false
        else if Nat.eqb pos 3 then false
        else ipv4_go t 0 0%nat (S pos) true false
      else false
  end.
Definition ipv4_ok (s : str) : bool := ipv4_go s 0 0%nat 0%nat false true.

Fixpoint take_hex (s : str) : nat * str :=
  match s with
  | c :: t => if is_hex_c c then let (n, r) := take_hex t in (S n, r) else (0%nat, s)
  | [] => (0%nat, [])
  end.

(* after the loop: the whole string must be used; fewer than 8 groups need an ellipsis, exactly 8
   must not have one *)
Definition ip6_finish (left : nat) (ell : bool) (s : str) : bool :=
  match s with
  | [] => match left with O => negb ell | _ => ell end
  | _ => false
  end.

(* the group loop of parseIPv6; [left] = number of 16-bit groups still free ((16-i)/2) *)
Fixpoint ip6_loop (left : nat) (ell : bool) (s : str) : bool :=
  match left with
  | O => ip6_finish 0 ell s
  | S left' =>
      let (off, rest) := take_hex s in
      if Nat.eqb off 0 || Nat.ltb 4 off then false
      else match rest with
           | [] => ip6_finish left' ell []
           | c :: r1 =>
               if c =? 46 then
                 (* trailing embedded IPv4: must replace the final two groups unless there is an ellipsis *)
                 if (negb ell && negb (Nat.eqb left 2)) || Nat.ltb left 2 then false
                 else if ipv4_ok s then ip6_finish (left - 2) ell [] else false
               else if c =? 58 then
                 match r1 with
                 | [] => false
                 | c2 :: r2 =>
                     if c2 =? 58 then
                       if ell then false
                       else match r2 with
                            | [] => ip6_finish left' true []
                            | _ => ip6_loop left' true r2
                            end
                     else ip6_loop left' ell r1
                 end
               else false
           end
  end.

Definition parse_ipv6 (x : str) : bool :=
  let s := match index_of c_pct x with Some i => firstn i x | None => x end in
  let zone_ok := match index_of c_pct x with
                 | Some i => match skipn (S i) x with [] => false | _ => true end
                 | None => true
                 end in
  zone_ok &&
  match s with
  | 58 :: 58 :: r => match r with [] => true | _ => ip6_loop 8 true r end
  | _ => ip6_loop 8 false s
  end.

Fixpoint first_special (s : str) : N :=
  match s with
  | [] => 0
  | c :: t => if (c =? 46) || (c =? 58) || (c =? c_pct) then c else first_special t
  end.

(* netip.ParseAddr(x) succeeds with an address that is not IPv4 *)
Definition go_ip6_ok (x : str) : bool := (first_special x =? 58) && parse_ipv6 x.

(* the complete model of Reference.ValidateRegistry() == nil *)
Definition go_registry (reg : str) : bool := go_valid_registry go_ip6_ok reg.

(* verdict for the correspondence check: every registry is judged *)
Definition go_registry_verdict (reg : str) : option bool := Some (go_registry reg).

(* ---------- query escaping (url.Values.Encode for a single key) ---------- *)

Definition upperhex (n : N) : N := if n <? 10 then 48 + n else 55 + n.

(* QueryEscape = escape(s, encodeQueryComponent) *)
Fixpoint query_escape (s : str) : str :=
  match s with
  | [] => []
  | c :: t =>
      if c =? 32 then 43 :: query_escape t
      else if query_plain c then c :: query_escape t
      else c_pct :: upperhex (c / 16) :: upperhex (c mod 16) :: query_escape t
  end.

(* QueryUnescape = unescape(s, encodeQueryComponent) *)
Fixpoint query_unescape (s : str) : option str :=
  match s with
  | [] => Some []
  | c :: r =>
      if c =? c_pct then
        match r with
        | h1 :: h2 :: rest =>
            if is_hex_c h1 && is_hex_c h2 then
              match query_unescape rest with
              | Some t => Some ((unhex_c h1 * 16 + unhex_c h2) :: t)
              | None => None
              end
            else None
        | _ => None
        end
      else match query_unescape r with
           | Some t => Some ((if c =? 43 then 32 else c) :: t)
           | None => None
           end
  end.
