(* Model of content/oci Store.Delete / delete / isTagged / gcIndex / GC together
   with the parts of graph.Memory (Index, IndexAll, Remove, Predecessors) and
   resolver.Memory (Tag, Untag, Map) they use.  Executable Gallina only, no proofs.

   Universe: nodes are natural numbers (one per descriptor; the harness never
   generates two media types for the same bytes, so descriptor identity = digest
   identity).  [succ n] is content.Successors of n (subject first, duplicates
   kept, foreign layers included), [subject n] is manifestutil.Subject,
   [manifest n] is descriptor.IsManifest.  They are parameters: fixed by the
   bytes of the node (content addressing).

   State:
     blobs   files under blobs/<alg>/ that belong to universe nodes
     idx     resolver.Memory.index : reference -> descriptor   (association list)
     gnodes  graph.Memory.nodes; the predecessor map is represented by its
             invariant  predecessors[s] = { p in nodes | s in succ p }
             (property C07; re-checked by the correspondence on every case)
     strays  other files under blobs/ (valid digest names nobody indexed,
             invalid names, files under unknown algorithm directories)
     autogc  Store.AutoGC

   Go map iteration order (referrers, danglings, the reference map in gcIndex)
   is the explicit [ord] argument.

   [cfg] selects the code before/after the repairs (F1, F3, F4, F13); the
   current source is [cfg_fixed]. *)
From Coq Require Import List Arith Bool PeanoNat.
Import ListNotations.
From Oras Require Import Base.Prelude Generated.GC09.
Close Scope N_scope.
Open Scope nat_scope.

(* Tables regenerated from the Go source on every run (Generated/GC09.v):
   isKnownAlgorithm_cases  the case list of content/oci isKnownAlgorithm
   IsManifest_cases        the case list of internal/descriptor IsManifest
   The harness sends an algorithm-directory code / a node-kind code; which go-digest
   constant is which directory name and which media-type constant belongs to which
   generator kind is stated here by hand. *)
Definition alg_const (code : nat) : str :=
  match code with
  | 0 => b "digest.SHA256"      (* blobs/sha256 *)
  | 1 => b "digest.SHA512"      (* blobs/sha512 *)
  | 2 => b "digest.SHA384"      (* blobs/sha384 *)
  | _ => b "-"                  (* any other directory, or a plain file under blobs/ *)
  end.
Definition alg_known (code : nat) : bool :=
  existsb (str_eqb (alg_const code)) isKnownAlgorithm_cases.

Definition kind_const (k : nat) : str :=
  match k with
  | 1 => b "ocispec.MediaTypeImageManifest"
  | 2 => b "docker.MediaTypeManifest"
  | 3 => b "ocispec.MediaTypeImageIndex"
  | 4 => b "docker.MediaTypeManifestList"
  | 5 => b "spec.MediaTypeArtifactManifest"
  | _ => b "-"                  (* layers, configs, foreign layers *)
  end.
Definition is_manifest_kind (k : nat) : bool :=
  existsb (str_eqb (kind_const k)) IsManifest_cases.

(* which media types have a subject field that the store reads (manifestutil.Subject), which
   predecessors registry.Referrers looks at, which media types have successors at all
   (content.Successors): the case lists of the three media-type switches *)
Definition kind_has_subject (k : nat) : bool := existsb (str_eqb (kind_const k)) c09_subject_cases.
Definition kind_is_referrer_type (k : nat) : bool := existsb (str_eqb (kind_const k)) c09_referrers_cases.
Definition kind_has_successors (k : nat) : bool := existsb (str_eqb (kind_const k)) c09_successors_cases.
(* the model has ONE subject function for the subject walk of gcIndex, heldBySurvivor (both
   manifestutil.Subject) and the referrers of Delete (registry.Referrers): adequate iff the two
   switches accept the same media types; every manifest media type has successors *)
Definition subject_tables_agree : bool :=
  forallb (fun k => Bool.eqb (kind_has_subject k) (kind_is_referrer_type k)) [0; 1; 2; 3; 4; 5] &&
  forallb (fun k => Bool.eqb (is_manifest_kind k) (kind_has_successors k)) [0; 1; 2; 3; 4; 5] &&
  forallb (fun k => implb (kind_has_subject k) (is_manifest_kind k)) [0; 1; 2; 3; 4; 5].

(* Lock discipline of Store (sync.RWMutex), read off the regenerated call sequences: Delete and
   GC take the write lock for their whole body (first call Lock, deferred Unlock), every other
   operation the read lock: Delete and GC are atomic with respect to every other operation, so
   the histories of the store are sequences of the model's steps as far as Delete and GC are
   concerned. *)
Definition takes_lock (w : bool) (l : list str) : bool :=
  match l with
  | [a; c] => if w then str_eqb a (b "s.sync.Lock") && str_eqb c (b "s.sync.Unlock")
              else str_eqb a (b "s.sync.RLock") && str_eqb c (b "s.sync.RUnlock")
  | _ => false
  end.
Definition lock_discipline : bool :=
  takes_lock true c09_lock_Delete && takes_lock true c09_lock_GC &&
  forallb (takes_lock false)
    [c09_lock_Push; c09_lock_Tag; c09_lock_Untag; c09_lock_Predecessors; c09_lock_Resolve;
     c09_lock_Exists; c09_lock_Fetch; c09_lock_SaveIndex; c09_lock_Tags].

(* Order of effects, read off the call sequences that the translator extracts from the Go
   functions (c09_calls_gc / c09_calls_delete in Generated/GC09.v): does a call to [a] come
   before the first call to [c]? *)
Fixpoint seen_before (a c : str) (l : list str) (seen : bool) : bool :=
  match l with
  | [] => false
  | x :: r => if str_eqb x c then seen else seen_before a c r (seen || str_eqb x a)
  end.
(* GC: index.json is written before the first blob is removed; the context is tested before
   a blob is removed; delete(): index.json is written before the blob is unlinked *)
Definition gc_saves_before_sweep : bool := seen_before (b "s.saveIndex") (b "os.Remove") c09_calls_gc false.
Definition gc_tests_ctx_before_remove : bool := seen_before (b "isContextDone") (b "os.Remove") c09_calls_gc false.
Definition delete_saves_before_unlink : bool := seen_before (b "s.saveIndex") (b "s.storage.Delete") c09_calls_delete false.

(* RStale t: the pre-repair resolver.Memory.Tag left reference t in the tag set of the
   descriptor it was moved away from; (RStale t, n) records "t is still in tags[n]".
   Never created by the repaired code (cfg_fixed). *)
Inductive ref := RTag (t : nat) | RDig (n : nat) | RStale (t : nat).

Definition ref_eqb (a b : ref) : bool :=
  match a, b with
  | RTag x, RTag y => Nat.eqb x y
  | RDig x, RDig y => Nat.eqb x y
  | RStale x, RStale y => Nat.eqb x y
  | _, _ => false
  end.

Definition memb (x : nat) (l : list nat) : bool := existsb (Nat.eqb x) l.

Fixpoint dedup (l : list nat) : list nat :=
  match l with
  | [] => []
  | x :: r => if memb x r then dedup r else x :: dedup r
  end.

Definition removeb (x : nat) (l : list nat) : list nat :=
  filter (fun y => negb (Nat.eqb y x)) l.

Record stray := { s_id : nat; s_alg : nat; s_valid : bool }.
Definition s_known (s : stray) : bool := alg_known (s_alg s).

Record state := {
  blobs : list nat;
  idx : list (ref * nat);
  gnodes : list nat;
  strays : list stray;
  autogc : bool }.

Definition init : state :=
  {| blobs := []; idx := []; gnodes := []; strays := []; autogc := true |}.

Inductive res := Ok | ENotFound | EExists | EHang | ECanceled | EOther.

(* fixF1/F3/F4/F13: the repairs of DESIGN section 6; fixStale: resolver.Memory.Tag forgets a
   moved reference in the old tag set; fixLeaf: Delete does not queue dangling leaves that
   were never stored; skipLinked: a rejected *variant* of Delete that queues a referrer only
   when all its predecessors are already queued (see C09_delete_skip_linked_refuted);
   fixHold: Delete queues a referrer of a deleted manifest only once no surviving node lists
   it any more (predecessors that are referrers of its own do not hold it);
   fixSubjM: gcIndex keeps a referrer only for a subject that is a manifest (audit F-A);
   fixEntry: a predecessor holds a node iff the node is one of its entries other than the
   subject field, even if it also names it as subject (audit F-C). *)
Record cfg := { fixF1 : bool; fixF3 : bool; fixF4 : bool; fixF13 : bool;
                fixStale : bool; fixLeaf : bool; skipLinked : bool; fixHold : bool;
                fixSubjM : bool; fixEntry : bool }.
Definition cfg_fixed : cfg := {| fixF1 := true; fixF3 := true; fixF4 := true; fixF13 := true;
     fixStale := true; fixLeaf := true; skipLinked := false; fixHold := true;
     fixSubjM := true; fixEntry := true |}.
Definition cfg_orig : cfg := {| fixF1 := false; fixF3 := false; fixF4 := false; fixF13 := false;
     fixStale := false; fixLeaf := false; skipLinked := false; fixHold := false;
     fixSubjM := false; fixEntry := false |}.

Inductive op :=
| OPush (n : nat) | OTag (n t : nat) | OUntag (t : nat) | ODelete (n : nat)
| OGC | OAuto (b : bool) | OStray (s : stray) | OReopen | OForeign.

Section Model.
Variable succ : nat -> list nat.
Variable subject : nat -> option nat.
Variable manifest : nat -> bool.

(* ---------- resolver.Memory ---------- *)
Definition set_ref (r : ref) (n : nat) (ix : list (ref * nat)) : list (ref * nat) :=
  (r, n) :: filter (fun e => negb (ref_eqb (fst e) r)) ix.

Fixpoint lookup (r : ref) (ix : list (ref * nat)) : option nat :=
  match ix with
  | [] => None
  | (r', n) :: t => if ref_eqb r' r then Some n else lookup r t
  end.

Definition is_tag_entry (n : nat) (e : ref * nat) : bool :=
  match fst e with RTag _ | RStale _ => Nat.eqb (snd e) n | RDig _ => false end.

(* Store.isTagged: some reference other than the digest names n *)
Definition is_tagged (st : state) (n : nat) : bool := existsb (is_tag_entry n) (idx st).

(* ---------- graph.Memory ---------- *)
Definition preds (g : list nat) (n : nat) : list nat := filter (fun p => memb n (succ p)) g.

Definition has_subject (m p : nat) : bool :=
  match subject p with Some s => Nat.eqb s m | None => false end.

(* registry.Referrers through Predecessors *)
Definition referrers (g : list nat) (m : nat) : list nat := filter (has_subject m) (preds g m).

(* graph.Memory.Remove: successors whose predecessor set becomes empty and that are nodes *)
Definition danglings (g : list nat) (n : nat) : list nat :=
  if memb n g then
    filter (fun s => memb s g && forallb (fun p => Nat.eqb p n) (preds g s)) (dedup (succ n))
  else [].

(* ---------- Push / Tag / Untag ---------- *)
Definition push (st : state) (n : nat) : state * res :=
  if memb n (blobs st) then (st, EExists)
  else
    ({| blobs := n :: blobs st;
        idx := if manifest n then set_ref (RDig n) n (idx st) else idx st;
        gnodes := n :: removeb n (gnodes st);
        strays := strays st; autogc := autogc st |}, Ok).

Definition tag (c : cfg) (st : state) (n t : nat) : state * res :=
  if memb n (blobs st) then
    let stale :=
      match lookup (RTag t) (idx st) with
      | Some m => if fixStale c || Nat.eqb m n then [] else [(RStale t, m)]
      | None => []
      end in
    ({| blobs := blobs st;
        idx := set_ref (RTag t) n (set_ref (RDig n) n (stale ++ idx st));
        (* Store.Tag indexes a manifest before it is named in index.json (graph.Index) *)
        gnodes := if manifest n then n :: removeb n (gnodes st) else gnodes st;
        strays := strays st; autogc := autogc st |}, Ok)
  else (st, ENotFound).

Definition untag (st : state) (t : nat) : state * res :=
  match lookup (RTag t) (idx st) with
  | None => (st, ENotFound)
  | Some m =>
    ({| blobs := blobs st;
        (* Untag(t): index[t] goes, t leaves tags[index[t]] *)
        idx := filter (fun e => negb (ref_eqb (fst e) (RTag t)) &&
                                negb (ref_eqb (fst e) (RStale t) && Nat.eqb (snd e) m)) (idx st);
        gnodes := gnodes st; strays := strays st; autogc := autogc st |}, Ok)
  end.

(* ---------- Store.delete ---------- *)
(* the reference map after delete(n): every reference to n goes; a manifest that loses its
   last predecessor gets a by-digest reference unless it has one (it stays listed in
   index.json until it is deleted itself) *)
Definition del_idx (st : state) (n : nat) : list (ref * nat) :=
  let ix := filter (fun e => negb (Nat.eqb (snd e) n)) (idx st) in
  map (fun d => (RDig d, d))
      (filter (fun d => manifest d && match lookup (RDig d) ix with None => true | Some _ => false end)
              (danglings (gnodes st) n))
  ++ ix.

Definition delete_one (st : state) (n : nat) : state * list nat * res :=
  let dang := danglings (gnodes st) n in
  let st' := {| blobs := removeb n (blobs st);
                idx := del_idx st n;
                gnodes := removeb n (gnodes st);
                strays := strays st; autogc := autogc st |} in
  (st', dang, if memb n (blobs st) then Ok else ENotFound).

(* the links of p other than its subject field: content.Successors minus one occurrence of
   the subject (a node that is the subject AND an entry of p is still an entry) *)
Fixpoint remove_one (x : nat) (l : list nat) : list nat :=
  match l with
  | [] => []
  | y :: r => if Nat.eqb y x then r else y :: remove_one x r
  end.
Definition entries (p : nat) : list nat :=
  match subject p with Some s => remove_one s (succ p) | None => succ p end.

(* Store.heldBySurvivor: a predecessor that is not queued and lists r among its entries *)
Definition held (en : bool) (g seen : list nat) (r : nat) : bool :=
  existsb (fun p => negb (memb p seen) &&
                    (if en then memb r (entries p) else negb (has_subject r p))) (preds g r).

(* ---------- Store.Delete: the work queue ----------
   [seen] = everything ever queued (the repaired code queues a node once: F4);
   [pending] = untagged referrers of deleted manifests that wait until nothing holds them;
   [ord k l] = the order in which Go's map iteration delivers the k-th batch. *)
Fixpoint delete_loop (c : cfg) (ord : nat -> list nat -> list nat) (fuel k : nat)
         (st : state) (queue seen pending : list nat) : state * res :=
  match fuel with
  | O => (st, EHang)
  | S fuel' =>
    match queue with
    | [] => (st, Ok)
    | head :: q =>
      let refs :=
        if autogc st && manifest head then
          filter (fun r => (negb (skipLinked c) || forallb (fun p => memb p seen) (preds (gnodes st) r))
                           && (negb (fixF3 c) || negb (is_tagged st r)))
                 (referrers (gnodes st) head)
        else [] in
      match delete_one st head with
      | (st', dang, Ok) =>
        let dang' :=
          if autogc st
          then filter (fun d => (negb (fixLeaf c) || memb d (blobs st')) && negb (is_tagged st' d)) dang
          else [] in
        let batch := ord k ((if fixHold c then [] else refs) ++ dang') in
        let fresh :=
          if fixF4 c then dedup (filter (fun x => negb (memb x seen)) batch) else batch in
        let seen1 := seen ++ fresh in
        let pend1 := if fixHold c then pending ++ ord k refs else [] in
        let cand := dedup (filter (fun r => negb (memb r seen1)) pend1) in
        let ready := filter (fun r => negb (held (fixEntry c) (gnodes st') seen1 r)) cand in
        let rest := filter (held (fixEntry c) (gnodes st') seen1) cand in
        delete_loop c ord fuel' (S k) st' (q ++ fresh ++ ready) (seen1 ++ ready) rest
      | (st', _, e) => (st', e)
      end
    end
  end.

Definition delete_fuel (st : state) : nat := S (S (length (gnodes st))).

Definition delete (c : cfg) (ord : nat -> list nat -> list nat) (st : state) (n : nat) : state * res :=
  delete_loop c ord (if fixF4 c then delete_fuel st else 4096) 0 st [n] [n] [].

(* ---------- graph.Memory.IndexAll: nodes reachable through stored content ----------
   successors have smaller ids than their node (content addressing), so [k] >= n is
   enough fuel. *)
Fixpoint down (bl : list nat) (k n : nat) : list nat :=
  if memb n bl then
    match k with
    | O => [n]
    | S k' => n :: flat_map (down bl k') (succ n)
    end
  else [].

Definition closure (bl : list nat) (n : nat) : list nat := down bl n n.

(* IndexAll also records descriptors it never has to fetch: non-manifest successors (and a
   non-manifest root) are graph nodes whether or not their content is stored.  They matter
   only to the pre-repair Delete ([fixLeaf] = false); the repaired Delete ignores them and
   nothing else observes them, so the repaired model leaves them out. *)
Definition leaf_absent (bl : list nat) (n : nat) : bool := negb (memb n bl) && negb (manifest n).
Definition clo (c : cfg) (bl : list nat) (n : nat) : list nat :=
  if fixLeaf c then closure bl n
  else closure bl n ++ filter (leaf_absent bl) (n :: flat_map succ (closure bl n)).

(* ---------- gcIndex ---------- *)
Definition tagged_nodes (ix : list (ref * nat)) : list nat :=
  flat_map (fun e => match fst e with RTag _ => [snd e] | _ => [] end) ix.

(* digest-only entries of untagged descriptors: the candidates of the referrer pass *)
Definition candidates (ix : list (ref * nat)) : list nat :=
  flat_map (fun e => match fst e with
                     | RDig _ => if memb (snd e) (tagged_nodes ix) then [] else [snd e]
                     | _ => [] end) ix.

(* the subject walk of the repaired code: follow manifestutil.Subject while the
   current manifest can be fetched; true when a subject is already in the new graph *)
Fixpoint walk (sm : bool) (bl g : list nat) (fuel cur : nat) : option bool :=
  match fuel with
  | O => None
  | S f =>
    if memb cur bl then
      match subject cur with
      | None => Some false
      | Some s => if memb s g && (negb sm || manifest s) then Some true else walk sm bl g f s
      end
    else Some false
  end.

(* the walk of the original code: the inner [subject] shadows the loop variable,
   the same descriptor is read again *)
Fixpoint walk_orig (bl g : list nat) (fuel cur : nat) : option bool :=
  match fuel with
  | O => None
  | S f =>
    match subject cur with
    | None => Some false
    | Some s => if memb s g then Some true else walk_orig bl g f cur
    end
  end.

Definition do_walk (c : cfg) (bl g : list nat) (n : nat) : option bool :=
  if fixF1 c then walk (fixSubjM c) bl g (S n) n else walk_orig bl g 64 n.

(* accumulator of one pass: new graph, kept referrers, changed, hang *)
Definition keep_step (c : cfg) (bl : list nat) (acc : list nat * list nat * bool * bool) (n : nat)
  : list nat * list nat * bool * bool :=
  let '(g, kept, ch, hang) := acc in
  if memb n kept then acc
  else match do_walk c bl g n with
       | None => (g, kept, ch, true)
       | Some true => (clo c bl n ++ g, n :: kept, true, hang)
       | Some false => acc
       end.

Fixpoint gc_passes (c : cfg) (bl : list nat) (ords : nat -> list nat) (fuel i : nat)
         (g kept : list nat) : option (list nat * list nat) :=
  match fuel with
  | O => None
  | S f =>
    let '(g', kept', ch, hang) := fold_left (keep_step c bl) (ords i) (g, kept, false, false) in
    if hang then None
    else if ch && fixF13 c then gc_passes c bl ords f (S i) g' kept'
    else Some (g', kept')
  end.

(* nodes that have a digest-only reference *)
Definition digested (ix : list (ref * nat)) : list nat :=
  flat_map (fun e => match fst e with RDig _ => [snd e] | _ => [] end) ix.

(* [kl]: which digest-only references survive the rebuild.  The source under test drops
   those of descriptors that are neither tagged nor kept as referrers ([kl] = false); a
   repair of index persistence (property C08) may keep every old digest reference whose
   descriptor is still in the rebuilt graph ([kl] = true).  The harness probes the store and
   passes what it sees; the theorems hold for both. *)
(* graph.Exists on the rebuilt graph: its nodes, and the leaf descriptors that IndexAll records
   by reference without their content being stored (successors of a node, or a tagged root) *)
Definition gexists (bl tn g : list nat) (n : nat) : bool :=
  memb n g || (leaf_absent bl n && (memb n tn || existsb (fun p => memb n (succ p)) g)).

Definition gc_index (c : cfg) (kl : bool) (ords : nat -> list nat) (st : state)
  : option (list (ref * nat) * list nat) :=
  let ix := idx st in
  let tn := tagged_nodes ix in
  let g1 := flat_map (clo c (blobs st)) tn in
  match gc_passes c (blobs st) ords (S (length (candidates ix))) 0 g1 [] with
  | None => None
  | Some (g, kept) =>
    Some (filter (fun e => match fst e with RTag _ => true | _ => false end) ix
          ++ map (fun n => (RDig n, n))
                 (dedup tn ++ kept ++ (if kl then filter (gexists (blobs st) tn g) (digested ix) else [])), g)
  end.

(* the sweep of blobs/: known algorithm directory, valid digest name, not in the graph *)
Definition sweep_stray (s : stray) : bool := negb (s_known s && s_valid s).

Definition gc (c : cfg) (kl : bool) (ords : nat -> list nat) (st : state) : state * res :=
  match gc_index c kl ords st with
  | None => (st, EHang)
  | Some (ix, g) =>
    ({| blobs := filter (fun n => memb n g) (blobs st);
        idx := ix;
        gnodes := dedup g;
        strays := filter sweep_stray (strays st);
        autogc := autogc st |}, Ok)
  end.

(* ---------- GC whose context is cancelled during the sweep ----------
   The sweep walks blobs/<alg>/ in directory order and tests the context before every entry.
   [order] = the entries in that order, [k] = the number of entries handled before the
   context was found done.  The index has been rebuilt (and saved) before the sweep. *)
Inductive sentry := SBlob (n : nat) | SStray (id : nat).

Definition swept_blob (n : nat) (l : list sentry) : bool :=
  existsb (fun e => match e with SBlob m => Nat.eqb m n | SStray _ => false end) l.
Definition swept_stray (id : nat) (l : list sentry) : bool :=
  existsb (fun e => match e with SStray m => Nat.eqb m id | SBlob _ => false end) l.

Definition gc_cancel (c : cfg) (kl : bool) (ords : nat -> list nat) (order : list sentry) (k : nat)
           (st : state) : state * res :=
  match gc_index c kl ords st with
  | None => (st, EHang)
  | Some (ix, g) =>
    let handled := firstn k order in
    ({| blobs := filter (fun n => memb n g || negb (swept_blob n handled)) (blobs st);
        idx := ix;
        gnodes := dedup g;
        strays := filter (fun s => sweep_stray s || negb (swept_stray (s_id s) handled)) (strays st);
        autogc := autogc st |}, ECanceled)
  end.

(* ---------- histories ---------- *)
Definition ord_id (k : nat) (l : list nat) : list nat := l.

Definition step (c : cfg) (kl : bool) (st : state) (o : op) : state * res :=
  match o with
  | OPush n => push st n
  | OTag n t => tag c st n t
  | OUntag t => untag st t
  | ODelete n => delete c ord_id st n
  | OGC => gc c kl (fun _ => candidates (idx st)) st
  | OAuto b => ({| blobs := blobs st; idx := idx st; gnodes := gnodes st; strays := strays st;
                   autogc := b |}, Ok)
  | OStray s => ({| blobs := blobs st; idx := idx st; gnodes := gnodes st;
                    strays := s :: strays st; autogc := autogc st |}, Ok)
  (* oci.New on the same directory (index.json is up to date: AutoSaveIndex): loadIndex tags
     every index entry and runs IndexAll from it; AutoGC is the default again *)
  | OReopen =>
    let ix := filter (fun e => match fst e with RStale _ => false | _ => true end) (idx st) in
    ({| blobs := blobs st; idx := ix;
        gnodes := dedup (flat_map (clo c (blobs st)) (map snd ix));
        strays := strays st; autogc := true |}, Ok)
  (* the layout as other tools write it: index.json names only the tagged descriptors (no
     by-digest entries for nested or untagged manifests); then oci.New: loadIndex gives every
     entry its digest reference and its tag and indexes what the entries reach *)
  | OForeign =>
    let ix := flat_map (fun e => match fst e with
                                 | RTag t => [(RDig (snd e), snd e); (RTag t, snd e)]
                                 | _ => [] end) (idx st) in
    ({| blobs := blobs st; idx := ix;
        gnodes := dedup (flat_map (clo c (blobs st)) (map snd ix));
        strays := strays st; autogc := true |}, Ok)
  end.

(* ---------- persistence: index.json, AutoSaveIndex, SaveIndex, reload ----------
   [disk] = the entries of index.json as saveIndex writes them: one entry per tag, one
   digest-only entry per descriptor that has a by-digest reference and no tag.
   loadIndex gives every entry its by-digest reference (and its tag). *)
Definition save_form (ix : list (ref * nat)) : list (ref * nat) :=
  filter (fun e => match fst e with
                   | RTag _ => true
                   | RDig _ => negb (memb (snd e) (tagged_nodes ix))
                   | RStale _ => false end) ix.

Definition load_form (d : list (ref * nat)) : list (ref * nat) :=
  flat_map (fun e => match fst e with
                     | RTag t => [(RDig (snd e), snd e); (RTag t, snd e)]
                     | RDig _ => [(RDig (snd e), snd e)]
                     | RStale _ => [] end) d.

Record pstate := { mem : state; disk : list (ref * nat); autosave : bool }.
Definition pinit : pstate := {| mem := init; disk := []; autosave := true |}.

Inductive pop :=
| PO (o : op)                       (* an operation of the store *)
| PSave                             (* Store.SaveIndex *)
| PAutoSave (b : bool)              (* Store.AutoSaveIndex = b *)
| PGCCancel (early : bool) (order : list sentry) (k : nat)
| PPushBad (n : nat)                (* Push of a manifest-typed blob that does not decode *)
| PDeleteAlt (n : nat)
  (* Delete of a layer/config with the descriptor Resolve(<digest>) returns for a blob
     (media type application/octet-stream): the file and every reference to the digest go
     (storage and references are keyed by digest), the graph - keyed by the full descriptor -
     does not know that descriptor: no referrers, no danglings, the node stays behind as a
     stale graph node until GC or a reload.  Theorems that need [wf] do not cover the states
     after this operation (see C09_persist_histories). *)
| PGCBlocked (order : list sentry) (k : nat).
  (* GC whose sweep fails at entry [k] of [order] (os.Remove fails: a non-empty directory
     with a digest name): the entries before it were handled, the error is returned *)
  (* GC with a context that is cancelled: before the index is rebuilt ([early]) or in the
     sweep after [k] entries of [order] *)

Definition ref_code (r : ref) : nat * nat :=
  match r with RTag t => (0, t) | RDig n => (1, n) | RStale t => (2, t) end.
Definition entry_eqb (a b : ref * nat) : bool := ref_eqb (fst a) (fst b) && Nat.eqb (snd a) (snd b).
Fixpoint entries_eqb (a b : list (ref * nat)) : bool :=
  match a, b with
  | [], [] => true
  | x :: a', y :: b' => entry_eqb x y && entries_eqb a' b'
  | _, _ => false
  end.

Definition is_ok (r : res) : bool := match r with Ok => true | _ => false end.

(* the store wrote index.json iff [b] *)
Definition saved (b : bool) (p : pstate) (m : state) : pstate :=
  {| mem := m; disk := if b then save_form (idx m) else disk p; autosave := autosave p |}.

(* oci.New on the directory: the reference map and the graph come from index.json *)
Definition reload (c : cfg) (m : state) (d : list (ref * nat)) : state :=
  let ix := load_form d in
  {| blobs := blobs m; idx := ix;
     gnodes := dedup (flat_map (clo c (blobs m)) (map snd ix));
     strays := strays m; autogc := true |}.

Definition pstep (c : cfg) (kl : bool) (p : pstate) (o : pop) : pstate * res :=
  match o with
  | PO (OPush n) =>
    let '(m, r) := push (mem p) n in (saved (autosave p && manifest n && is_ok r) p m, r)
  | PO (OTag n t) =>
    let '(m, r) := tag c (mem p) n t in (saved (autosave p && is_ok r) p m, r)
  | PO (OUntag t) =>
    let '(m, r) := untag (mem p) t in (saved (autosave p && is_ok r) p m, r)
  | PO (ODelete n) =>
    (* delete() saves when it removed or added a reference *)
    let '(m, r) := delete c ord_id (mem p) n in
    (saved (autosave p && negb (entries_eqb (idx m) (idx (mem p))) &&
            (delete_saves_before_unlink || is_ok r)) p m, r)
  | PO OGC =>
    let '(m, r) := gc c kl (fun _ => candidates (idx (mem p))) (mem p) in
    (saved (autosave p && is_ok r) p m, r)
  | PO OReopen =>
    ({| mem := reload c (mem p) (disk p); disk := disk p; autosave := true |}, Ok)
  | PO OForeign =>
    let d := filter (fun e => match fst e with RTag _ => true | _ => false end) (disk p) in
    ({| mem := reload c (mem p) d; disk := d; autosave := true |}, Ok)
  | PO o' =>
    let '(m, r) := step c kl (mem p) o' in (saved false p m, r)
  | PSave => (saved true p (mem p), Ok)
  | PAutoSave b => ({| mem := mem p; disk := disk p; autosave := b |}, Ok)
  (* storage.Push succeeds, graph.Index fails, the blob is removed again: nothing changes *)
  | PPushBad _ => (p, EOther)
  | PDeleteAlt n =>
    let m0 := mem p in
    let ix := filter (fun e => negb (Nat.eqb (snd e) n)) (idx m0) in
    let m := {| blobs := removeb n (blobs m0); idx := ix; gnodes := gnodes m0;
                strays := strays m0; autogc := autogc m0 |} in
    (saved (autosave p && negb (entries_eqb ix (idx m0)) &&
            (delete_saves_before_unlink || memb n (blobs m0))) p m,
     if memb n (blobs m0) then Ok else ENotFound)
  | PGCBlocked order k =>
    let '(m, r) := gc_cancel c kl (fun _ => candidates (idx (mem p))) order k (mem p) in
    (saved (autosave p && gc_saves_before_sweep && match r with ECanceled => true | _ => false end) p m,
     match r with ECanceled => EOther | _ => r end)
  | PGCCancel true _ _ => (p, ECanceled)
  | PGCCancel false order k =>
    let '(m, r) := gc_cancel c kl (fun _ => candidates (idx (mem p))) order k (mem p) in
    (* a sweep that can be interrupted only exists if the context is tested in it; the index
       written before the sweep is on disk when it is interrupted *)
    (saved (autosave p && gc_saves_before_sweep && gc_tests_ctx_before_remove &&
            match r with ECanceled => true | _ => false end) p m, r)
  end.

End Model.
