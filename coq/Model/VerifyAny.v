(* content/reader.go VerifyReader over ANY underlying io.Reader (property C05, "every reader
   behaviour"): the reader below the TeeReader is an arbitrary state machine
   [rd : S -> nat -> rres * S] (one Read(p) with len(p) = k) -- in particular another
   VerifyReader, to any depth (callers that verify on their own before a Push that verifies
   again).  The definitions are those of Model/Verify.v ([vr_read], [tee_read], [ensure_eof],
   [vr_verify], [vr_run]) with [base_read comb] replaced by [rd]; Proofs/VerifyAny.v shows that
   the instance at [base_read comb] IS the harness-exercised model of Model/Verify.v.
   No proofs in this file. *)
From Oras Require Import Base.Prelude Generated.GC05 Model.Verify.

Section Any.
  Variable H : str -> str -> str.
  Context {S : Type}.
  Variable rd : S -> nat -> rres * S.

  Record gvr := mkG { g_src : S; g_N : Z; g_hashed : str; g_err : option rerr; g_verified : bool }.

  Definition g_set_err (v : gvr) (e : rerr) : gvr :=
    mkG (g_src v) (g_N v) (g_hashed v) (Some e) (g_verified v).

  (* NewVerifyReader (with the negative-size repair) *)
  Definition g_new (src : S) (dg : str) (sz : Z) : gvr :=
    if negb (valid_digest dg) then mkG src sz [] (Some EBadDigest) false
    else if (sz <? 0)%Z then mkG src sz [] (Some EInvalidSize) false
    else mkG src sz [] None false.

  (* VerifyReader.Read over io.LimitedReader over io.TeeReader over [rd] *)
  Definition g_read (v : gvr) (k : nat) : rres * gvr :=
    match g_err v with
    | Some e => (([], Some e), v)
    | None =>
        if (g_N v <=? 0)%Z then (([], Some EEof), g_set_err v EEof)
        else
          let '((bs, e), s') := rd (g_src v) (clamp k (g_N v)) in
          let n' := (g_N v - Z.of_nat (length bs))%Z in
          let v' := mkG s' n' (g_hashed v ++ bs) None (g_verified v) in
          match e with
          | None => ((bs, None), v')
          | Some e0 =>
              let e1 := if is_eof e0 && (n' >? 0)%Z then EUnexpEof else e0 in
              ((bs, Some e1), g_set_err v' e1)
          end
    end.

  Definition g_tee_read (st : S * str) (k : nat) : rres * (S * str) :=
    let '((bs, e), s') := rd (fst st) k in ((bs, e), (s', snd st ++ bs)).

  Definition g_ensure_eof (fuel : nat) (st : S * str) : bool * (S * str) :=
    let '((_, e), st') := read_full g_tee_read fuel st 1 [] in
    (match e with Some EEof => true | _ => false end, st').

  Definition g_verify (fuel : nat) (dg : str) (v : gvr) : option rerr * gvr :=
    if g_verified v then (None, v)
    else
      let stop := match g_err v with
                  | None => if (g_N v >? 0)%Z then Some EEarly else None
                  | Some EEof => None
                  | Some e => Some e
                  end in
      match stop with
      | Some e => (Some e, v)
      | None =>
          let '(ok, (s', h')) := g_ensure_eof fuel (g_src v, g_hashed v) in
          let v1 := mkG s' (g_N v) h' (g_err v) false in
          if negb ok then (Some ETrailing, g_set_err v1 ETrailing)
          else if verified H dg h' then (None, mkG s' (g_N v) h' (Some EEof) true)
          else (Some EMismatch, g_set_err v1 EMismatch)
      end.

  (* any use: a sequence of Read(k) and Verify calls; [out] = the bytes the Reads returned,
     [oks] = how many Verify calls answered nil *)
  Fixpoint g_run (fuel : nat) (dg : str) (ops : list vop) (v : gvr) (out : str) (oks : nat) : gvr * str * nat :=
    match ops with
    | [] => (v, out, oks)
    | OpRead k :: r => let '((bs, _), v') := g_read v k in g_run fuel dg r v' (out ++ bs) oks
    | OpVerify :: r =>
        let '(e, v') := g_verify fuel dg v in
        g_run fuel dg r v' out (match e with None => Datatypes.S oks | Some _ => oks end)
    end.
End Any.

(* the embedding of the concrete reader of Model/Verify.v *)
Definition to_g (v : vrd) : gvr (S := base) :=
  mkG (v_base v) (v_N v) (v_hashed v) (v_err v) (v_verified v).
