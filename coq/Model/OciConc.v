(* Concurrent operations on the OCI store, at the level of their atomic steps, for C08:
   "every interleaving leaves index.json = the live references at quiescence" and "a
   reference is only registered for content that exists".  No proofs in this file.

   The ORDER of the synchronisation calls inside the Go functions is not written down here: it
   is read from the generated call sequences of Generated/GC08.v (tools/gosrc2v kind callseq
   over Store.saveIndex / Store.Tag / ...), so that moving `s.indexLock.Lock()` below
   `s.tagResolver.Map()`, or `s.sync.RLock()` below `s.storage.Exists`, changes the programs
   the threads of these transition systems run (and the lemmas in Proofs/OciConc.v that say the
   generated programs are the well-locked ones stop checking).

   System 1 (index.json).  Shared: the live reference map (any type L; every resolver call is
   atomic under resolver.Memory's own lock), index.json (any type D, written as [proj c v] of a
   snapshot v, c = the map iteration orders of that save), indexLock.  A thread runs a list of
   operations; an operation = some registrations (functions L -> L: Tag registers twice, Untag
   once, SaveIndex none, a manifest Push once) followed by the steps of saveIndex.
   System 2 (content).  Shared: one blob file, the references to it, the store's RWMutex.
   Taggers run the steps of Store.Tag, deleters those of Store.Delete (exclusive lock, drop the
   references, save, remove the blob), pushers re-create the blob under the read lock. *)
From Coq Require Import List Arith Bool.
From Oras Require Import Base.Prelude Generated.GC08.
Import ListNotations.
Local Open Scope nat_scope.

(* ---------- system 1: saveIndex ---------- *)
Inductive sstep := SLock | SSnap | SWrite | SUnlock.

Definition sstep_eqb (a b : sstep) : bool :=
  match a, b with
  | SLock, SLock | SSnap, SSnap | SWrite, SWrite | SUnlock, SUnlock => true
  | _, _ => false
  end.
Fixpoint sprog_eqb (a b : list sstep) : bool :=
  match a, b with
  | [], [] => true
  | x :: a', y :: b' => sstep_eqb x y && sprog_eqb a' b'
  | _, _ => false
  end.

(* the steps of saveIndex from its generated call sequence; the deferred Unlock comes last *)
Definition sstep_of_call (c : str) : list sstep :=
  if str_eqb c (b "s.indexLock.Lock") then [SLock]
  else if str_eqb c (b "s.tagResolver.Map") then [SSnap]
  else if str_eqb c (b "s.writeIndexFile") then [SWrite]
  else [].
Definition save_prog_of (calls : list str) : list sstep := flat_map sstep_of_call calls ++ [SUnlock].
Definition save_prog : list sstep := save_prog_of c08_calls_saveIndex.
Definition good_save : list sstep := [SLock; SSnap; SWrite; SUnlock].

Section SaveLTS.
  Variables L D C : Type.     (* C: the map iteration orders of one save *)
  Variable proj : C -> L -> D.

  Record thread := mkTh {
    t_regs : list (L -> L);                          (* registrations still to do in this operation *)
    t_save : list sstep;                             (* rest of this operation's saveIndex *)
    t_snap : option L;                               (* refMap of this saveIndex *)
    t_ops : list (list (L -> L) * list sstep) }.     (* operations still to start *)
  Record sstate := mkSt { live : L; disk : D; ilock : option nat; ths : nat -> thread }.

  Definition upd (f : nat -> thread) (i : nat) (t : thread) : nat -> thread :=
    fun j => if Nat.eqb j i then t else f j.

  (* one atomic step of thread i (None: blocked or finished); c = map orders of a write *)
  Definition th_step (i : nat) (c : C) (s : sstate) : option sstate :=
    let t := ths s i in
    match t_regs t with
    | f :: fs => Some (mkSt (f (live s)) (disk s) (ilock s) (upd (ths s) i (mkTh fs (t_save t) (t_snap t) (t_ops t))))
    | [] =>
      match t_save t with
      | SLock :: r =>
        match ilock s with
        | None => Some (mkSt (live s) (disk s) (Some i) (upd (ths s) i (mkTh [] r (t_snap t) (t_ops t))))
        | Some _ => None
        end
      | SSnap :: r => Some (mkSt (live s) (disk s) (ilock s) (upd (ths s) i (mkTh [] r (Some (live s)) (t_ops t))))
      | SWrite :: r =>
        let v := match t_snap t with Some v => v | None => live s end in
        Some (mkSt (live s) (proj c v) (ilock s) (upd (ths s) i (mkTh [] r (t_snap t) (t_ops t))))
      | SUnlock :: r =>
        Some (mkSt (live s) (disk s)
                   (match ilock s with Some j => if Nat.eqb j i then None else Some j | None => None end)
                   (upd (ths s) i (mkTh [] r None (t_ops t))))
      | [] =>
        match t_ops t with
        | (rg, sv) :: more => Some (mkSt (live s) (disk s) (ilock s) (upd (ths s) i (mkTh rg sv None more)))
        | [] => None
        end
      end
    end.

  (* a schedule: which thread moves next (blocked / finished choices are skipped) *)
  Fixpoint run_sched (sched : list (nat * C)) (s : sstate) : sstate :=
    match sched with
    | [] => s
    | (i, c) :: r => run_sched r (match th_step i c s with Some s' => s' | None => s end)
    end.

  Definition th_done (t : thread) : Prop := t_regs t = [] /\ t_save t = [] /\ t_ops t = [].
  Definition quiescent (s : sstate) : Prop := forall i, th_done (ths s i).
  Definition th_fresh (prog : list sstep) (t : thread) : Prop :=
    t_regs t = [] /\ t_save t = [] /\ t_snap t = None /\ Forall (fun o => snd o = prog) (t_ops t).
  (* the store at rest: index.json current, nobody holds indexLock, every thread is about to run
     operations whose saveIndex is [prog] *)
  Definition s_init (prog : list sstep) (s : sstate) : Prop :=
    (exists c, disk s = proj c (live s)) /\ ilock s = None /\ forall i, th_fresh prog (ths s i).
End SaveLTS.

(* ---------- system 2: Tag against Delete (and Push) of the same content ---------- *)
Inductive gstep := GRLock | GExists | GReg | GRUnlock      (* Store.Tag *)
                 | DWLock | DUntag | DRemove | DWUnlock    (* Store.Delete / delete *)
                 | PRLock | PCreate | PRUnlock.            (* Store.Push *)

Definition gstep_eqb (a b : gstep) : bool :=
  match a, b with
  | GRLock, GRLock | GExists, GExists | GReg, GReg | GRUnlock, GRUnlock
  | DWLock, DWLock | DUntag, DUntag | DRemove, DRemove | DWUnlock, DWUnlock
  | PRLock, PRLock | PCreate, PCreate | PRUnlock, PRUnlock => true
  | _, _ => false
  end.
Fixpoint gprog_eqb (a b : list gstep) : bool :=
  match a, b with
  | [], [] => true
  | x :: a', y :: b' => gstep_eqb x y && gprog_eqb a' b'
  | _, _ => false
  end.

Definition tag_step_of_call (c : str) : list gstep :=
  if str_eqb c (b "s.sync.RLock") then [GRLock]
  else if str_eqb c (b "s.storage.Exists") then [GExists]
  else if str_eqb c (b "s.tag") then [GReg]
  else [].
Definition tag_prog_of (calls : list str) : list gstep := flat_map tag_step_of_call calls ++ [GRUnlock].
Definition tag_prog : list gstep := tag_prog_of c08_calls_Tag.
Definition good_tag : list gstep := [GRLock; GExists; GReg; GRUnlock].

Definition del_step_of_call (c : str) : list gstep :=
  if str_eqb c (b "s.sync.Lock") then [DWLock]
  else if str_eqb c (b "s.tagResolver.Untag") then [DUntag]
  else if str_eqb c (b "s.storage.Delete") then [DRemove]
  else [].
(* Delete = exclusive lock, then delete(): references dropped before the blob is removed *)
Definition del_prog_of (callsDelete callsdelete : list str) : list gstep :=
  flat_map del_step_of_call (firstn 1 callsDelete) ++ flat_map del_step_of_call callsdelete ++ [DWUnlock].
Definition del_prog : list gstep := del_prog_of c08_calls_Delete c08_calls_delete.
Definition good_del : list gstep := [DWLock; DUntag; DRemove; DWUnlock].

Definition push_step_of_call (c : str) : list gstep :=
  if str_eqb c (b "s.sync.RLock") then [PRLock]
  else if str_eqb c (b "s.storage.Push") then [PCreate]
  else [].
Definition push_prog_of (calls : list str) : list gstep := flat_map push_step_of_call calls ++ [PRUnlock].
Definition push_prog : list gstep := push_prog_of c08_calls_Push.
Definition good_push : list gstep := [PRLock; PCreate; PRUnlock].

Record gthread := mkG { g_prog : list gstep; g_r : bool; g_w : bool; g_ok : bool }.
Record gstate := mkGS { blob : bool; refs : nat; gn : nat; gths : nat -> gthread }.

Definition gupd (f : nat -> gthread) (i : nat) (t : gthread) : nat -> gthread :=
  fun j => if Nat.eqb j i then t else f j.
Definition any_w (s : gstate) : bool := existsb (fun j => g_w (gths s j)) (seq 0 (gn s)).
Definition any_rw (s : gstate) : bool := existsb (fun j => g_w (gths s j) || g_r (gths s j)) (seq 0 (gn s)).

(* one atomic step of thread i < gn *)
Definition g_step (i : nat) (s : gstate) : option gstate :=
  if negb (Nat.ltb i (gn s)) then None else
  let t := gths s i in
  let set p r w ok := gupd (gths s) i (mkG p r w ok) in
  match g_prog t with
  | [] => None
  | GRLock :: p | PRLock :: p =>
    if any_w s then None else Some (mkGS (blob s) (refs s) (gn s) (set p true (g_w t) (g_ok t)))
  | GExists :: p => Some (mkGS (blob s) (refs s) (gn s) (set p (g_r t) (g_w t) (blob s)))
  | GReg :: p => (* Tag returned NotFound if the check failed *)
    Some (mkGS (blob s) (if g_ok t then S (refs s) else refs s) (gn s) (set p (g_r t) (g_w t) (g_ok t)))
  | GRUnlock :: p | PRUnlock :: p => Some (mkGS (blob s) (refs s) (gn s) (set p false (g_w t) (g_ok t)))
  | DWLock :: p =>
    if any_rw s then None else Some (mkGS (blob s) (refs s) (gn s) (set p (g_r t) true (g_ok t)))
  | DUntag :: p => Some (mkGS (blob s) 0 (gn s) (set p (g_r t) (g_w t) (g_ok t)))
  | DRemove :: p => Some (mkGS false (refs s) (gn s) (set p (g_r t) (g_w t) (g_ok t)))
  | DWUnlock :: p => Some (mkGS (blob s) (refs s) (gn s) (set p (g_r t) false (g_ok t)))
  | PCreate :: p => Some (mkGS true (refs s) (gn s) (set p (g_r t) (g_w t) (g_ok t)))
  end.

Fixpoint g_run (sched : list nat) (s : gstate) : gstate :=
  match sched with
  | [] => s
  | i :: r => g_run r (match g_step i s with Some s' => s' | None => s end)
  end.

Definition g_quiescent (s : gstate) : Prop := forall i, i < gn s -> g_prog (gths s i) = [].
(* every reference points to existing content *)
Definition g_valid (s : gstate) : Prop := refs s > 0 -> blob s = true.
(* at rest: valid, nobody holds the RWMutex, every thread is about to run one whole operation *)
Definition g_init (tagp delp pushp : list gstep) (s : gstate) : Prop :=
  g_valid s /\
  forall i, i < gn s -> g_r (gths s i) = false /\ g_w (gths s i) = false /\
    (g_prog (gths s i) = tagp \/ g_prog (gths s i) = delp \/ g_prog (gths s i) = pushp \/ g_prog (gths s i) = []).

(* ---------- system 1 on the resolver map: what the operations register ---------- *)
From Oras Require Import Model.OciIndex.

Inductive rreg := RegDig (d : desc)              (* tagResolver.Tag(desc, digest) *)
                | RegTag (t : nat) (d : desc)    (* tagResolver.Tag(desc, tag) *)
                | RegUntag (t : nat).            (* tagResolver.Untag(tag) *)
Definition reg_fun (r : rreg) (ix : rmap) : rmap :=
  match r with
  | RegDig d => rset (RDig (d_node d)) d ix
  | RegTag t d => rset (RTag t) d ix
  | RegUntag t => runset (RTag t) ix
  end.
(* the index-saving operations that run under the shared store lock *)
Inductive cop := CTag (d : desc) (t : nat)   (* Store.Tag with a tag name: digest first, then the tag (c08_calls_tag) *)
               | CTagDigest (d : desc)       (* Store.Tag by digest / Push of a manifest *)
               | CUntag (t : nat)
               | CSave.
Definition cop_regs (o : cop) : list rreg :=
  match o with
  | CTag d t => [RegDig d; RegTag t d]
  | CTagDigest d => [RegDig d]
  | CUntag t => [RegUntag t]
  | CSave => []
  end.
Definition cop_thread_op (o : cop) : list (rmap -> rmap) * list sstep := (map reg_fun (cop_regs o), save_prog).

(* ---------- GC's sweep of files that are no content, from the sources ---------- *)
From Coq Require Import String.
Definition alg_known (a : string) : bool := existsb (String.eqb a) c08_known_algorithms.
(* a file blobs/<alg>/<name> that is not in the graph is removed iff the directory is a known
   algorithm and the name is a valid encoded digest of it *)
Definition stray_swept (alg : string) (valid_name : bool) : bool := alg_known alg && valid_name.
Definition stray_of_kind (k : stray) : string * bool :=
  match k with
  | SValidName => ("digest.SHA256"%string, true)
  | SInvalidName => ("digest.SHA256"%string, false)
  | SUnknownAlg => ("sha999"%string, true)
  | SBlobsFile => (""%string, false)
  end.
