(* C15 -- the string level of the listing requests (no proofs in this file).

   Model/Paging.v treats a URL as (path, association list) and leaves net/url to a
   parameter [resolve].  This file models, on byte strings, what the code really does
   between two pages:

     parseLink          "<...>" extraction (Paging.parse_link), then
     URL.Parse(ref) + URL.ResolveReference + URL.String   (net/url, for a judged subset)
     http.NewRequest    re-parse of that string
     setQueryParams     the raw-query edit for n / last (registry/remote/utils.go)
     url.QueryEscape / url.QueryUnescape

   and the reading a registry makes of the raw query (lenient: '&' separated pairs, first
   '=' splits, what cannot be unescaped is taken literally).  Outside the judged subset
   (fragments, user info, '%' or exotic bytes in a path, non-ASCII ...) the functions
   answer RUnjudged and the correspondence skips the case. *)
From Oras Require Import Base.Prelude Generated.GC15 Model.Paging.

Definition c_amp : N := 38.
Definition c_eq : N := 61.
Definition c_qm : N := 63.
Definition c_hash : N := 35.
Definition c_sl : N := 47.
Definition c_col : N := 58.
Definition c_pct : N := 37.
Definition c_plus : N := 43.
Definition c_dot : N := 46.
Definition ch_at : N := 64.

(* ---------- small string tools ---------- *)

(* strings.Cut: before the first c, and what follows it (None: c absent) *)
Fixpoint cut (c : N) (s : str) : str * option str :=
  match s with
  | [] => ([], None)
  | d :: s' => if d =? c then ([], Some s')
               else let '(a, r) := cut c s' in (d :: a, r)
  end.

Fixpoint join (sep : str) (l : list str) : str :=
  match l with
  | [] => []
  | [x] => x
  | x :: l' => x ++ sep ++ join sep l'
  end.

Fixpoint has_prefix (p s : str) : bool :=
  match p, s with
  | [], _ => true
  | a :: p', c :: s' => (a =? c) && has_prefix p' s'
  | _, [] => false
  end.

Definition is_alpha (c : N) : bool := ((65 <=? c) && (c <=? 90)) || ((97 <=? c) && (c <=? 122)).
Definition is_digit (c : N) : bool := (48 <=? c) && (c <=? 57).
Definition to_lower (c : N) : N := if (65 <=? c) && (c <=? 90) then c + 32 else c.

(* ---------- url.QueryEscape / url.QueryUnescape ---------- *)

Definition hexval (c : N) : option N :=
  if is_digit c then Some (c - 48)
  else if (97 <=? c) && (c <=? 102) then Some (c - 87)
  else if (65 <=? c) && (c <=? 70) then Some (c - 55)
  else None.

Definition hexdig (v : N) : N := if v <? 10 then 48 + v else 55 + v.   (* upper case *)

(* unreserved characters are the only ones QueryEscape leaves alone *)
Definition unreserved (c : N) : bool :=
  is_alpha c || is_digit c || (c =? 45) || (c =? 95) || (c =? 46) || (c =? 126).

Fixpoint query_escape (s : str) : str :=
  match s with
  | [] => []
  | c :: s' =>
    if unreserved c then c :: query_escape s'
    else if c =? 32 then c_plus :: query_escape s'
    else c_pct :: hexdig (c / 16) :: hexdig (c mod 16) :: query_escape s'
  end.

Fixpoint query_unescape (s : str) : option str :=
  match s with
  | [] => Some []
  | c :: r =>
    if c =? c_pct then
      match r with
      | h1 :: h2 :: r' =>
        match hexval h1, hexval h2, query_unescape r' with
        | Some a, Some b0, Some t => Some (16 * a + b0 :: t)
        | _, _, _ => None
        end
      | _ => None
      end
    else match query_unescape r with
         | Some t => Some ((if c =? c_plus then 32 else c) :: t)
         | None => None
         end
  end.

Definition unescape_or_raw (s : str) : str :=
  match query_unescape s with Some t => t | None => s end.

(* ---------- the raw query ---------- *)

(* the pairs of a raw query as written: segments between '&', empty ones skipped *)
Definition raw_params (raw : str) : list str :=
  filter (fun p => negb (is_empty p)) (split_on c_amp raw).

Definition param_key (p : str) : str := unescape_or_raw (fst (cut c_eq p)).

(* how a registry reads a raw query (fakereg.ParseQueryLenient) *)
Definition parse_query_lenient (raw : str) : list (str * str) :=
  map (fun p => let '(k, v) := cut c_eq p in
                (unescape_or_raw k, match v with Some v' => unescape_or_raw v' | None => [] end))
      (raw_params raw).

(* registry/remote/utils.go setQueryParams *)
Definition set_query_params (raw : str) (kvs : list (str * str)) : str :=
  let kept := filter (fun p => negb (existsb (fun kv => str_eqb (param_key p) (fst kv)) kvs)) (raw_params raw) in
  join [c_amp] (kept ++ map (fun kv => query_escape (fst kv) ++ c_eq :: query_escape (snd kv)) kvs).

(* decimal digits of a number (strconv.Itoa for n >= 0) *)
Fixpoint dec_digits (fuel : nat) (n : N) (acc : str) : str :=
  match fuel with
  | O => acc
  | S f => let acc' := (48 + n mod 10) :: acc in
           if n <? 10 then acc' else dec_digits f (n / 10) acc'
  end.
Definition itoa (n : N) : str := dec_digits 40 n [].

(* the parameters tags()/repositories()/referrersPageByAPI set *)
Definition page_params (c : cfg) (last : str) : list (str * str) :=
  (if (0 <? c_n c)%Z then [(k_n, itoa (Z.to_N (c_n c)))] else []) ++
  (if sends_last (c_kind c) && negb (is_empty last) then [(k_last, last)] else []).

Definition request_query (c : cfg) (raw : str) (last : str) : str :=
  match page_params c last with
  | [] => raw                              (* the code does not touch the query at all *)
  | kvs => set_query_params raw kvs
  end.

(* ---------- net/url: Parse of a reference, ResolveReference, String (judged subset) ---------- *)

Record surl := mkS { s_scheme : str; s_host : str; s_path : str; s_query : str }.

Inductive rres := ROk (u : surl) | RErr | RUnjudged.

(* path bytes whose escaped form is the byte itself, '%' excluded (judged subset) *)
Definition path_char (c : N) : bool :=
  unreserved c || (c =? c_sl) || (c =? c_col) || (c =? ch_at) || (c =? 36) || (c =? c_amp) ||
  (c =? c_plus) || (c =? 44) || (c =? 59) || (c =? c_eq).

(* query bytes kept verbatim: printable ASCII without '#' and blank *)
Definition query_char (c : N) : bool := (33 <=? c) && (c <=? 126) && negb (c =? c_hash).

Definition host_char (c : N) : bool := is_alpha c || is_digit c || (c =? 45) || (c =? c_dot).

(* host or host:port *)
Definition host_ok (h : str) : bool :=
  let '(name, port) := cut c_col h in
  negb (is_empty name) && forallb host_char name &&
  match port with None => true | Some p => forallb is_digit p end.

(* url.getScheme: Some (scheme, rest) | None = no scheme | error when ':' comes first *)
Inductive sres := SScheme (sch rest : str) | SNone | SErr.
Fixpoint get_scheme_aux (pre : str) (s : str) : sres :=
  match s with
  | [] => SNone
  | c :: s' =>
    if is_alpha c then get_scheme_aux (pre ++ [c]) s'
    else if is_digit c || (c =? c_plus) || (c =? 45) || (c =? c_dot) then
      match pre with [] => SNone | _ => get_scheme_aux (pre ++ [c]) s' end
    else if c =? c_col then
      match pre with [] => SErr | _ => SScheme pre s' end
    else SNone
  end.
Definition get_scheme (s : str) : sres := get_scheme_aux [] s.

(* a parsed reference *)
Record pref := mkP {
  p_scheme : option str;
  p_host : option str;
  p_path : str;
  p_query : option str       (* None: no '?'; Some []: "?" alone (ForceQuery) or empty *)
}.

Inductive pres := POk (p : pref) | PErr | PUnjudged.

Definition count (c : N) (s : str) : nat := length (filter (fun d => d =? c) s).

(* a '%' that is not followed by two hex digits: url.unescape fails (invalid URL escape) *)
Fixpoint bad_pct (s : str) : bool :=
  match s with
  | [] => false
  | c :: r =>
    if c =? c_pct then
      match r with
      | h1 :: h2 :: r' =>
        match hexval h1, hexval h2 with
        | Some _, Some _ => bad_pct r'
        | _, _ => true
        end
      | _ => true
      end
    else bad_pct r
  end.

(* after the scheme: query, authority, path *)
Definition parse_rest (sch : option str) (rest0 : str) : pres :=
  let '(rest, q) := cut c_qm rest0 in
  let slash := has_prefix [c_sl] rest in
  match sch, slash with
  | Some _, false => PUnjudged                       (* opaque or empty rest *)
  | _, _ =>
    if negb slash && contains c_col (fst (cut c_sl rest)) then PErr   (* first path segment with a colon *)
    else if has_prefix [c_sl; c_sl; c_sl] rest then PUnjudged
    else if has_prefix [c_sl; c_sl] rest then
      let auth_path := skipn 2 rest in
      let '(auth, p) := cut c_sl auth_path in
      let path := match p with Some p' => c_sl :: p' | None => [] end in
      if host_ok auth && bad_pct path then PErr
      else if host_ok auth && forallb path_char path && forallb query_char (match q with Some x => x | None => [] end)
      then POk (mkP sch (Some auth) path q) else PUnjudged
    else
      if bad_pct rest then PErr
      else if forallb path_char rest && forallb query_char (match q with Some x => x | None => [] end)
      then POk (mkP sch None rest q) else PUnjudged
  end.

Definition parse_ref (ref : str) : pres :=
  if negb (forallb (fun c => (33 <=? c) && (c <=? 126)) ref) || contains c_hash ref then PUnjudged
  else
    match get_scheme ref with
    | SErr => PErr
    | SScheme s r => parse_rest (Some (map to_lower s)) r
    | SNone => parse_rest None ref
    end.

(* url.resolvePath: remove_dot_segments as net/url writes it *)
Fixpoint drop_last {A} (l : list A) : list A :=
  match l with [] => [] | [_] => [] | x :: l' => x :: drop_last l' end.

Definition dot : str := [c_dot].
Definition dotdot : str := [c_dot; c_dot].

(* state: the segments written after the leading '/', and net/url's [first] flag encoded as "no segment yet" *)
Definition seg_step (segs : list str) (elem : str) : list str :=
  if str_eqb elem dot then match segs with [] => [[]] | _ => segs end
  else if str_eqb elem dotdot then
    (* the last segment goes; net/url then sets first := (nothing but the leading '/' is left) *)
    match drop_last segs with [] | [[]] => [] | s' => s' end
  else segs ++ [elem].

Definition resolve_path (base ref : str) : str :=
  let full := match ref with
              | [] => base
              | c :: _ => if c =? c_sl then ref
                          else (* base up to and including its last '/' *)
                            let dirs := drop_last (split_on c_sl base) in
                            (match dirs with [] => [] | _ => join [c_sl] dirs ++ [c_sl] end) ++ ref
              end in
  match full with
  | [] => []
  | _ =>
    let elems := split_on c_sl full in
    let segs := fold_left seg_step elems [] in
    let lastel := last elems [] in
    let segs := if str_eqb lastel dot || str_eqb lastel dotdot then segs ++ [[]] else segs in
    let r := c_sl :: join [c_sl] segs in
    match r with
    | _ :: c2 :: _ => if c2 =? c_sl then tl r else r
    | _ => r
    end
  end.

(* base.Parse(ref) = base.ResolveReference(Parse(ref)) *)
Definition resolve_ref (base : surl) (ref : str) : rres :=
  match parse_ref ref with
  | PErr => RErr
  | PUnjudged => RUnjudged
  | POk p =>
    let q := match p_query p with Some x => x | None => [] end in
    match p_scheme p, p_host p with
    | Some sch, Some h => ROk (mkS sch h (resolve_path (p_path p) []) q)
    | Some _, None => RUnjudged
    | None, Some h => ROk (mkS (s_scheme base) h (resolve_path (p_path p) []) q)
    | None, None =>
      let q' := match p_path p, p_query p with [], None => s_query base | _, _ => q end in
      ROk (mkS (s_scheme base) (s_host base) (resolve_path (s_path base) (p_path p)) q')
    end
  end.

(* URL.String of the resolved URL (what parseLink returns) *)
Definition surl_string (u : surl) : str :=
  s_scheme u ++ [c_col; c_sl; c_sl] ++ s_host u ++ s_path u ++
  (match s_query u with [] => [] | q => c_qm :: q end).

(* ---------- one step of the listing on strings ---------- *)

Inductive nres := NNone | NErrLink | NErrResolve | NUnjudged | NNext (path query : str).

(* base: the URL of the request that was answered; header: the first Link line of the answer;
   result: path and raw query of the next request *)
Definition next_request (c : cfg) (base : surl) (header : str) : nres :=
  match parse_link header with
  | LNone => NNone
  | LErrLt | LErrGt => NErrLink
  | LTarget t =>
    match resolve_ref base t with
    | RErr => NErrResolve
    | RUnjudged => NUnjudged
    | ROk u =>
      (* http.NewRequest parses URL.String again: an empty path stays empty in the URL, the
         request line then uses "/" -- not judged *)
      match s_path u with
      | [] => NUnjudged
      | _ => NNext (s_path u) (request_query c (s_query u) [])
      end
    end
  end.

(* the first request: built URL (query q0: the artifactType of Referrers) plus n / last *)
Definition first_query (c : cfg) (q0 : str) (last : str) : str := request_query c q0 last.

(* buildReferrersURL: "?artifactType=<escaped>" when an artifact type is asked for *)
Definition referrers_q0 (a : str) : str :=
  if is_empty a then [] else k_at ++ c_eq :: query_escape a.

(* ---------- the page loop on strings ---------- *)

(* Tags / Repositories / referrersByAPI as the code runs them: the URL is a string; every page
   request is (path, raw query).  Same structure as Paging.loop, with the request built by
   [request_query] (setQueryParams) and the link followed by [resolve_ref] (net/url).
   None: the run left the judged subset of net/url. *)
Record sreq := mkSR { sr_path : str; sr_query : str }.
Record strace := mkST { st_reqs : list sreq; st_pages : list (list item); st_out : outcome }.

Section ClientS.
  Variable sch host : str.                       (* scheme and host of the registry *)
  Variable serve_s : nat -> sreq -> response.
  Variable cb_fail : nat -> bool.
  Variable c : cfg.

  Definition prepend_s (rq : sreq) (pg : list (list item)) (t : option strace) : option strace :=
    match t with
    | Some t' => Some (mkST (rq :: st_reqs t') (pg ++ st_pages t') (st_out t'))
    | None => None
    end.

  Fixpoint loop_s (fuel : nat) (i k : nat) (p raw last : str) : option strace :=
    match fuel with
    | O => Some (mkST [] [] OutOfFuel)
    | S fuel' =>
      let rq := mkSR p (request_query c raw last) in
      let rs := serve_s i rq in
      match handle c rs with
      | inl e => Some (mkST [rq] [] e)
      | inr page =>
        let dl := delivered c page in
        if dl && cb_fail k then Some (mkST [rq] [page] ErrCallback)
        else
          let pg := if dl then [page] else [] in
          let k' := if dl then S k else k in
          match parse_link (rs_link rs) with
          | LNone => Some (mkST [rq] pg Done)
          | LErrLt | LErrGt => Some (mkST [rq] pg ErrLink)
          | LTarget t =>
            match resolve_ref (mkS sch host (sr_path rq) (sr_query rq)) t with
            | RErr => Some (mkST [rq] pg ErrResolve)
            | RUnjudged => None
            | ROk u =>
              match s_path u with
              | [] => None
              | _ => prepend_s rq pg (loop_s fuel' (S i) k' (s_path u) (s_query u) [])
              end
            end
          end
      end
    end.
End ClientS.

(* strconv.Atoi on what itoa writes: decimal digits only *)
Definition atoi (s : str) : option N :=
  match s with
  | [] => None
  | _ => if forallb is_digit s then Some (fold_left (fun a c => 10 * a + (c - 48)) s 0) else None
  end.
