(* CopyPermit -- C04: the real semaphore's FREE-PERMIT READINGS as part of the recorded run.
   No proofs in this file.

   In CopyGraph runs made through the verif hook (oras.VerifCopyGraphWithLimiter) the harness owns the
   limiter and counts its free permits inside the recorder's critical section, right after every
   recorded event.  A reading f is CONSISTENT with the run so far when the permits that the
   permit-holding overlay (Model/CopyHold.v) knows to be held, plus the free ones, fit into K:

        holders g st + f <= K

   (the tasks that certainly hold a permit keep it between two of their own recorded events, hence
   also while the reading is taken; the code may hold more -- a task between its last event and its
   deferred lr.End(), the dispatch loop's freshly acquired permit -- never fewer).  On the protocol
   model the same statement is  free s + #{tasks in a must_hold counter} <= K
   (C04_free_permits_cover_must_hold).  The reading taken after the call returned must show ALL K
   permits free (on the protocol model: C04_all_permits_free_at_return) -- a leaked permit is a
   rejected run.

   Transport: the shared driver ml/c01_main.ml only knows CopySpec's event tokens.  A reading is
   carried as the token TB.<f> (event TagB f); dst.Tag is never called by CopyGraph, and no trace of
   mode MGraph accepted by the transition system contains TagB (C04_no_tag_in_copygraph), so the
   encoding is unambiguous.  [decode] undoes it; readings exist only in mode MGraph. *)
From Oras Require Import Base.Prelude Model.CopySpec Model.CopyOpt Model.CopyCancel Model.CopyHold.
Local Open Scope nat_scope.

Inductive pev :=
| PEv (e : event)        (* a recorded event of the copy *)
| PFree (f : nat).       (* the limiter had f free permits right after the previous event *)

(* while the call runs: the permits certainly held and the free ones fit into K;
   once the call has returned (nil or an error): every permit is free again *)
Definition reading_ok (g : graph) (c : cfg) (st : state) (f : nat) : bool :=
  match returned st with
  | None => Nat.leb (holders g st + f) (c_K c)
  | Some _ => Nat.eqb f (c_K c)
  end.

(* one item of the recorded run: an event goes through the overlay (nil callbacks elaborated), a
   reading is checked against the state and changes nothing *)
Definition pstep_opt (cs : cbset) (g : graph) (c : cfg) (st : state) (pe : pev) : option (state * list event) :=
  match pe with
  | PEv e => step_opt_h cs g c st e
  | PFree f => if reading_ok g c st f then Some (st, []) else None
  end.

Fixpoint prun_opt (cs : cbset) (g : graph) (c : cfg) (st : state) (tr : list pev) : option (state * list event) :=
  match tr with
  | [] => Some (st, [])
  | pe :: tr' =>
      match pstep_opt cs g c st pe with
      | None => None
      | Some (st1, full1) =>
          match prun_opt cs g c st1 tr' with
          | None => None
          | Some (st2, full2) => Some (st2, full1 ++ full2)
          end
      end
  end.

Definition paccepts_opt (cs : cbset) (g : graph) (c : cfg) (d0 : list node) (tr : list pev) :=
  prun_opt cs g c (init c d0) tr.

(* the events of a recorded run, readings dropped *)
Fixpoint events_of (tr : list pev) : list event :=
  match tr with
  | [] => []
  | PEv e :: r => e :: events_of r
  | PFree _ :: r => events_of r
  end.

(* ---- transport encoding ---- *)
Definition decode (c : cfg) (e : event) : pev :=
  match c_mode c, e with
  | MGraph, TagB f => PFree f
  | _, _ => PEv e
  end.

(* what the runner and the in-Coq re-evaluation call: same shapes as step_opt / run_opt / cstep_opt *)
Definition step_opt_p (cs : cbset) (g : graph) (c : cfg) (st : state) (e : event) : option (state * list event) :=
  pstep_opt cs g c st (decode c e).

Fixpoint run_opt_p (cs : cbset) (g : graph) (c : cfg) (st : state) (tr : list event) : option (state * list event) :=
  match tr with
  | [] => Some (st, [])
  | e :: tr' =>
      match step_opt_p cs g c st e with
      | None => None
      | Some (st1, full1) =>
          match run_opt_p cs g c st1 tr' with
          | None => None
          | Some (st2, full2) => Some (st2, full1 ++ full2)
          end
      end
  end.

Definition cstep_opt_p (cs : cbset) (g : graph) (c : cfg) (s : cstate) (ce : cevent)
  : option (cstate * list event) :=
  match ce with
  | Ev e =>
      match decode c e with
      | PFree f => if reading_ok g c (cs_st s) f then Some (s, []) else None
      | PEv _ => cstep_opt_h cs g c s ce
      end
  | Cancel => cstep_opt_h cs g c s ce
  end.
