(* Model/IndexLTS.v -- concurrent operations of content/oci.Store that end in
   saveIndex, as a labelled transition system.  No proofs here.

   Store.Push of a manifest / Store.Tag / Store.Untag run under sync.RLock, i.e.
   concurrently with each other.  Each of them is, in program order:
     pc 0 -> 1   storage.Push + graph.Index      (Push only; a no-op step for Tag/Untag)
     pc 1 -> 2   the resolver update             (tagResolver.Tag / Untag: sync.Map operation)
     pc 2 -> 4   saveIndex: under indexLock, refMap := tagResolver.Map() and index.json :=
                 projection of refMap (oci.go saveIndex/writeIndexFile).  In the code as it is
                 ([atomic = true]) the snapshot and the write are ONE step: indexLock is held
                 from before the snapshot until after the rename.
   The [atomic = false] variant is the same code with the critical section narrowed to the
   write (snapshot taken outside indexLock):
     pc 2 -> 3   snapshot := resolver
     pc 3 -> 4   index.json := snapshot
   An event is the number of the thread that takes its next step; a trace is a list of
   events; [lrun] is the trace acceptor.  Resolver entries are numbers (a by-digest entry
   of manifest n, or a (name, descriptor) pair numbered by the harness); index.json is
   modelled by the list of entries it names (its projection is C08's matter). *)
From Coq Require Import List NArith Bool.
Import ListNotations.
From Oras Require Import Base.Prelude Generated.GC07 Model.GraphMem.
Local Open Scope nat_scope.

(* Is the snapshot of the resolver map taken inside the indexLock section that also writes
   the file?  Read off the source on every run: Generated.GC07.calls_saveIndex is the
   source-order sequence of the calls s.indexLock.Lock / s.indexLock.Unlock /
   s.tagResolver.Map / s.writeIndexFile in Store.saveIndex (translator kind "callseq"). *)
(* exactly: Lock, (deferred) Unlock, snapshot, write -- the Unlock call directly after the
   Lock in source order is the `defer`; an explicit Unlock between snapshot and write, a
   second Lock, a snapshot before the Lock all give another sequence *)
Definition atomic_calls (l : list str) : bool :=
  match l with
  | [a; u; m; w] => str_eqb a (b "s.indexLock.Lock") && str_eqb u (b "s.indexLock.Unlock")
                    && str_eqb m (b "s.tagResolver.Map") && str_eqb w (b "s.writeIndexFile")
  | _ => false
  end.
Definition save_index_atomic : bool := atomic_calls calls_saveIndex.

Inductive act := ActAdd (e : node) | ActDel (e : node).
Definition apply_act (a : act) (res : list node) : list node :=
  match a with ActAdd e => sadd e res | ActDel e => sdel e res end.

Record thread := mkThread { t_act : act; t_pc : nat; t_snap : list node }.
Record lstate := mkL { l_res : list node; l_disk : list node; l_threads : list thread }.

Fixpoint set_nth {A} (i : nat) (x : A) (l : list A) : list A :=
  match l, i with
  | [], _ => []
  | _ :: r, O => x :: r
  | y :: r, S j => y :: set_nth j x r
  end.

Definition lstep (atomic : bool) (s : lstate) (i : nat) : option lstate :=
  match nth_error (l_threads s) i with
  | None => None
  | Some t =>
    let upd t' := set_nth i t' (l_threads s) in
    match t_pc t with
    | 0 => Some (mkL (l_res s) (l_disk s) (upd (mkThread (t_act t) 1 (t_snap t))))
    | 1 => Some (mkL (apply_act (t_act t) (l_res s)) (l_disk s) (upd (mkThread (t_act t) 2 (t_snap t))))
    | 2 => if atomic
           then Some (mkL (l_res s) (l_res s) (upd (mkThread (t_act t) 4 (t_snap t))))
           else Some (mkL (l_res s) (l_disk s) (upd (mkThread (t_act t) 3 (l_res s))))
    | 3 => if atomic then None
           else Some (mkL (l_res s) (t_snap t) (upd (mkThread (t_act t) 4 (t_snap t))))
    | _ => None
    end
  end.

Fixpoint lrun (atomic : bool) (s : lstate) (trace : list nat) : option lstate :=
  match trace with
  | [] => Some s
  | i :: r => match lstep atomic s i with Some s' => lrun atomic s' r | None => None end
  end.

Definition all_done (s : lstate) : bool := forallb (fun t => Nat.eqb (t_pc t) 4) (l_threads s).
Definition linit (res : list node) (acts : list act) : lstate :=
  mkL res res (map (fun a => mkThread a 0 []) acts).
