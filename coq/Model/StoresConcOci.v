(* C06 -- concurrent executions of the OCI layout store as interleavings of its atomic
   steps (no proofs in this file).

   content/oci: every operation except Delete holds Store.sync.RLock for its whole
   duration; Delete takes the exclusive lock, i.e. it runs only while no other operation
   is in flight and is atomic with respect to all of them.
     Push   = os.Stat (already exists?) ; ingest + verify into a private temp file ;
              os.Rename (the commit; on Linux it replaces an existing blob file) ;
              graph.index under the graph lock (Successors re-reads the blob file) ;
              for manifests tagResolver.Tag(desc, digest) under the resolver lock
     Tag    = validateReference ; digest-form references must be desc's own ; Exists (stat) ;
              for a manifest media type graph.Index(desc) ; tagResolver.Tag(desc, digest) unless
              the reference is that digest ; tagResolver.Tag(desc, reference) (the commit)
     Untag  = tagResolver.Resolve + digest check ; tagResolver.Untag (the commit)
     Fetch / Exists / Resolve / Predecessors / Tags = atomic reads
   (saveIndex / index.json: C08, C10.)  Ghost components as in Model/StoresConc.v. *)
From Oras Require Import Base.Prelude Model.Stores Model.StoresConc.

Inductive opc :=
| OIdle
| OPush2 (d : desc) (c : blob)   (* absent at stat, ingested and verified; before rename *)
| OPush3 (d : desc)              (* renamed; before graph.index *)
| OPush4 (d : desc)              (* indexed, manifest; before the tag by digest *)
| OTagIx (d : desc) (r : ref)    (* exists, manifest media type; before graph.Index(desc) *)
| OTag2 (d : desc) (r : ref)     (* exists; before tagResolver.Tag(desc, digest) *)
| OTag3 (d : desc) (r : ref)     (* before tagResolver.Tag(desc, reference) *)
| OUntag2 (r : ref).             (* resolved and not its own digest; before tagResolver.Untag *)

Record othread := mkOT { ot_pc : opc; ot_ops : list op }.

Record oconf := mkOC {
  oc_store : oci_store;
  oc_threads : list othread;
  oc_log : list (nat * op);
  oc_indexed : list gkey }.

Definition othread_idle (t : othread) : bool := match ot_pc t with OIdle => true | _ => false end.

(* step result: store, thread, committed operations, keys indexed, key un-indexed (Delete) *)
Definition othread_step (others_idle : bool) (s : oci_store) (t : othread)
  : option (oci_store * othread * list op * list gkey * option gkey) :=
  match ot_pc t with
  | OIdle =>
      match ot_ops t with
      | [] => None
      | o :: rest =>
          let done := Some (s, mkOT OIdle rest, [o], [], None) in
          match o with
          | Push d c =>
              match get N.eqb (d_dig d) (o_blobs s) with
              | Some _ => done
              | None => if verify d c then Some (s, mkOT (OPush2 d c) rest, [], [], None) else done
              end
          | Tag d r =>
              match r with
              | REmpty => done
              | _ => if foreign_digest_ref d r then done
                     else if is_some (get N.eqb (d_dig d) (o_blobs s))
                     then Some (s, mkOT (if is_manifest (d_mt d) then OTagIx d r
                                         else if ref_eqb r (RDig (d_dig d)) then OTag3 d r else OTag2 d r) rest,
                                [], [], None)
                     else done
              end
          | Untag r =>
              match r with
              | REmpty => done
              | _ => match get ref_eqb r (r_index (o_res s)) with
                     | None => done
                     | Some d0 => if ref_eqb r (RDig (d_dig d0)) then done
                                  else Some (s, mkOT (OUntag2 r) rest, [], [], None)
                     end
              end
          | Delete d =>
              (* Store.sync.Lock(): only while nobody else is inside an operation *)
              if others_idle
              then Some (fst (oci_step s (Delete d)), mkOT OIdle rest, [o], [], Some (gk d))
              else None
          | _ => done
          end
      end
  | OPush2 d c =>
      Some (mkOci (put N.eqb (d_dig d) c (o_blobs s)) (o_res s) (o_graph s),
            mkOT (OPush3 d) (ot_ops t), [Push d c], [], None)
  | OPush3 d =>
      let next := mkOT (if is_manifest (d_mt d) then OPush4 d else OIdle) (ot_ops t) in
      match get N.eqb (d_dig d) (o_blobs s) with
      | Some c => Some (mkOci (o_blobs s) (o_res s) (g_index d (succ_of (gk d) c) (o_graph s)),
                        next, [], [gk d], None)
      | None => Some (s, mkOT OIdle (ot_ops t), [], [], None)
      end
  | OTagIx d r =>
      let next := mkOT (if ref_eqb r (RDig (d_dig d)) then OTag3 d r else OTag2 d r) (ot_ops t) in
      match get N.eqb (d_dig d) (o_blobs s) with
      | Some c => Some (mkOci (o_blobs s) (o_res s) (g_index d (succ_of (gk d) c) (o_graph s)),
                        next, [], [gk d], None)
      | None => Some (s, mkOT OIdle (ot_ops t), [Tag d r], [], None)
      end
  | OPush4 d =>
      Some (mkOci (o_blobs s) (res_tag d (RDig (d_dig d)) (o_res s)) (o_graph s),
            mkOT OIdle (ot_ops t), [], [], None)
  | OTag2 d r =>
      Some (mkOci (o_blobs s) (res_tag d (RDig (d_dig d)) (o_res s)) (o_graph s),
            mkOT (OTag3 d r) (ot_ops t), [], [], None)
  | OTag3 d r =>
      Some (mkOci (o_blobs s) (res_tag d r (o_res s)) (o_graph s),
            mkOT OIdle (ot_ops t), [Tag d r], [], None)
  | OUntag2 r =>
      Some (mkOci (o_blobs s) (res_untag r (o_res s)) (o_graph s),
            mkOT OIdle (ot_ops t), [Untag r], [], None)
  end.

(* all goroutines except number i are between operations *)
Fixpoint others_idle_at (i : nat) (l : list othread) : bool :=
  match l, i with
  | [], _ => true
  | _ :: l', O => forallb othread_idle l'
  | t :: l', S j => othread_idle t && others_idle_at j l'
  end.

Definition oconf_step (cf : oconf) (i : nat) : oconf :=
  match nth_error (oc_threads cf) i with
  | None => cf
  | Some t =>
      match othread_step (others_idle_at i (oc_threads cf)) (oc_store cf) t with
      | None => cf
      | Some (s', t', lg, ix, un) =>
          mkOC s' (upd_nth i t' (oc_threads cf)) (oc_log cf ++ map (pair i) lg)
               (ix ++ match un with
                      | Some k => set_del gkey_eqb k (oc_indexed cf)
                      | None => oc_indexed cf
                      end)
      end
  end.

Definition oconf_init (progs : list (list op)) : oconf :=
  mkOC oci_init (map (fun p => mkOT OIdle p) progs) [] [].

Definition oconf_run (cf : oconf) (sched : list nat) : oconf := fold_left oconf_step sched cf.

Definition othread_done (t : othread) : bool :=
  match ot_pc t, ot_ops t with OIdle, [] => true | _, _ => false end.

Definition oquiescent (cf : oconf) : bool := forallb othread_done (oc_threads cf).
