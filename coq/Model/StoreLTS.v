(* Model/StoreLTS.v -- concurrent operations on content/oci.Store as a labelled
   transition system over the store model of Model/GraphStore.v.  No proofs here.

   Push / Tag / Untag hold Store.sync.RLock and run concurrently; Delete / GC take
   Store.sync.Lock and therefore run only while no other operation is in flight; a reopen
   or an external rewrite of index.json (PForeign) likewise happens between operations.
   Each concurrent operation is split into the atomic steps the code performs
   (oci.go Push:132-148, Tag/tag:246-280, Untag):

     Push n    pc0  storage.Push           refused (AlreadyExists) -> done, else the blob is stored
               pc1  graph.Index            (under the graph lock)
               pc2  tag by digest          manifests only (resolver sync.Map store); else done
               pc3  saveIndex              snapshot + write under indexLock (one step, see IndexLTS.v)
     Tag n     pc0  storage.Exists         not found -> done
               pc1  resolver: by digest
               pc2  resolver: by name
               pc3  saveIndex
     Untag n   pc0  resolver: the node loses its last name (not tagged -> done)
               pc3  saveIndex
     Atomic o  any operation of Model/GraphStore.v (Delete, GC, reopen, foreign index, and
               also a whole sequential Push/Tag/Untag), enabled only when no thread is in flight.

   An event is the number of the thread taking its next step; [crun] is the trace acceptor. *)
From Coq Require Import List NArith Bool Arith.
Import ListNotations.
From Oras Require Import Base.Prelude Generated.GC07 Model.GraphMem Model.GraphStore Model.IndexLTS.
Local Open Scope nat_scope.

Inductive cop := CPush (n : node) | CTag (n : node) | CUntag (n : node) | CAtomic (o : oop).
Record cthread := mkCT { ct_op : cop; ct_pc : nat }.
Record cstate := mkC { c_s : ostore; c_threads : list cthread }.
Definition done_pc : nat := 9.

Definition idle_t (t : cthread) : bool := Nat.eqb (ct_pc t) 0 || Nat.eqb (ct_pc t) done_pc.

Definition with_blobs (s : ostore) l := mkO l (o_bydigest s) (o_tagged s) (o_graph s) (o_dbydigest s) (o_dtagged s).
Definition with_graph (s : ostore) g := mkO (o_blobs s) (o_bydigest s) (o_tagged s) g (o_dbydigest s) (o_dtagged s).
Definition with_bydigest (s : ostore) l := mkO (o_blobs s) l (o_tagged s) (o_graph s) (o_dbydigest s) (o_dtagged s).
Definition with_tagged (s : ostore) l := mkO (o_blobs s) (o_bydigest s) l (o_graph s) (o_dbydigest s) (o_dtagged s).

Definition cstep (content : node -> list node) (isman : node -> bool) (fuel : nat)
           (st : cstate) (i : nat) : option cstate :=
  match nth_error (c_threads st) i with
  | None => None
  | Some t =>
    let s := c_s st in
    let upd s' pc' := Some (mkC s' (set_nth i (mkCT (ct_op t) pc') (c_threads st))) in
    match ct_op t, ct_pc t with
    | CPush n, 0 => if smem n (o_blobs s) then upd s done_pc else upd (with_blobs s (n :: o_blobs s)) 1
    | CPush n, 1 => upd (with_graph s (index (o_graph s) n (content n))) 2
    | CPush n, 2 => if isman n then upd (with_bydigest s (sadd n (o_bydigest s))) 3 else upd s done_pc
    | CPush n, 3 => upd (osave s) done_pc
    | CTag n, 0 => if smem n (o_blobs s) then upd s 1 else upd s done_pc
    | CTag n, 1 => upd (with_bydigest s (sadd n (o_bydigest s))) 2
    | CTag n, 2 => upd (with_tagged s (sadd n (o_tagged s))) 3
    | CTag n, 3 => upd (osave s) done_pc
    | CUntag n, 0 => if smem n (o_tagged s) then upd (with_tagged s (sdel n (o_tagged s))) 3 else upd s done_pc
    | CUntag n, 3 => upd (osave s) done_pc
    | CAtomic o, 0 =>
        if forallb idle_t (c_threads st)
        then upd (fst (ostep true true true content isman fuel s o)) done_pc
        else None
    | _, _ => None
    end
  end.

Fixpoint crun content isman fuel (st : cstate) (trace : list nat) : option cstate :=
  match trace with
  | [] => Some st
  | i :: r => match cstep content isman fuel st i with
              | Some st' => crun content isman fuel st' r
              | None => None
              end
  end.

Definition call_done (st : cstate) : bool :=
  forallb (fun t => Nat.eqb (ct_pc t) done_pc) (c_threads st).
Definition cinit (s : ostore) (ops : list cop) : cstate := mkC s (map (fun o => mkCT o 0) ops).

(* The order of the steps above is the source order of the calls in Store.Push / tag / Tag /
   Untag, re-read on every run (translator kind "callseq"). *)
Fixpoint strs_eqb (x y : list str) : bool :=
  match x, y with
  | [], [] => true
  | a :: r, c :: t => str_eqb a c && strs_eqb r t
  | _, _ => false
  end.
Definition oci_step_order : bool :=
  strs_eqb calls_ociPush [b "s.storage.Push"; b "s.graph.Index"; b "s.tag"] &&
  strs_eqb calls_ociTagInner [b "s.tagResolver.Tag"; b "s.tagResolver.Tag"; b "s.saveIndex"] &&
  strs_eqb calls_ociTag [b "s.storage.Exists"; b "s.tag"] &&
  strs_eqb calls_ociUntag [b "s.tagResolver.Resolve"; b "s.tagResolver.Untag"; b "s.saveIndex"].
