(* Executable model of digest.FromBytes(b).String() for the canonical algorithm: "sha256:" followed
   by the lower-case hex of SHA-256 (FIPS 180-4) of the bytes.  With Model/PackEnc.v this makes the
   descriptor Pack returns (digest and size of the marshalled manifest) computable by the model and
   comparable with the implementation.  No proofs: the theorems of C19 hold for any digest function
   H with H "{}" = the image-spec constant; this instance satisfies that by computation. *)
From Oras Require Import Base.Prelude.

Definition mask32 : N := 4294967295.
Definition add32 (a c : N) : N := N.land (a + c) mask32.
Definition rotr (n : N) (x : N) : N := N.lor (N.shiftr x n) (N.land (N.shiftl x (32 - n)) mask32).
Definition ch (x y z : N) : N := N.lxor (N.land x y) (N.land (N.lxor x mask32) z).
Definition maj (x y z : N) : N := N.lxor (N.lxor (N.land x y) (N.land x z)) (N.land y z).
Definition bsig0 (x : N) : N := N.lxor (N.lxor (rotr 2 x) (rotr 13 x)) (rotr 22 x).
Definition bsig1 (x : N) : N := N.lxor (N.lxor (rotr 6 x) (rotr 11 x)) (rotr 25 x).
Definition ssig0 (x : N) : N := N.lxor (N.lxor (rotr 7 x) (rotr 18 x)) (N.shiftr x 3).
Definition ssig1 (x : N) : N := N.lxor (N.lxor (rotr 17 x) (rotr 19 x)) (N.shiftr x 10).

Definition sha_k : list N :=
  [1116352408; 1899447441; 3049323471; 3921009573; 961987163; 1508970993; 2453635748; 2870763221;
   3624381080; 310598401; 607225278; 1426881987; 1925078388; 2162078206; 2614888103; 3248222580;
   3835390401; 4022224774; 264347078; 604807628; 770255983; 1249150122; 1555081692; 1996064986;
   2554220882; 2821834349; 2952996808; 3210313671; 3336571891; 3584528711; 113926993; 338241895;
   666307205; 773529912; 1294757372; 1396182291; 1695183700; 1986661051; 2177026350; 2456956037;
   2730485921; 2820302411; 3259730800; 3345764771; 3516065817; 3600352804; 4094571909; 275423344;
   430227734; 506948616; 659060556; 883997877; 958139571; 1322822218; 1537002063; 1747873779;
   1955562222; 2024104815; 2227730452; 2361852424; 2428436474; 2756734187; 3204031479; 3329325298].

Definition sha_h0 : list N :=
  [1779033703; 3144134277; 1013904242; 2773480762; 1359893119; 2600822924; 528734635; 1541459225].

(* big-endian 32-bit words of a block *)
Fixpoint words_of (s : str) : list N :=
  match s with
  | a :: c :: d :: e :: r => (((a * 256 + c) * 256 + d) * 256 + e) :: words_of r
  | _ => []
  end.

(* message schedule, most recent word first: w_t = ssig1 w_{t-2} + w_{t-7} + ssig0 w_{t-15} + w_{t-16} *)
Fixpoint extend (n : nat) (rev_w : list N) : list N :=
  match n with
  | O => rev_w
  | S n' =>
    let w := add32 (add32 (ssig1 (nth 1 rev_w 0)) (nth 6 rev_w 0))
                   (add32 (ssig0 (nth 14 rev_w 0)) (nth 15 rev_w 0)) in
    extend n' (w :: rev_w)
  end.

Definition round (st : list N) (kw : N * N) : list N :=
  match st with
  | [a; b'; c; d; e; f; g; h] =>
    let t1 := add32 (add32 (add32 h (bsig1 e)) (add32 (ch e f g) (fst kw))) (snd kw) in
    let t2 := add32 (bsig0 a) (maj a b' c) in
    [add32 t1 t2; a; b'; c; add32 d t1; e; f; g]
  | _ => st
  end.

Definition compress (hs : list N) (block : str) : list N :=
  let w := rev (extend 48 (rev (words_of block))) in
  let st := fold_left round (combine sha_k w) hs in
  map (fun p => add32 (fst p) (snd p)) (combine hs st).

Fixpoint blocks (fuel : nat) (hs : list N) (s : str) : list N :=
  match fuel with
  | O => hs
  | S f =>
    match s with
    | [] => hs
    | _ => blocks f (compress hs (firstn 64 s)) (skipn 64 s)
    end
  end.

Definition be_bytes (n : nat) (x : N) : str :=
  rev (map (fun i => N.land (N.shiftr x (8 * N.of_nat i)) 255) (seq 0 n)).

Definition sha_pad (s : str) : str :=
  let l := N.of_nat (length s) in
  let zeros := N.to_nat ((119 - l mod 64) mod 64) in
  s ++ [128] ++ repeat 0 zeros ++ be_bytes 8 (8 * l).

Definition hexd (n : N) : N := if n <? 10 then 48 + n else 87 + n.
Definition hex_byte (c : N) : str := [hexd (c / 16); hexd (c mod 16)].

Definition sha256 (s : str) : str :=
  let p := sha_pad s in
  concat (map hex_byte (concat (map (be_bytes 4) (blocks (S (length p / 64)) sha_h0 p)))).

(* digest.FromBytes(s).String() *)
Definition digest_of (s : str) : str := b "sha256:" ++ sha256 s.
