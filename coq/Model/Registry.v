(* Model/Registry.v -- the OCI distribution-spec registry as a state machine on
   abstract requests/responses, parameterised by a capability profile, and the
   request grammar [allowed].  Executable, no proofs.

   One "main" repository (blobs, manifests, tags, upload sessions) and a read-only
   sibling repository "other" (blobs only: the source of cross-repository mounts).
   The hash function is a parameter [H] (SHA-256 in the harness), as is the
   "subject" field of a manifest ([subj], JSON decoding is external). *)
From Oras Require Import Base.Prelude Base.Regex Generated.GC20 Model.Reference.

(* Every digest algorithm go-digest knows is linked into the client (the harness imports
   crypto/sha256 and crypto/sha512): C20's availability parameter is instantiated once. *)
Definition all_algs (_ : str) : bool := true.
Definition valid_digest : str -> bool := Reference.valid_digest all_algs.
Definition repo_parse : (str -> bool) -> str -> str -> str -> option reference := Reference.repo_parse all_algs.

(* ---------- descriptors, requests, responses ---------- *)

Record desc := mkDesc { d_mt : str; d_dg : str; d_sz : N }.

Inductive meth := GET | HEAD | PUT | POST | DELETE.

Inductive endpoint :=
| EBlob (dg : str)          (* /v2/<name>/blobs/<digest> *)
| EManifest (rf : str)      (* /v2/<name>/manifests/<reference> *)
| EUploads                  (* /v2/<name>/blobs/uploads/ *)
| ESession (id : N)         (* the upload location handed out by the registry *)
| EReferrers (dg : str).    (* /v2/<name>/referrers/<digest> *)

Record request := mkReq {
  q_m : meth; q_repo : str; q_ep : endpoint;
  q_digest : option str;            (* ?digest= *)
  q_mount : option (str * str);     (* ?mount=<digest>&from=<repository> *)
  q_accept : option str; q_ctype : option str; q_clen : option N;
  q_range : option (N * N);         (* Range: bytes=a-b *)
  q_body : str }.

Record response := mkResp {
  r_status : N; r_ctype : option str; r_clen : option N;
  r_dig : option str;               (* Docker-Content-Digest *)
  r_loc : option (str * endpoint);  (* Location *)
  r_ar : bool;                      (* Accept-Ranges: bytes *)
  r_subj : option str;              (* OCI-Subject *)
  r_refs : list desc;               (* decoded referrers index (GET referrers only) *)
  r_body : str }.

Record profile := mkProfile {
  p_dighdr : bool;     (* sends Docker-Content-Digest *)
  p_range : bool;      (* Accept-Ranges: bytes and honours Range *)
  p_clen : bool;       (* sends Content-Length on GET bodies (else chunked) *)
  p_mount : bool;      (* supports cross-repository mounting *)
  p_referrers : bool   (* Referrers API + OCI-Subject *) }.

(* ---------- association lists keyed by byte strings ---------- *)

Definition lookup {V} (k : str) (m : list (str * V)) : option V :=
  match find (fun p => str_eqb (fst p) k) m with Some p => Some (snd p) | None => None end.
Definition remove {V} (k : str) (m : list (str * V)) : list (str * V) :=
  filter (fun p => negb (str_eqb (fst p) k)) m.
Definition insert {V} (k : str) (v : V) (m : list (str * V)) : list (str * V) :=
  (k, v) :: remove k m.

Definition mem_n (x : N) (l : list N) : bool := existsb (N.eqb x) l.
Definition len (s : str) : N := N.of_nat (length s).

(* ---------- registry state ---------- *)

Record reg := mkReg {
  g_blobs : list (str * str);           (* digest -> bytes *)
  g_mans : list (str * (str * str));    (* digest -> (media type, bytes) *)
  g_tags : list (str * str);            (* tag -> digest *)
  g_other : list (str * str);           (* blobs of the sibling repository *)
  g_next : N; g_open : list N }.        (* upload sessions *)

Definition set_blobs g x := mkReg x (g_mans g) (g_tags g) (g_other g) (g_next g) (g_open g).
Definition set_mans g x := mkReg (g_blobs g) x (g_tags g) (g_other g) (g_next g) (g_open g).
Definition set_tags g x := mkReg (g_blobs g) (g_mans g) x (g_other g) (g_next g) (g_open g).

Definition ct_octet := b "application/octet-stream".
Definition mt_index := b "application/vnd.oci.image.index.v1+json".

Definition resp0 (st : N) : response := mkResp st None (Some 0) None None false None [] [].
(* error responses carry a JSON error body; projected away (no length, no body) *)
Definition resp_err (st : N) : response := mkResp st None None None None false None [] [].

(* the error code of a 404 is observable to the client in one case: NAME_UNKNOWN (the
   repository does not exist).  It travels as the body of the abstract error response. *)
Definition name_unknown : str := b "NAME_UNKNOWN".
Definition resp_name_unknown : response := mkResp 404 None None None None false None [] name_unknown.

Definition opt_if {A} (c : bool) (x : A) : option A := if c then Some x else None.

Definition slice (a bb : N) (s : str) : str :=
  firstn (N.to_nat (bb + 1 - a)) (skipn (N.to_nat a) s).

Section Registry.
  Variable H : str -> str.                      (* digest of bytes, textual form *)
  Variable subj : str -> option desc.           (* subject of a manifest, if any *)
  Variable main other : str.                    (* repository names *)
  Variable p : profile.

  (* 200/206 answer for a blob; [hd] = HEAD *)
  Definition blob_resp (hd : bool) (d : str) (c : option str) (rg : option (N * N)) : response :=
    match c with
    | None => resp_err 404
    | Some c =>
        match (if p_range p && negb hd then rg else None) with
        | Some (a, bb) =>
            if (a <=? bb) && (bb <? len c) then
              mkResp 206 (Some ct_octet) (opt_if (p_clen p) (bb + 1 - a)) (opt_if (p_dighdr p) d)
                     None true None [] (slice a bb c)
            else resp_err 416
        | None =>
            mkResp 200 (Some ct_octet) (opt_if (p_clen p || hd) (len c)) (opt_if (p_dighdr p) d)
                   None (p_range p) None [] (if hd then [] else c)
        end
    end.

  Definition man_digest (g : reg) (rf : str) : option str :=
    if valid_digest rf then Some rf else lookup rf (g_tags g).

  Definition man_resp (hd : bool) (g : reg) (rf : str) : response :=
    match man_digest g rf with
    | None => resp_err 404
    | Some d =>
        match lookup d (g_mans g) with
        | None => resp_err 404
        | Some (mt, c) =>
            mkResp 200 (Some mt) (opt_if (p_clen p || hd) (len c)) (opt_if (p_dighdr p) d)
                   None false None [] (if hd then [] else c)
        end
    end.

  Definition open_session (g : reg) : reg * response :=
    let id := g_next g in
    (mkReg (g_blobs g) (g_mans g) (g_tags g) (g_other g) (id + 1) (id :: g_open g),
     mkResp 202 None (Some 0) None (Some (main, ESession id)) false None [] []).

  Definition referrers_of (g : reg) (d : str) : list desc :=
    flat_map (fun e => let '(dg, (mt, c)) := e in
                match subj c with
                | Some s => if str_eqb (d_dg s) d then [mkDesc mt dg (len c)] else []
                | None => []
                end) (g_mans g).

  Definition handle (g : reg) (q : request) : reg * response :=
    if str_eqb (q_repo q) main then
      match q_m q, q_ep q with
      | GET, EBlob d => (g, blob_resp false d (lookup d (g_blobs g)) (q_range q))
      | HEAD, EBlob d => (g, blob_resp true d (lookup d (g_blobs g)) None)
      | DELETE, EBlob d =>
          match lookup d (g_blobs g) with
          | Some _ => (set_blobs g (remove d (g_blobs g)),
                       mkResp 202 None (Some 0) (opt_if (p_dighdr p) d) None false None [] [])
          | None => (g, resp_err 404)
          end
      | POST, EUploads =>
          match q_mount q with
          | Some (d, from) =>
              match (if p_mount p && str_eqb from other then lookup d (g_other g) else None) with
              | Some c => (set_blobs g (insert d c (g_blobs g)),
                           mkResp 201 None (Some 0) (opt_if (p_dighdr p) d) (Some (main, EBlob d)) false None [] [])
              | None => open_session g
              end
          | None => open_session g
          end
      | PUT, ESession id =>
          if mem_n id (g_open g) then
            match q_digest q with
            | Some d =>
                if valid_digest d && str_eqb (H (q_body q)) d
                   && match q_clen q with Some n => n =? len (q_body q) | None => false end
                then (mkReg (insert d (q_body q) (g_blobs g)) (g_mans g) (g_tags g) (g_other g) (g_next g)
                            (filter (fun x => negb (x =? id)) (g_open g)),
                      mkResp 201 None (Some 0) (opt_if (p_dighdr p) d) (Some (main, EBlob d)) false None [] [])
                else (g, resp_err 400)
            | None => (g, resp_err 400)
            end
          else (g, resp_err 404)
      | GET, EManifest rf => (g, man_resp false g rf)
      | HEAD, EManifest rf => (g, man_resp true g rf)
      | PUT, EManifest rf =>
          let c := q_body q in
          let d := H c in
          match q_ctype q with
          | None => (g, resp_err 400)
          | Some mt =>
              if negb (match q_clen q with Some n => n =? len c | None => false end) then (g, resp_err 400)
              else if valid_digest rf && negb (str_eqb rf d) then (g, resp_err 400)
              else if negb (valid_digest rf) && negb (valid_tag rf) then (g, resp_err 400)
              else
                let g1 := set_mans g (insert d (mt, c) (g_mans g)) in
                let g2 := if valid_digest rf then g1 else set_tags g1 (insert rf d (g_tags g1)) in
                (g2, mkResp 201 None (Some 0) (opt_if (p_dighdr p) d) (Some (main, EManifest d)) false
                            (if p_referrers p then match subj c with Some s => Some (d_dg s) | None => None end
                             else None) [] [])
          end
      | DELETE, EManifest rf =>
          if valid_digest rf then
            match lookup rf (g_mans g) with
            | Some _ =>
                (mkReg (g_blobs g) (remove rf (g_mans g))
                       (filter (fun t => negb (str_eqb (snd t) rf)) (g_tags g)) (g_other g) (g_next g) (g_open g),
                 mkResp 202 None (Some 0) (opt_if (p_dighdr p) rf) None false None [] [])
            | None => (g, resp_err 404)
            end
          else (g, resp_err 405)
      | GET, EReferrers d =>
          if p_referrers p then
            (g, mkResp 200 (Some mt_index) None None None false None (referrers_of g d) [])
          else (g, resp_err 404)
      | _, _ => (g, resp_err 405)
      end
    else if str_eqb (q_repo q) other then
      match q_m q, q_ep q with
      | GET, EBlob d => (g, blob_resp false d (lookup d (g_other g)) (q_range q))
      | HEAD, EBlob d => (g, blob_resp true d (lookup d (g_other g)) None)
      | _, _ => (g, resp_err 405)
      end
    else (g, resp_name_unknown).
End Registry.

(* ---------- the request grammar of the distribution specification ---------- *)

Definition is_some {A} (o : option A) : bool := match o with Some _ => true | None => false end.
Definition is_none {A} (o : option A) : bool := match o with Some _ => false | None => true end.
Definition nonempty (o : option str) : bool := match o with Some (_ :: _) => true | _ => false end.
Definition valid_ref (rf : str) : bool := valid_digest rf || valid_tag rf.

Definition allowed (q : request) : bool :=
  valid_repository (q_repo q) &&
  match q_m q, q_ep q with
  | GET, EBlob d =>                     (* end-2, optional Range *)
      valid_digest d && is_none (q_digest q) && is_none (q_mount q) && negb (nonempty (q_ctype q))
      && str_eqb (q_body q) []
      && match q_range q with Some (a, bb) => a <=? bb | None => true end
  | HEAD, EBlob d | DELETE, EBlob d =>  (* end-2, end-10 *)
      valid_digest d && is_none (q_digest q) && is_none (q_mount q) && is_none (q_range q)
      && negb (nonempty (q_ctype q)) && str_eqb (q_body q) []
  | GET, EManifest rf | HEAD, EManifest rf =>   (* end-3 *)
      valid_ref rf && is_none (q_digest q) && is_none (q_mount q) && is_none (q_range q)
      && negb (nonempty (q_ctype q)) && str_eqb (q_body q) []
  | DELETE, EManifest rf =>             (* end-9 *)
      valid_ref rf && is_none (q_digest q) && is_none (q_mount q) && is_none (q_range q)
      && negb (nonempty (q_ctype q)) && str_eqb (q_body q) []
  | PUT, EManifest rf =>                (* end-7 *)
      valid_ref rf && is_none (q_digest q) && is_none (q_mount q) && is_none (q_range q)
      && nonempty (q_ctype q) && is_some (q_clen q)
  | POST, EUploads =>                   (* end-4a, end-11 *)
      is_none (q_digest q) && is_none (q_range q) && negb (nonempty (q_ctype q)) && str_eqb (q_body q) []
      && match q_mount q with
         | Some (d, from) => valid_digest d && valid_repository from
         | None => true
         end
  | PUT, ESession _ =>                  (* end-6 *)
      match q_digest q with Some d => valid_digest d | None => false end
      && is_none (q_mount q) && is_none (q_range q)
      && match q_ctype q with Some t => str_eqb t ct_octet | None => false end
      && is_some (q_clen q)
  | GET, EReferrers d =>                (* end-12a *)
      valid_digest d && is_none (q_digest q) && is_none (q_mount q) && is_none (q_range q)
      && negb (nonempty (q_ctype q)) && str_eqb (q_body q) []
  | _, _ => false
  end.

Definition reg0 (other_blobs : list (str * str)) : reg := mkReg [] [] [] other_blobs 1 [].
