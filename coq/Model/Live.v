(* C14 — manifest layer over the Merge system of one referrers tag: which referrer
   manifests are live.

   manifestStore.pushWithIndexing:   PUT the manifest, THEN updateReferrersIndex(Add d)
   manifestStore.deleteWithIndexing: fetch the manifest (it must be there), updateReferrersIndex(Remove d),
                                     THEN DELETE the manifest (also after an index-delete error)

   An operation on manifest key k is *in flight* from its first exchange to its last one.
   [lstep] is the system in which operations on the SAME manifest do not overlap (the guard of
   LPut / of a delete's EGet); operations on different manifests interleave freely.  The
   unguarded layer (mstep in Model/Merge.v) exhibits the known finding same-manifest-race.
   Ghost bookkeeping: [inflight], [taint] (keys with an operation that returned a plain error:
   nothing is claimed about them).  No proofs here. *)
From Oras Require Import Base.Prelude Model.Referrers Model.Merge.

Definition is_add (c : change) : bool := match c with Add _ => true | Remove _ => false end.
Definition ckey (c : change) : N := dkey (cdesc c).

Record lstate := mkL {
  l_s : state;
  l_live : list N;                       (* keys of the referrer manifests in the registry *)
  l_inflight : list (tid * N * bool);    (* caller, manifest key, push? *)
  l_taint : list N
}.

Inductive levent :=
| LPut (t : tid) (d : desc)   (* Push: manifest PUT answered 201 *)
| LIdx (e : event)            (* an event of the index update protocol *)
| LDel (t : tid)              (* Delete: manifest DELETE answered 202 *)
| LEnd (t : tid).             (* the operation is over (a push; or a delete that failed) *)

Definition ent_tid (e : tid * N * bool) : tid := fst (fst e).
Definition ent_key (e : tid * N * bool) : N := snd (fst e).
Definition has_tid (t : tid) (l : list (tid * N * bool)) : bool := existsb (fun e => Nat.eqb (ent_tid e) t) l.
Definition has_ent_key (k : N) (l : list (tid * N * bool)) : bool := existsb (fun e => ent_key e =? k) l.
Definition has_entry (t : tid) (k : N) (b : bool) (l : list (tid * N * bool)) : bool :=
  existsb (fun e => Nat.eqb (ent_tid e) t && (ent_key e =? k) && Bool.eqb (snd e) b) l.
Definition drop_tid (t : tid) (l : list (tid * N * bool)) : list (tid * N * bool) :=
  filter (fun e => negb (Nat.eqb (ent_tid e) t)) l.
Definition live_mem (k : N) (l : list N) : bool := existsb (N.eqb k) l.

Definition lstep (sg : bool) (m : lstate) (e : levent) : option lstate :=
  match e with
  | LPut t d =>
      match pcs (l_s m) t with
      | Idle =>
          if is_empty d || has_tid t (l_inflight m) || has_ent_key (dkey d) (l_inflight m) then None
          else Some (mkL (l_s m) (dkey d :: l_live m) ((t, dkey d, true) :: l_inflight m) (l_taint m))
      | _ => None
      end
  | LIdx (EGet t c) =>
      match c with
      | Add d =>
          (* the push continues with its index update *)
          if has_entry t (dkey d) true (l_inflight m) then
            match step sg (l_s m) (EGet t c) with
            | Some s' => Some (mkL s' (l_live m) (l_inflight m) (l_taint m))
            | None => None
            end
          else None
      | Remove d =>
          (* a delete starts: the manifest was fetched, nobody else works on it *)
          if has_tid t (l_inflight m) || has_ent_key (dkey d) (l_inflight m) || negb (live_mem (dkey d) (l_live m)) then None
          else match step sg (l_s m) (EGet t c) with
               | Some s' => Some (mkL s' (l_live m) ((t, dkey d, false) :: l_inflight m) (l_taint m))
               | None => None
               end
      end
  | LIdx e' =>
      match step sg (l_s m) e' with
      | Some s' => Some (mkL s' (l_live m) (l_inflight m) (l_taint m))
      | None => None
      end
  | LDel t =>
      match pcs (l_s m) t with
      | Done r =>
          let k := ckey (arg (l_s m) t) in
          if has_entry t k false (l_inflight m) && negb (match r with RErr => true | _ => false end) then
            Some (mkL (l_s m) (filter (fun x => negb (x =? k)) (l_live m)) (drop_tid t (l_inflight m)) (l_taint m))
          else None
      | _ => None
      end
  | LEnd t =>
      match pcs (l_s m) t with
      | Done r =>
          let c := arg (l_s m) t in
          if has_entry t (ckey c) (is_add c) (l_inflight m) then
            match r with
            | RErr => Some (mkL (l_s m) (l_live m) (drop_tid t (l_inflight m)) (ckey c :: l_taint m))
            | _ => if is_add c then Some (mkL (l_s m) (l_live m) (drop_tid t (l_inflight m)) (l_taint m))
                   else None   (* a successful delete ends with LDel *)
            end
          else None
      | _ => None
      end
  end.

Fixpoint lrun (sg : bool) (m : lstate) (tr : list levent) : option lstate :=
  match tr with
  | [] => Some m
  | e :: tr' => match lstep sg m e with Some m' => lrun sg m' tr' | None => None end
  end.

Definition linit (r0 : option index) (st0 : list index) (live0 : list N) : lstate :=
  mkL (init r0 st0) live0 [] [].

(* the listing claim for key k: listed iff live *)
Definition consistent (m : lstate) (k : N) : Prop :=
  memb (reg (l_s m)) k = negb (k =? 0) && live_mem k (l_live m).
