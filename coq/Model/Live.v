(* C14 — manifest layer over the Merge system of one referrers tag: which referrer
   manifests are live.

   manifestStore.pushWithIndexing:   PUT the manifest, THEN updateReferrersIndex(Add d)
   manifestStore.deleteWithIndexing: fetch the manifest (it must be there), updateReferrersIndex(Remove d),
                                     THEN DELETE the manifest (also after an index-delete error)

   An operation on manifest key k is *in flight* from its first exchange to its last one.
   [lstep] is the system in which operations on the SAME manifest do not overlap (the guard of
   LPut / of a delete's EGet); operations on different manifests interleave freely.  The
   unguarded layer (mstep in Model/Merge.v) exhibits the known finding same-manifest-race.
   Ghost bookkeeping: [inflight], [taint] (keys with an operation that returned a plain error:
   nothing is claimed about them).  No proofs here. *)
From Oras Require Import Base.Prelude Model.Referrers Model.Merge.

Definition is_add (c : change) : bool := match c with Add _ => true | Remove _ => false end.
Definition ckey (c : change) : N := dkey (cdesc c).

Record lstate := mkL {
  l_s : state;
  l_live : list N;                       (* keys of the referrer manifests in the registry *)
  l_inflight : list (tid * N * bool);    (* caller, manifest key, push? *)
  l_taint : list N
}.

Inductive levent :=
| LPut (t : tid) (d : desc)   (* Push: manifest PUT answered 201 *)
| LIdx (e : event)            (* an event of the index update protocol *)
| LDel (t : tid)              (* Delete: manifest DELETE answered 202 *)
| LEnd (t : tid)              (* the operation is over: a push; a delete whose index update or manifest DELETE failed *)
| LPutLost (d : desc).        (* Push: the manifest PUT took effect but was answered with an error (lost response):
                                 the push returns the error without touching the index - the manifest is live and
                                 unlisted, nothing is claimed about it any more (taint).  A lost response of a
                                 delete's manifest DELETE is LDel: the registry did what a 202 says *)

Definition ent_tid (e : tid * N * bool) : tid := fst (fst e).
Definition ent_key (e : tid * N * bool) : N := snd (fst e).
Definition has_tid (t : tid) (l : list (tid * N * bool)) : bool := existsb (fun e => Nat.eqb (ent_tid e) t) l.
Definition has_ent_key (k : N) (l : list (tid * N * bool)) : bool := existsb (fun e => ent_key e =? k) l.
Definition has_entry (t : tid) (k : N) (b : bool) (l : list (tid * N * bool)) : bool :=
  existsb (fun e => Nat.eqb (ent_tid e) t && (ent_key e =? k) && Bool.eqb (snd e) b) l.
Definition drop_tid (t : tid) (l : list (tid * N * bool)) : list (tid * N * bool) :=
  filter (fun e => negb (Nat.eqb (ent_tid e) t)) l.
Definition live_mem (k : N) (l : list N) : bool := existsb (N.eqb k) l.

(* what the caller sees as a plain error: the index update failed, or its response was lost *)
Definition plain_err (r : result) : bool := match r with RErr | RLost => true | _ => false end.

Definition lstep (sg : bool) (m : lstate) (e : levent) : option lstate :=
  match e with
  | LPut t d =>
      match pcs (l_s m) t with
      | Idle =>
          if is_empty d || has_tid t (l_inflight m) || has_ent_key (dkey d) (l_inflight m) then None
          else Some (mkL (l_s m) (dkey d :: l_live m) ((t, dkey d, true) :: l_inflight m) (l_taint m))
      | _ => None
      end
  | LIdx (EGet t c) =>
      match c with
      | Add d =>
          (* the push continues with its index update *)
          if has_entry t (dkey d) true (l_inflight m) then
            match step sg (l_s m) (EGet t c) with
            | Some s' => Some (mkL s' (l_live m) (l_inflight m) (l_taint m))
            | None => None
            end
          else None
      | Remove d =>
          (* a delete starts: the manifest was fetched, nobody else works on it *)
          if has_tid t (l_inflight m) || has_ent_key (dkey d) (l_inflight m) || negb (live_mem (dkey d) (l_live m)) then None
          else match step sg (l_s m) (EGet t c) with
               | Some s' => Some (mkL s' (l_live m) ((t, dkey d, false) :: l_inflight m) (l_taint m))
               | None => None
               end
      end
  | LIdx e' =>
      match step sg (l_s m) e' with
      | Some s' => Some (mkL s' (l_live m) (l_inflight m) (l_taint m))
      | None => None
      end
  | LDel t =>
      match pcs (l_s m) t with
      | Done r =>
          let k := ckey (arg (l_s m) t) in
          if has_entry t k false (l_inflight m) && negb (plain_err r) then
            Some (mkL (l_s m) (filter (fun x => negb (x =? k)) (l_live m)) (drop_tid t (l_inflight m)) (l_taint m))
          else None
      | _ => None
      end
  | LEnd t =>
      match pcs (l_s m) t with
      | Done r =>
          let c := arg (l_s m) t in
          if has_entry t (ckey c) (is_add c) (l_inflight m) then
            match r with
            | RErr => Some (mkL (l_s m) (l_live m) (drop_tid t (l_inflight m)) (ckey c :: l_taint m))
            | _ => if is_add c then Some (mkL (l_s m) (l_live m) (drop_tid t (l_inflight m)) (l_taint m))
                   else (* the delete's manifest DELETE failed: the index no longer lists the
                           manifest, the manifest is still there, the caller got an error *)
                     Some (mkL (l_s m) (l_live m) (drop_tid t (l_inflight m)) (ckey c :: l_taint m))
            end
          else None
      | _ => None
      end
  | LPutLost d =>
      if is_empty d || has_ent_key (dkey d) (l_inflight m) then None
      else Some (mkL (l_s m) (dkey d :: l_live m) (l_inflight m) (dkey d :: l_taint m))
  end.

Fixpoint lrun (sg : bool) (m : lstate) (tr : list levent) : option lstate :=
  match tr with
  | [] => Some m
  | e :: tr' => match lstep sg m e with Some m' => lrun sg m' tr' | None => None end
  end.

Definition linit (r0 : option index) (st0 : list index) (live0 : list N) : lstate :=
  mkL (init r0 st0) live0 [] [].

(* the listing claim for key k: listed iff live *)
Definition consistent (m : lstate) (k : N) : Prop :=
  memb (reg (l_s m)) k = negb (k =? 0) && live_mem k (l_live m).

(* ---------- replay of a visible schedule with the manifest exchanges ----------
   VG t: the operation's first manifest exchange was answered (push: PUT 201, then it calls
   updateReferrersIndex; delete: the fetch succeeded, then it calls updateReferrersIndex);
   VM t: the delete's manifest DELETE was answered 202. *)
Inductive lvis := LV (v : vis) | VM (t : tid) | VN (t : tid)   (* VN: the delete's manifest DELETE failed *)
                | VQ (t : tid).   (* the push's manifest PUT took effect and was answered with an error *)

Fixpoint lsettle_pass (sg : bool) (n : nat) (m : lstate) : lstate * bool :=
  match n with
  | O => (m, false)
  | S k =>
      let (m1, ch) := lsettle_pass sg k m in
      let try e := match lstep sg m1 e with Some m2 => (m2, true) | None => (m1, ch) end in
      match pcs (l_s m1) k with
      | Completing _ => try (LIdx (EComplete k))
      | Ret _ => try (LIdx (EDone k))
      | Done r =>
          (* a push is over when updateReferrersIndex returns; so is a delete whose index update failed *)
          if has_tid k (l_inflight m1) && (is_add (arg (l_s m1) k) || plain_err r)
          then try (LEnd k) else (m1, ch)
      | _ => (m1, ch)
      end
  end.

Fixpoint lsettle (sg : bool) (n fuel : nat) (m : lstate) : lstate :=
  match fuel with
  | O => m
  | S f => let (m1, ch) := lsettle_pass sg n m in if ch then lsettle sg n f m1 else m1
  end.

Definition lvis_step (sg : bool) (changes : list change) (m : lstate) (v : lvis) : option lstate :=
  let n := length changes in
  let r :=
    match v with
    | LV (VG t) =>
        let c := nth t changes (Add empty_desc) in
        match c with
        | Add d => lrun sg m [LPut t d; LIdx (EGet t c); LIdx (EAssign t)]
        | Remove _ => lrun sg m [LIdx (EGet t c); LIdx (EAssign t)]
        end
    | LV (VP t f) => lrun sg m [LIdx (ERecvMain t); LIdx (EPrepare t f); LIdx (ECommit t)]
    | LV (VU t f) => lstep sg m (LIdx (EPut t f))
    | LV (VL t) => lstep sg m (LIdx (EPutLost t))
    | LV (VD t f) => lstep sg m (LIdx (EDel t f))
    | LV (VK t) => lstep sg m (LIdx (EDelLost t))
    | LV VX => lstep sg m (LIdx EExtDrop)
    | VM t => lstep sg m (LDel t)
    | VN t => lstep sg m (LEnd t)
    | VQ t => match nth t changes (Add empty_desc) with
              | Add d => lstep sg m (LPutLost d)
              | Remove _ => None
              end
    end in
  match r with Some m1 => Some (lsettle sg n (3 * n + 3) m1) | None => None end.

Fixpoint lrun_vis (sg : bool) (changes : list change) (m : lstate) (vs : list lvis) : option lstate :=
  match vs with
  | [] => Some m
  | v :: vs' => match lvis_step sg changes m v with Some m' => lrun_vis sg changes m' vs' | None => None end
  end.

(* live keys, keys some operation is still working on, tainted keys *)
Definition lvis_summary (sg : bool) (r0 : option index) (live0 : list N) (changes : list change) (vs : list lvis)
  : option (list N * list N * list N) :=
  match lrun_vis sg changes (linit r0 (match r0 with Some x => [x] | None => [] end) live0) vs with
  | Some m => Some (l_live m, map ent_key (l_inflight m), l_taint m)
  | None => None
  end.
