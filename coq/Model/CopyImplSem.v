(* CopyImplSem: executable model of golang.org/x/sync/semaphore.Weighted (v0.13.0, the version pinned
   by go.mod) as syncutil.LimitedRegion uses it: every Acquire / Release has weight 1.
   The protocol model Model/CopyImpl.v abstracts the limiter to a counter `free` with "a blocked
   Start / dispatch may proceed whenever free > 0".  This file models what the code does - FIFO
   waiter list, notifyWaiters, the give-back path of a waiter that was granted after its context
   was cancelled - and Proofs/CopyImplSem.v proves that the abstraction is sound: permits are
   conserved, never more than size are out, and NO WAITER STAYS QUEUED WHILE A PERMIT IS FREE (no lost
   wake-up), which is the liveness assumption of the protocol model's deadlock-freedom theorem.

     Acquire(ctx, 1):  ctx already done -> ctx.Err(), nothing changes
                       size - cur >= 1 and no waiters -> cur++, nil
                       otherwise the caller is appended to waiters and blocks
     Release(1):       cur-- (panic when negative), notifyWaiters
     notifyWaiters:    while the first waiter fits (size - cur >= 1): cur++, pop it, close(ready)
     a queued waiter whose ctx is done: removed; if it was first and tokens are left, notifyWaiters
     a granted waiter (ready closed) that sees its ctx done: gives the token back (cur--,
       notifyWaiters - through Release in v0.13.0) and returns ctx.Err()
   No proofs here. *)
From Coq Require Import List Arith Bool.
Import ListNotations.

Record sem := mkSem {
  s_size : nat;
  s_cur : nat;                 (* tokens out: held by callers + handed to granted waiters *)
  s_wait : list nat;           (* queued waiters, first = head *)
  s_granted : list nat;        (* waiters whose ready channel is closed and whose Acquire has not returned yet *)
  s_held : nat }.              (* ghost: Acquire calls that returned nil and were not released yet *)

Inductive sop :=
| SAcquire (w : nat) (ctxdone : bool)   (* goroutine w calls Acquire; ctxdone: its ctx is done at the call *)
| SRelease                              (* a holder calls Release *)
| SWake (w : nat) (ctxdone : bool)      (* granted waiter w returns from Acquire: nil, or (ctx done meanwhile) gives back and fails *)
| SCancel (w : nat).                    (* queued waiter w sees ctx.Done: leaves the queue, fails *)
Inductive sres := RGranted | RBlocked | RFailed | RDone (woken : list nat).

Definition ssize_init (n : nat) : sem := mkSem n 0 [] [] 0.

(* notifyWaiters with unit weights; fuel = number of queued waiters *)
Fixpoint notify (fuel : nat) (size cur : nat) (wait granted : list nat) : nat * list nat * list nat * list nat :=
  match fuel, wait with
  | S k, w :: rest =>
      if Nat.ltb cur size
      then let '(c, ws, gs, woken) := notify k size (S cur) rest (granted ++ [w]) in (c, ws, gs, w :: woken)
      else (cur, wait, granted, [])
  | _, _ => (cur, wait, granted, [])
  end.

Definition memb (w : nat) (l : list nat) : bool := existsb (Nat.eqb w) l.
Definition remove1 (w : nat) (l : list nat) : list nat := filter (fun x => negb (Nat.eqb x w)) l.

Definition sstep (s : sem) (o : sop) : option (sem * sres) :=
  match o with
  | SAcquire w true => Some (s, RFailed)
  | SAcquire w false =>
      if memb w (s_wait s) || memb w (s_granted s) then None   (* a goroutine is in one Acquire at a time *)
      else if Nat.ltb (s_cur s) (s_size s) && match s_wait s with [] => true | _ => false end
      then Some (mkSem (s_size s) (S (s_cur s)) (s_wait s) (s_granted s) (S (s_held s)), RGranted)
      else Some (mkSem (s_size s) (s_cur s) (s_wait s ++ [w]) (s_granted s) (s_held s), RBlocked)
  | SRelease =>
      match s_held s, s_cur s with
      | S h, S c =>
          let '(c', ws, gs, woken) := notify (length (s_wait s)) (s_size s) c (s_wait s) (s_granted s) in
          Some (mkSem (s_size s) c' ws gs h, RDone woken)
      | _, _ => None                                            (* "released more than held" *)
      end
  | SWake w false =>
      if memb w (s_granted s)
      then Some (mkSem (s_size s) (s_cur s) (s_wait s) (remove1 w (s_granted s)) (S (s_held s)), RGranted)
      else None
  | SWake w true =>
      if memb w (s_granted s)
      then match s_cur s with
           | S c =>
               let '(c', ws, gs, woken) := notify (length (s_wait s)) (s_size s) c (s_wait s) (remove1 w (s_granted s)) in
               Some (mkSem (s_size s) c' ws gs (s_held s), RDone woken)
           | O => None
           end
      else None
  | SCancel w =>
      if memb w (s_wait s)
      then let front := match s_wait s with x :: _ => Nat.eqb x w | [] => false end in
           let ws0 := remove1 w (s_wait s) in
           if front && Nat.ltb (s_cur s) (s_size s)
           then let '(c', ws, gs, woken) := notify (length ws0) (s_size s) (s_cur s) ws0 (s_granted s) in
                Some (mkSem (s_size s) c' ws gs (s_held s), RDone woken)
           else Some (mkSem (s_size s) (s_cur s) ws0 (s_granted s) (s_held s), RDone [])
      else None
  end.

Fixpoint srun (s : sem) (os : list sop) : option sem :=
  match os with
  | [] => Some s
  | o :: r => match sstep s o with Some (s', _) => srun s' r | None => None end
  end.

(* the abstraction used by Model/CopyImpl.v *)
Definition sfree (s : sem) : nat := s_size s - s_cur s.
