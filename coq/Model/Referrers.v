(* C14 — executable model of registry/remote/referrers.go:
     applyReferrerChanges, removeEmptyDescriptors, filterReferrers.
   No proofs in this file (Proofs/Referrers.v).

   A descriptor is abstracted to its *key* (descriptor.FromOCI: media type x
   digest x size, interned injectively to an N by the harness; the all-zero
   key is 0, i.e. content.Equal(d, ocispec.Descriptor{}) <-> dkey d = 0), its
   artifact type and the rest of its payload (annotations ..., interned). *)
From Oras Require Import Base.Prelude Generated.GC14.

Record desc := mkDesc { dkey : N; dart : N; dpay : N }.

Definition empty_desc : desc := mkDesc 0 0 0.
Definition is_empty (d : desc) : bool := dkey d =? 0.
Definition nonempty (d : desc) : bool := negb (is_empty d).

Inductive change := Add (d : desc) | Remove (d : desc).
Definition cdesc (c : change) : desc := match c with Add d => d | Remove d => d end.

(* Go map[descriptor.Descriptor]int as an association list *)
Definition posmap := list (N * nat).

Fixpoint lookup (m : posmap) (k : N) : option nat :=
  match m with
  | [] => None
  | (k', p) :: m' => if k' =? k then Some p else lookup m' k
  end.

Definition mdelete (m : posmap) (k : N) : posmap :=
  filter (fun e => negb (fst e =? k)) m.

Fixpoint set_nth (n : nat) (x : desc) (l : list desc) : list desc :=
  match l, n with
  | [], _ => []
  | _ :: t, O => x :: t
  | h :: t, S n' => h :: set_nth n' x t
  end.

(* the three mutable locals of applyReferrerChanges *)
Record astate := mkA { a_upd : list desc; a_map : posmap; a_req : bool }.

(* first loop: `for _, r := range referrers` *)
Definition scan_step (s : astate) (r : desc) : astate :=
  if is_empty r then mkA (a_upd s) (a_map s) true
  else match lookup (a_map s) (dkey r) with
       | Some _ => mkA (a_upd s) (a_map s) true
       | None => mkA (a_upd s ++ [r]) ((dkey r, length (a_upd s)) :: a_map s) (a_req s)
       end.

(* second loop: `for _, change := range referrerChanges` *)
Definition change_step (s : astate) (c : change) : astate :=
  match c with
  | Add d =>
      match lookup (a_map s) (dkey d) with
      | Some _ => s
      | None => mkA (a_upd s ++ [d]) ((dkey d, length (a_upd s)) :: a_map s) (a_req s)
      end
  | Remove d =>
      match lookup (a_map s) (dkey d) with
      | Some pos => mkA (set_nth pos empty_desc (a_upd s)) (mdelete (a_map s) (dkey d)) (a_req s)
      | None => s
      end
  end.

(* removeEmptyDescriptors(descs, hint): the in-place compaction returns
   descs[:j]; acc is descs[:j] reversed. *)
Fixpoint remove_empty_go (l : list desc) (hint j : nat) (acc : list desc) : list desc :=
  match l with
  | [] => rev acc
  | r :: t =>
      let acc' := if nonempty r then r :: acc else acc in
      let j' := if nonempty r then S j else j in
      if Nat.eqb j' hint then rev acc' else remove_empty_go t hint j' acc'
  end.

Definition remove_empty (l : list desc) (hint : nat) : list desc :=
  remove_empty_go l hint 0 [].

Inductive apply_result := NoUpdate | Updated (l : list desc).

Definition apply_changes (referrers : list desc) (changes : list change) : apply_result :=
  let s1 := fold_left scan_step referrers (mkA [] [] false) in
  let s2 := fold_left change_step changes s1 in
  let m := a_map s2 in
  let res := Updated (remove_empty (a_upd s2) (length m)) in
  if negb (a_req s2) && Nat.eqb (length m) (length referrers) then
    if forallb (fun r => match lookup m (dkey r) with Some _ => true | None => false end) referrers
    then NoUpdate else res
  else res.

(* filterReferrers(refs, artifactType): artifactType "" is interned as 0 *)
Definition filter_referrers (refs : list desc) (art : N) : list desc :=
  if art =? 0 then refs else filter (fun r => dart r =? art) refs.

(* Repository.referrersByTagSchema: the fetched index is cleaned with
   applyReferrerChanges(referrers, nil) (errNoReferrerUpdate = it is clean already), then
   filtered by artifact type; no index (404) = no referrers *)
Definition list_referrers (r : option (list desc)) (art : N) : list desc :=
  let l := match r with Some x => x | None => [] end in
  filter_referrers (match apply_changes l [] with Updated c => c | NoUpdate => l end) art.

(* ---- specification side (used by the theorems) ---- *)

Definition keys (l : list desc) : list N := map dkey l.
Definition has_key (k : N) (l : list desc) : bool := existsb (fun d => dkey d =? k) l.

(* de-duplicated (first occurrence kept), non-empty entries, order kept *)
Fixpoint clean_acc (l acc : list desc) : list desc :=
  match l with
  | [] => acc
  | r :: t => if is_empty r || has_key (dkey r) acc then clean_acc t acc
              else clean_acc t (acc ++ [r])
  end.
Definition clean (l : list desc) : list desc := clean_acc l [].

Definition spec_step (l : list desc) (c : change) : list desc :=
  match c with
  | Add d => if has_key (dkey d) l then l else l ++ [d]
  | Remove d => filter (fun x => negb (dkey x =? dkey d)) l
  end.

Definition spec_apply (old : list desc) (cs : list change) : list desc :=
  fold_left spec_step cs (clean old).

(* set semantics: membership of key k after the changes *)
Definition member_step (k : N) (b : bool) (c : change) : bool :=
  match c with
  | Add d => if dkey d =? k then true else b
  | Remove d => if dkey d =? k then false else b
  end.
Definition member_after (k : N) (init : bool) (cs : list change) : bool :=
  fold_left (member_step k) cs init.

(* ---- indexReferrersForPush: artifact type of the descriptor that is put into
   the referrers index for a pushed manifest (media-type switch), and what a
   registry with the Referrers API lists for the same manifest (distribution
   spec: the manifest's artifactType, else for an image manifest its
   config.mediaType).  Types are interned, 0 = "". ---- *)
Inductive mkind := KArtifact | KImage | KIndex.

Definition kind_num (k : mkind) : N :=
  match k with KArtifact => 0 | KImage => 1 | KIndex => 2 end.

(* referrer_art_table is regenerated from the switch of indexReferrersForPush:
   (kind, "an empty artifactType falls back to config.mediaType") *)
Fixpoint table_fallback (tbl : list (N * bool)) (k : N) : bool :=
  match tbl with
  | [] => false
  | (k', fb) :: t => if k' =? k then fb else table_fallback t k
  end.

Definition referrer_art (k : mkind) (art cfg : N) : N :=
  if (art =? 0) && table_fallback referrer_art_table (kind_num k) then cfg else art.

Definition api_art (k : mkind) (art cfg : N) : N :=
  if negb (art =? 0) then art
  else match k with KImage => cfg | _ => 0 end.

(* ---- buildReferrersTag: "<algorithm>-<encoded>" of the subject's digest.  A subject
   descriptor is (media type, digest, size), interned; the tag - hence the Pool key,
   the Merge object and the registry tag that updateReferrersIndex works on - is a
   function of the digest alone. ---- *)
Record subject := mkSubj { s_mt : N; s_digest : N; s_size : N }.
Definition tag_of (d : subject) : N := s_digest d.

Fixpoint index_of_tag (t : N) (l : list subject) (i : nat) : nat :=
  match l with
  | [] => i
  | d :: r => if tag_of d =? t then i else index_of_tag t r (S i)
  end.
(* for each descriptor: position of the first descriptor with the same tag *)
Definition tag_classes (l : list subject) : list nat :=
  map (fun d => index_of_tag (tag_of d) l 0) l.
