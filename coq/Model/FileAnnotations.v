(* C12 -- the annotations Store.Add puts on a directory descriptor and the test
   Store.push makes on them.  The keys are regenerated from content/file/file.go. *)
From Oras Require Import Base.Prelude Generated.GC12.

Definition title_key : str := b "org.opencontainers.image.title". (* ocispec.AnnotationTitle *)

(* a Go map written key by key: later writes win *)
Fixpoint annot_set (l : list (str * str)) (k v : str) : list (str * str) :=
  match l with
  | [] => [(k, v)]
  | (k', v') :: l' => if str_eqb k' k then (k, v) :: l' else (k', v') :: annot_set l' k v
  end.

Fixpoint annot_get (l : list (str * str)) (k : str) : str :=
  match l with
  | [] => []
  | (k', v) :: l' => if str_eqb k' k then v else annot_get l' k
  end.

(* descriptorFromDir's literal, then Add's desc.Annotations[AnnotationTitle] = name *)
Definition dir_annotations (checksum name : str) : list (str * str) :=
  annot_set (annot_set (annot_set [] AnnotationDigest checksum) AnnotationUnpack (b "true")) title_key name.

(* Store.push: needUnpack == "true" && !s.SkipUnpack *)
Definition need_unpack (annots : list (str * str)) (skipUnpack : bool) : bool :=
  str_eqb (annot_get annots AnnotationUnpack) (b "true") && negb skipUnpack.
