(* C12 -- the annotations Store.Add puts on a directory descriptor and the test
   Store.push makes on them.  The keys are regenerated from content/file/file.go. *)
From Oras Require Import Base.Prelude Generated.GC12.

Definition title_key : str := b "org.opencontainers.image.title". (* ocispec.AnnotationTitle *)

(* a Go map written key by key: later writes win *)
Fixpoint annot_set (l : list (str * str)) (k v : str) : list (str * str) :=
  match l with
  | [] => [(k, v)]
  | (k', v') :: l' => if str_eqb k' k then (k, v) :: l' else (k', v') :: annot_set l' k v
  end.

Fixpoint annot_get (l : list (str * str)) (k : str) : str :=
  match l with
  | [] => []
  | (k', v) :: l' => if str_eqb k' k then v else annot_get l' k
  end.

(* descriptorFromDir's literal, then Add's desc.Annotations[AnnotationTitle] = name *)
Definition dir_annotations (checksum name : str) : list (str * str) :=
  annot_set (annot_set (annot_set [] AnnotationDigest checksum) AnnotationUnpack (b "true")) title_key name.

(* Store.push: needUnpack == "true" && !s.SkipUnpack *)
Definition need_unpack (annots : list (str * str)) (skipUnpack : bool) : bool :=
  str_eqb (annot_get annots AnnotationUnpack) (b "true") && negb skipUnpack.

(* Store.push of a named descriptor: unpack when the annotation asks for it and SkipUnpack is
   off, otherwise the blob is written as a plain file under the name *)
From Oras Require Import Model.TarRoundTrip.
Section Push.
  Variable digest : Type.
  Variable H : str -> digest.
  Variable digest_eqb : digest -> digest -> bool.
  Variable dec : str -> option (list entry).
  Variable gunz : str -> option str.

  Definition push_named (skipUnpack : bool) (umask : N) (preserve : bool)
             (annots : list (str * str)) (d : descriptor digest) (blob : str) : res (fs + node) :=
    if need_unpack annots skipUnpack
    then match unpack digest H digest_eqb dec gunz umask preserve d blob with
         | Ok f => Ok (inl f)
         | Err e => Err e
         end
    else match push_file digest H digest_eqb umask d blob with
         | Ok n => Ok (inr n)
         | Err e => Err e
         end.
End Push.
