(* CopyFault -- the copyGraph transition system of Model/CopySpec.v extended with
   FAULT events (C02, spec-level part).  No proofs in this file.

   On top of the visible events of CopySpec (wrapped as [Ev e]; a failing user callback
   [Ev (CbFail k n)] is the fault CopySpec already has) a run of Copy / CopyGraph /
   ExtendedCopyGraph may contain:

     ExX n            dst.Exists(n) returned an error        (injected before or after the real call,
                                                               or the store's own / the context's error)
     SFX n            src.Fetch(n) returned an error          (proxy fetch of a manifest, or doCopyNode's fetch)
     SRX n            Read() of the stream fetched for the manifest n failed while the proxy was reading it
                      for FindSuccessors (cas.Proxy.Fetch / content.FetchAll): the reader is still open
                      (FetchAll's deferred Close follows).  A read error while a destination Push / Mount
                      consumes the stream is reported by that operation (PuX / MtX, nothing stored)
     FSX n            the FindSuccessors callback of CopyGraphOptions failed for n: before it fetched anything
                      (the node still waits for its proxy fetch) or after (successors known, none dispatched)
     PuX n ref stored dst.Push / PushReference(n) returned an error; stored = the content was
                      stored before the error was returned (fault AFTER the side effect)
     MtX n stored     dst.Mount(n) (registry.Mounter, one candidate repository) returned an error, either
                      right away / after the blob was mounted, or after the fallback upload; stored as
                      for PuX.  A failing MountFrom / OnMounted callback is [Ev (CbFail ..)], a failing
                      PreCopy or src.Fetch inside Mount's getContent is [Ev (CbFail CPre n)] / [SFX n]
     TagX n set       dst.Tag(root) returned an error (Copy into a Tagger); set = the reference was
                      set before the error was returned
     ProOk / ProX     an operation of the sequential prologue returned / failed: Resolve, MapRoot
                      (Copy), Predecessors / FindPredecessors inside findRoots (ExtendedCopyGraph).
                      After ProX the call returns without dispatching anything.
     Cancel           the context given to the call was cancelled (at any moment, also before
                      the call: an already-cancelled context)

   What the code does with an error (copy.go, copyGraph.fn): the task returns it, its deferred
   [if err == nil { close(done) }] does NOT close the node's done channel, syncutil.Go cancels
   the group and hands the error up.  In the per-node-phase abstraction the node becomes [Dead];
   nothing ever leaves [Dead], so a parent of a dead node stays [Waiting] for ever (its wait is
   abandoned when its context is cancelled) and is never pushed: this is what keeps the
   destination link-closed.  Other tasks may go on for a while or be abandoned at any point
   (every prefix is a run), so after a fault or a cancellation every event whose own guard holds
   is still accepted.

   Returns: [Ret true] needs: no cancellation (syncutil.Go returns context.Cause(ctx)), no
   prologue failure, no dead node, and the success condition of CopySpec; [Ret false] needs a
   reason (a dead node, a prologue failure or a cancellation).

   ExtendedCopyGraph ([ext = true]): the outer syncutil.Go over the roots found by findRoots is a
   VIRTUAL SUPER-ROOT: [c_root c] is a node that is not content, whose successors are the roots
   and whose phase is [Waiting] from the start and for ever (events naming it are rejected;
   ExtendedCopyGraph's closure does region.End() and
   calls copyGraph with the shared limiter and tracker for every root: exactly a parent that has
   dispatched its successors).  Success needs every root [Done].
   CopySpec's own view of the same fan-out ([c_xroots c]: further roots dispatched together with
   [c_root c], [ext = false]) is supported as well: the theorems hold for both views, and the
   model runner evaluates every recorded ExtendedCopyGraph trace under both and requires the
   same verdict. *)
From Oras Require Import Base.Prelude Model.CopySpec Model.CopyOpt.
Local Open Scope nat_scope.

Inductive fevent :=
| Ev (e : event)
| ExX (n : node)
| SFX (n : node)
| SRX (n : node)
| FSX (n : node)
| PuX (n : node) (ref stored : bool)
| TagX (n : node) (set : bool)
| MtX (n : node) (stored : bool)
| ProOk
| ProX
| Cancel.

Record fstate := mkF {
  fb : state;               (* the CopySpec state *)
  f_cancelled : bool;       (* the call's context is cancelled *)
  f_aborted : bool;         (* the prologue failed *)
  f_started : bool;         (* a copyGraph event was seen: the prologue is over *)
  f_rd : list node          (* dead tasks whose source reader is still open (doCopyNode's deferred Close) *)
}.

Definition any_dead (g : graph) (st : state) : bool :=
  existsb (fun n => is_dead (ph st n)) (seq 0 (g_n g)).

(* a fault or a cancellation has happened *)
Definition tainted (g : graph) (fs : fstate) : bool :=
  f_cancelled fs || f_aborted fs || any_dead g (fb fs).

(* the success condition: (every) root done, nothing in a transient phase *)
Definition ret_ok_guard (g : graph) (c : cfg) (ext : bool) (st : state) : bool :=
  if ext then
    is_waiting (ph st (c_root c)) &&
    forallb (fun r => is_done (ph st r)) (succ' g (c_root c)) &&
    forallb (fun n => Nat.eqb n (c_root c) || is_idle_or_done (ph st n)) (seq 0 (g_n g))
  else
    is_done (ph st (c_root c)) && forallb (fun n => is_idle_or_done (ph st n)) (seq 0 (g_n g))
    && forallb (fun r => is_done (ph st r)) (c_xroots c).

Definition set_ret (fs : fstate) (b : bool) : fstate :=
  let st := fb fs in
  mkF (mkState (ph st) (dst st) (cached st) (tag st) (Some b))
      (f_cancelled fs) (f_aborted fs) (f_started fs) (f_rd fs).

Definition with_base (fs : fstate) (st : state) : fstate :=
  mkF st (f_cancelled fs) (f_aborted fs) true (f_rd fs).

Definition remove_node (n : node) (l : list node) : list node :=
  filter (fun m => negb (Nat.eqb m n)) l.

(* ExtendedCopyGraph: the virtual super-root is not content -- no operation or callback ever names it *)
Definition on_virtual (c : cfg) (ext : bool) (e : event) : bool :=
  ext && match ev_node e with Some n => Nat.eqb n (c_root c) | None => false end.

Definition fstep (g : graph) (c : cfg) (ext : bool) (fs : fstate) (fe : fevent) : option fstate :=
  let st := fb fs in
  match returned st with
  | Some _ => None
  | None =>
  match fe with
  | Ev (Ret true) =>
      if negb (tainted g fs) && ret_ok_guard g c ext st then Some (set_ret fs true) else None
  | Ev (Ret false) =>
      if tainted g fs then Some (set_ret fs false) else None
  | Cancel => Some (mkF st true (f_aborted fs) (f_started fs) (f_rd fs))
  | _ =>
    if f_aborted fs then None else
    match fe with
    | Ev e =>
        let dead_close :=
          match e with
          | SFC n => if is_dead (ph st n) then Some n else None
          | _ => None
          end in
        match dead_close with
        | Some n =>
            if memb n (f_rd fs)
            then Some (mkF st (f_cancelled fs) (f_aborted fs) true (remove_node n (f_rd fs)))
            else None
        | None =>
            match step g c st e with
            | Some st' => if on_virtual c ext e then None else Some (with_base fs st')
            | None => None
            end
        end
    | ExX n =>
        match ph st n with
        | ExQ _ => Some (with_base fs (set_ph st n Dead))
        | _ => None
        end
    | SFX n =>
        match ph st n with
        | MF1 | F1 _ | MtF1 => Some (with_base fs (set_ph st n Dead))
        | _ => None
        end
    | SRX n =>
        match ph st n with
        | MF2 => Some (mkF (set_ph st n Dead) (f_cancelled fs) (f_aborted fs) true (n :: f_rd fs))
        | _ => None
        end
    | FSX n =>
        match ph st n with
        | NeedFetch | Waiting => if on_virtual c ext (ExB n) then None else Some (with_base fs (set_ph st n Dead))
        | _ => None
        end
    | PuX n ref stored =>
        if negb (Bool.eqb ref (root_refpush c n)) then None else
        match ph st n with
        | Pushing sk rd =>
            let d' := if stored && negb (has g (dst st) n) then n :: dst st else dst st in
            let tg := if ref && stored then Some n else tag st in
            Some (mkF (mkState (upd (ph st) n Dead) d' (cached st) tg (returned st))
                      (f_cancelled fs) (f_aborted fs) true
                      (if rd then n :: f_rd fs else f_rd fs))
        | _ => None
        end
    | TagX n set =>
        match ph st n with
        | TagP1 _ =>
            Some (with_base fs (mkState (upd (ph st) n Dead) (dst st) (cached st)
                                        (if set then Some n else tag st) (returned st)))
        | _ => None
        end
    | MtX n stored =>
        match ph st n with
        | Mounting | MtC =>
            let d' := if stored && negb (has g (dst st) n) then n :: dst st else dst st in
            Some (with_base fs (mkState (upd (ph st) n Dead) d' (cached st) (tag st) (returned st)))
        | _ => None
        end
    | ProOk => if f_started fs then None else Some fs
    | ProX => if f_started fs then None
              else Some (mkF st (f_cancelled fs) true (f_started fs) (f_rd fs))
    | Cancel => None
    end
  end
  end.

Definition finit (c : cfg) (ext : bool) (d0 : list node) : fstate :=
  mkF (if ext then set_ph (init c d0) (c_root c) Waiting else init c d0) false false false [].

Fixpoint frun (g : graph) (c : cfg) (ext : bool) (fs : fstate) (tr : list fevent) : option fstate :=
  match tr with
  | [] => Some fs
  | e :: tr' => match fstep g c ext fs e with Some fs' => frun g c ext fs' tr' | None => None end
  end.

Definition faccepts (g : graph) (c : cfg) (ext : bool) (d0 : list node) (tr : list fevent) : option fstate :=
  frun g c ext (finit c ext d0) tr.

(* the events the property calls faults *)
Definition is_fault (fe : fevent) : bool :=
  match fe with
  | Ev (CbFail _ _) | ExX _ | SFX _ | SRX _ | FSX _ | PuX _ _ _ | TagX _ _ | MtX _ _ | ProX | Cancel => true
  | _ => false
  end.

(* executable form of link-closure (for the model runner's self-check) *)
Definition closedb (g : graph) (d : list node) : bool :=
  forallb (fun m => forallb (fun x => has g d x) (succ' g m)) d.
