(* encoding/json's string codec as the credentials store uses it (Go 1.22+):
   [json_quote] = the bytes appendString writes between the quotes with
   escapeHTML on (json.Marshal default) -- this is how identitytoken,
   registrytoken, the auth field, credsStore and every object key reach the
   file; [json_unquote] = the Go string unquote produces for the bytes between
   the quotes of a JSON string.  Executable model only; the round trip is
   proved in Proofs/Json.v. *)
From Oras Require Import Base.Prelude Model.Utf8.

Definition hex_digit (n : N) : N := if n <? 10 then 48 + n else 87 + n.   (* lower case *)

Definition hex_val (c : N) : option N :=
  if in_range 48 57 c then Some (c - 48)
  else if in_range 97 102 c then Some (c - 87)
  else if in_range 65 70 c then Some (c - 55)
  else None.

Definition bs : N := 92.   (* backslash *)
Definition dq : N := 34.   (* double quote *)

(* one ASCII byte *)
Definition quote_ascii (c : N) : str :=
  if c =? dq then [bs; dq]
  else if c =? bs then [bs; bs]
  else if c =? 8 then [bs; 98]
  else if c =? 12 then [bs; 102]
  else if c =? 10 then [bs; 110]
  else if c =? 13 then [bs; 114]
  else if c =? 9 then [bs; 116]
  else if (c <? 32) || (c =? 60) || (c =? 62) || (c =? 38)
       then [bs; 117; 48; 48; hex_digit (c / 16); hex_digit (c mod 16)]
  else [c].

(* U+2028 / U+2029 are escaped (JSONP safety) *)
Definition ls_ps (s : str) : option N :=
  match s with
  | a :: b0 :: c :: _ =>
      if (a =? 226) && (b0 =? 128)
      then if c =? 168 then Some 56 else if c =? 169 then Some 57 else None
      else None
  | _ => None
  end.

Definition esc_fffd : str := [bs; 117; 102; 102; 102; 100].

Fixpoint quote_fuel (n : nat) (s : str) : str :=
  match s with
  | [] => []
  | c :: r =>
      match n with
      | O => []
      | S n' =>
          match rune_len s with
          | Some (S O) => quote_ascii c ++ quote_fuel n' r
          | Some k =>
              match ls_ps s with
              | Some d => [bs; 117; 50; 48; 50; d] ++ quote_fuel n' (skipn k s)
              | None => firstn k s ++ quote_fuel n' (skipn k s)
              end
          | None => esc_fffd ++ quote_fuel n' r
          end
      end
  end.

Definition json_quote (s : str) : str := quote_fuel (length s) s.

(* UTF-8 encoding of a code point below 0x10000 that is not a surrogate *)
Definition utf8_bmp (cp : N) : str :=
  if cp <? 128 then [cp]
  else if cp <? 2048 then [192 + cp / 64; 128 + cp mod 64]
  else [224 + cp / 4096; 128 + (cp / 64) mod 64; 128 + cp mod 64].

Definition utf8_supp (cp : N) : str :=
  [240 + cp / 262144; 128 + (cp / 4096) mod 64; 128 + (cp / 64) mod 64; 128 + cp mod 64].

Definition hex4 (s : str) : option (N * str) :=
  match s with
  | h1 :: h2 :: h3 :: h4 :: r =>
      match hex_val h1, hex_val h2, hex_val h3, hex_val h4 with
      | Some a, Some b, Some c, Some d => Some (a * 4096 + b * 256 + c * 16 + d, r)
      | _, _, _, _ => None
      end
  | _ => None
  end.

Definition is_high (cp : N) : bool := in_range 55296 56319 cp.
Definition is_low (cp : N) : bool := in_range 56320 57343 cp.

Fixpoint unquote_fuel (n : nat) (s : str) : option str :=
  match s with
  | [] => Some []
  | c :: r =>
      match n with
      | O => None
      | S n' =>
          let cons_to (u : str) (rest : str) :=
            match unquote_fuel n' rest with Some t => Some (u ++ t) | None => None end in
          if c =? bs then
            match r with
            | [] => None
            | e :: r' =>
                if (e =? dq) || (e =? bs) || (e =? 47) then cons_to [e] r'
                else if e =? 98 then cons_to [8] r'
                else if e =? 102 then cons_to [12] r'
                else if e =? 110 then cons_to [10] r'
                else if e =? 114 then cons_to [13] r'
                else if e =? 116 then cons_to [9] r'
                else if e =? 117 then
                  match hex4 r' with
                  | None => None
                  | Some (cp, r2) =>
                      if is_high cp then
                        match r2 with
                        | 92 :: 117 :: r3 =>
                            match hex4 r3 with
                            | Some (lo, r4) =>
                                if is_low lo
                                then cons_to (utf8_supp (65536 + (cp - 55296) * 1024 + (lo - 56320))) r4
                                else cons_to replacement r2
                            | None => cons_to replacement r2
                            end
                        | _ => cons_to replacement r2
                        end
                      else if is_low cp then cons_to replacement r2
                      else cons_to (utf8_bmp cp) r2
                  end
                else None
            end
          else if (c <? 32) || (c =? dq) then None
          else match rune_len s with
               | Some k => cons_to (firstn k s) (skipn k s)
               | None => cons_to replacement r
               end
      end
  end.

Definition json_unquote (s : str) : option str := unquote_fuel (length s) s.
