(* encoding/json's string codec as the credentials store uses it (Go 1.22+):
   [json_quote] = the bytes appendString writes between the quotes with
   escapeHTML on (json.Marshal default) -- this is how identitytoken,
   registrytoken, the auth field, credsStore and every object key reach the
   file; [json_unquote] = the Go string unquote produces for the bytes between
   the quotes of a JSON string.  Executable model only; the round trip is
   proved in Proofs/Json.v. *)
From Oras Require Import Base.Prelude Model.Utf8.

Definition hex_digit (n : N) : N := if n <? 10 then 48 + n else 87 + n.   (* lower case *)

Definition hex_val (c : N) : option N :=
  if in_range 48 57 c then Some (c - 48)
  else if in_range 97 102 c then Some (c - 87)
  else if in_range 65 70 c then Some (c - 55)
  else None.

Definition bs : N := 92.   (* backslash *)
Definition dq : N := 34.   (* double quote *)

(* one ASCII byte *)
Definition quote_ascii (c : N) : str :=
  if c =? dq then [bs; dq]
  else if c =? bs then [bs; bs]
  else if c =? 8 then [bs; 98]
  else if c =? 12 then [bs; 102]
  else if c =? 10 then [bs; 110]
  else if c =? 13 then [bs; 114]
  else if c =? 9 then [bs; 116]
  else if (c <? 32) || (c =? 60) || (c =? 62) || (c =? 38)
       then [bs; 117; 48; 48; hex_digit (c / 16); hex_digit (c mod 16)]
  else [c].

(* U+2028 / U+2029 are escaped (JSONP safety) *)
Definition ls_ps (s : str) : option N :=
  match s with
  | a :: b0 :: c :: _ =>
      if (a =? 226) && (b0 =? 128)
      then if c =? 168 then Some 56 else if c =? 169 then Some 57 else None
      else None
  | _ => None
  end.

Definition esc_fffd : str := [bs; 117; 102; 102; 102; 100].

Fixpoint quote_fuel (n : nat) (s : str) : str :=
  match s with
  | [] => []
  | c :: r =>
      match n with
      | O => []
      | S n' =>
          match rune_len s with
          | Some (S O) => quote_ascii c ++ quote_fuel n' r
          | Some k =>
              match ls_ps s with
              | Some d => [bs; 117; 50; 48; 50; d] ++ quote_fuel n' (skipn k s)
              | None => firstn k s ++ quote_fuel n' (skipn k s)
              end
          | None => esc_fffd ++ quote_fuel n' r
          end
      end
  end.

Definition json_quote (s : str) : str := quote_fuel (length s) s.

(* UTF-8 encoding of a code point below 0x10000 that is not a surrogate *)
Definition utf8_bmp (cp : N) : str :=
  if cp <? 128 then [cp]
  else if cp <? 2048 then [192 + cp / 64; 128 + cp mod 64]
  else [224 + cp / 4096; 128 + (cp / 64) mod 64; 128 + cp mod 64].

Definition utf8_supp (cp : N) : str :=
  [240 + cp / 262144; 128 + (cp / 4096) mod 64; 128 + (cp / 64) mod 64; 128 + cp mod 64].

Definition hex4 (s : str) : option (N * str) :=
  match s with
  | h1 :: h2 :: h3 :: h4 :: r =>
      match hex_val h1, hex_val h2, hex_val h3, hex_val h4 with
      | Some a, Some b, Some c, Some d => Some (a * 4096 + b * 256 + c * 16 + d, r)
      | _, _, _, _ => None
      end
  | _ => None
  end.

Definition is_high (cp : N) : bool := in_range 55296 56319 cp.
Definition is_low (cp : N) : bool := in_range 56320 57343 cp.

Fixpoint unquote_fuel (n : nat) (s : str) : option str :=
  match s with
  | [] => Some []
  | c :: r =>
      match n with
      | O => None
      | S n' =>
          let cons_to (u : str) (rest : str) :=
            match unquote_fuel n' rest with Some t => Some (u ++ t) | None => None end in
          if c =? bs then
            match r with
            | [] => None
            | e :: r' =>
                if (e =? dq) || (e =? bs) || (e =? 47) then cons_to [e] r'
                else if e =? 98 then cons_to [8] r'
                else if e =? 102 then cons_to [12] r'
                else if e =? 110 then cons_to [10] r'
                else if e =? 114 then cons_to [13] r'
                else if e =? 116 then cons_to [9] r'
                else if e =? 117 then
                  match hex4 r' with
                  | None => None
                  | Some (cp, r2) =>
                      if is_high cp then
                        match r2 with
                        | 92 :: 117 :: r3 =>
                            match hex4 r3 with
                            | Some (lo, r4) =>
                                if is_low lo
                                then cons_to (utf8_supp (65536 + (cp - 55296) * 1024 + (lo - 56320))) r4
                                else cons_to replacement r2
                            | None => cons_to replacement r2
                            end
                        | _ => cons_to replacement r2
                        end
                      else if is_low cp then cons_to replacement r2
                      else cons_to (utf8_bmp cp) r2
                  end
                else None
            end
          else if (c <? 32) || (c =? dq) then None
          else match rune_len s with
               | Some k => cons_to (firstn k s) (skipn k s)
               | None => cons_to replacement r
               end
      end
  end.

Definition json_unquote (s : str) : option str := unquote_fuel (length s) s.

(* ---------- the auths entry Put writes: json.Marshal(AuthConfig{Auth, IdentityToken,
   RegistryToken}) with omitempty -- the bytes kept in Config.authsCache and read
   back by GetCredential (json.Unmarshal), and, re-indented, the bytes in the file ---------- *)
Definition k_auth : str := b "auth".
Definition k_idtok : str := b "identitytoken".
Definition k_regtok : str := b "registrytoken".

Definition member (k v : str) : list str :=
  match v with
  | [] => []                                                   (* omitempty *)
  | _ => [[dq] ++ k ++ [dq; 58; dq] ++ json_quote v ++ [dq]]
  end.

Fixpoint join_comma (l : list str) : str :=
  match l with
  | [] => []
  | [x] => x
  | x :: r => x ++ [44] ++ join_comma r
  end.

Definition render_fresh (auth idtok regtok : str) : str :=
  [123] ++ join_comma (member k_auth auth ++ member k_idtok idtok ++ member k_regtok regtok) ++ [125].

(* the text of a JSON string up to its closing quote (s starts after the opening quote);
   a backslash protects the next byte *)
Fixpoint scan_string (s : str) : option (str * str) :=
  match s with
  | [] => None
  | c :: r =>
      if c =? dq then Some ([], r)
      else if c =? bs then
        match r with
        | [] => None
        | e :: r' => match scan_string r' with
                     | Some (t, rest) => Some (c :: e :: t, rest)
                     | None => None
                     end
        end
      else match scan_string r with
           | Some (t, rest) => Some (c :: t, rest)
           | None => None
           end
  end.

(* members  "k":"v"  separated by commas up to the closing brace; values decoded *)
Fixpoint parse_members (n : nat) (s : str) : option (list (str * str)) :=
  match n with
  | O => None
  | S n' =>
      match s with
      | 34 :: r =>
          match scan_string r with
          | Some (k, 58 :: 34 :: r2) =>
              match scan_string r2 with
              | Some (vq, r3) =>
                  match json_unquote k, json_unquote vq with
                  | Some k', Some v' =>
                      match r3 with
                      | [125] => Some [(k', v')]
                      | 44 :: r4 => match parse_members n' r4 with
                                    | Some l => Some ((k', v') :: l)
                                    | None => None
                                    end
                      | _ => None
                      end
                  | _, _ => None
                  end
              | None => None
              end
          | _ => None
          end
      | _ => None
      end
  end.

Fixpoint field_of (k : str) (l : list (str * str)) : str :=
  match l with
  | [] => []
  | (k', v) :: r => if str_eqb k k' then v else field_of k r
  end.

(* what json.Unmarshal into AuthConfig finds in an entry of this shape *)
Definition parse_fresh (s : str) : option (str * str * str) :=
  match s with
  | [123; 125] => Some ([], [], [])
  | 123 :: r => match parse_members (length r) r with
                | Some l => Some (field_of k_auth l, field_of k_idtok l, field_of k_regtok l)
                | None => None
                end
  | _ => None
  end.
