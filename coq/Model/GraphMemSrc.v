(* Model/GraphMemSrc.v -- the source shape of graph.Memory.index / Remove / Predecessors that
   Model/GraphMem.v mirrors, re-read on every run (translator kind "callseq"):
     index         content.Successors BEFORE the lock (a failure leaves the state untouched), the
                   whole update under Lock/deferred Unlock, per successor: add to the node's
                   successor set, add the node to the successor's predecessor set
     Remove        under Lock/deferred Unlock; per successor: delete the node from the
                   predecessor entry, `len(entry) == 0` -> delete the entry and report the
                   successor when it is present; finally delete the node's own entries
     Predecessors  under RLock/deferred RUnlock; one append per member of the entry
   No proofs here.  (Model/GraphMem.v itself stays free of generated imports so that other
   properties can reuse it.) *)
From Coq Require Import List NArith Bool.
Import ListNotations.
From Oras Require Import Base.Prelude Generated.GC07.

Fixpoint strs_eq (x y : list str) : bool :=
  match x, y with
  | [], [] => true
  | a :: r, c :: t => str_eqb a c && strs_eq r t
  | _, _ => false
  end.
Definition graphmem_source_shape : bool :=
  strs_eq calls_gmIndex
    [b "content.Successors"; b "m.lock.Lock"; b "m.lock.Unlock"; b "descriptor.FromOCI";
     b "descriptor.FromOCI"; b "successorSet.Add"; b "predecessorSet.Add"] &&
  strs_eq calls_gmRemove
    [b "m.lock.Lock"; b "m.lock.Unlock"; b "predecessorEntry.Delete"; b "len"; b "delete";
     b "append"; b "delete"; b "delete"] &&
  strs_eq calls_gmPredecessors
    [b "m.lock.RLock"; b "m.lock.RUnlock"; b "descriptor.FromOCI"; b "append"].
