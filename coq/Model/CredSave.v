(* C18 -- saveFile as FlatFS micro-steps (config.go saveFile + ioutil.Ingest):
   MkdirAll(dir, 0700); CreateTemp (O_CREAT|O_EXCL, 0600); Chmod 0600; Write*;
   Close; Rename(temp, path).  No proofs in this file. *)
From Oras Require Import Base.Prelude Base.FlatFS.

Definition mode_dir : N := 448.   (* 0700 *)
Definition mode_file : N := 384.  (* 0600 *)

Definition save_steps (dir p t : path) (chunks : list str) : list mstep :=
  [MkdirAll dir mode_dir; CreateExcl t mode_file; Chmod t mode_file]
    ++ map (Write t) chunks ++ [Close t; Rename t p].
