(* C18 -- saveFile as FlatFS micro-steps (config.go saveFile + ioutil.Ingest):
   MkdirAll(dir, 0700) = one mkdir per missing level; CreateTemp (O_CREAT|O_EXCL, 0600); Chmod 0600; Write*;
   Close; Rename(temp, path).  No proofs in this file. *)
From Oras Require Import Base.Prelude Base.FlatFS.

Definition mode_dir : N := 448.   (* 0700 *)
Definition mode_file : N := 384.  (* 0600 *)

(* [chain]: the config directory preceded by its ancestors, root-most first;
   os.MkdirAll issues one mkdir per missing level (an existing level is a no-op) *)
Definition save_steps (chain : list path) (p t : path) (chunks : list str) : list mstep :=
  map (fun d => MkdirAll d mode_dir) chain
    ++ [CreateExcl t mode_file; Chmod t mode_file]
    ++ map (Write t) chunks ++ [Close t; Rename t p].

(* ---------- I/O errors inside a save (config.go saveFile + ioutil.Ingest error
   paths).  The failing system call has no effect; what runs afterwards is the
   clean-up the code performs for that failure:
     MkdirAll fails (at level j)   -> nothing (levels already made stay)
     CreateTemp fails              -> nothing
     Chmod / Write fails           -> deferred Close, then os.Remove(temp)   [Ingest]
     Close fails                   -> os.Remove(temp)                          [Ingest]
     Rename fails                  -> deferred os.Remove(ingest)               [saveFile]
   [FWrite j]: j write calls succeeded before the failing one. ---------- *)
Inductive fail_point :=
| FMkdir (j : nat) | FCreate | FChmod | FWrite (j : nat) | FClose | FRename.

Definition failed_save_steps (chain : list path) (p t : path) (chunks : list str) (fp : fail_point) : list mstep :=
  let mkdirs := map (fun d => MkdirAll d mode_dir) chain in
  let writes := map (Write t) chunks in
  match fp with
  | FMkdir j => firstn j mkdirs
  | FCreate => mkdirs
  | FChmod => mkdirs ++ [CreateExcl t mode_file] ++ [Close t; Unlink t]
  | FWrite j => mkdirs ++ [CreateExcl t mode_file; Chmod t mode_file] ++ firstn j writes ++ [Close t; Unlink t]
  | FClose => mkdirs ++ [CreateExcl t mode_file; Chmod t mode_file] ++ writes ++ [Unlink t]
  | FRename => mkdirs ++ [CreateExcl t mode_file; Chmod t mode_file] ++ writes ++ [Close t; Unlink t]
  end.

(* history: before the fix "ioutil.Ingest removes the temp file when chmod or copy
   fails" the deferred clean-up removed the path "" (the named result had been
   reset by `return "", err`), i.e. nothing *)
Definition failed_save_steps_prefix (chain : list path) (p t : path) (chunks : list str) (fp : fail_point) : list mstep :=
  let mkdirs := map (fun d => MkdirAll d mode_dir) chain in
  let writes := map (Write t) chunks in
  match fp with
  | FChmod => mkdirs ++ [CreateExcl t mode_file] ++ [Close t]
  | FWrite j => mkdirs ++ [CreateExcl t mode_file; Chmod t mode_file] ++ firstn j writes ++ [Close t]
  | _ => failed_save_steps chain p t chunks fp
  end.

(* a config path that is a SYMBOLIC LINK to [q]: the name [p] holds no file of
   its own and os.Open(p) reads [q].  saveFile never resolves the link:
   Rename(t, p) replaces the NAME p -- the link disappears, [q] is not touched *)
Definition renamed_onto (p : path) (pre : list mstep) : bool :=
  existsb (fun m => match m with Rename _ d => str_eqb d p | _ => false end) pre.

Definition read_via_link (p q : path) (s0 : fs) (pre : list mstep) : option file :=
  if renamed_onto p pre then fget p (exec_all s0 pre) else fget q (exec_all s0 pre).

(* ---------- one operation of the store, down to the file system ---------- *)
From Oras Require Import Generated.GC18 Model.CredFile.

(* What a reader finds at the config path, up to the representation: [fdoc] is
   not canonical (order of the key list, the tags the harness attaches), and a
   JSON writer such as MarshalIndent sorts keys, so a reader gets back a
   document that is EQUIVALENT to the one written ([eqv], any equivalence the
   writer/reader pair respects), not the same list. *)
Section OpSave.
  Variables (enc : str -> str) (dec : str -> option str).
  Variable render : fdoc -> str.          (* json.MarshalIndent of the document *)
  Variable parse : str -> option fdoc.    (* a JSON reader *)
  Variable eqv : fdoc -> fdoc -> Prop.    (* same document *)
  Variable chunking : str -> list str.    (* how the content is split over write calls *)

  (* micro-steps of the operation: a save when the operation writes, nothing otherwise *)
  Definition op_steps (dir : list path) (p t : path) (st : state) (o : op) : list mstep :=
    if saves st o then
      match st_file (fst (step enc dec st o)) with
      | Some d => save_steps dir p t (chunking (render d))
      | None => []
      end
    else [].

  (* the config path holds (a rendering equivalent to) document [f]; None = no file *)
  Definition disk_is (p : path) (s : fs) (f : option fdoc) : Prop :=
    match f with
    | None => fget p s = None
    | Some d => exists file d', fget p s = Some file /\ parse (f_data file) = Some d' /\ eqv d' d
    end.
End OpSave.
