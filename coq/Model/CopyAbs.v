(* CopyAbs -- the property C02 as a tiny abstract transition system, the common specification that both
   models of the copy refine (the visible-event system Model/CopyFault.v and the protocol system with a
   destination Model/CopyImplDst.v):

     state  : what the destination holds + whether / how the call has returned
     AStore n   : n is stored -- allowed only when every successor of n is held
     ARet true  : success     -- allowed only when everything reachable from every root is held
     ARet false : an error return, always allowed
     ATau       : anything that touches neither the destination nor the return

   [held d m] is "the destination with content d holds m" (by key for digest-keyed stores, by membership for
   the protocol model); the only thing required of it is monotonicity in d.
   By construction a link-closed destination stays link-closed.  No proofs in this file. *)
From Coq Require Import List.
Import ListNotations.

Record astate := mkA { a_dst : list nat; a_ret : option bool }.
Inductive alabel := AStore (n : nat) | ARet (ok : bool) | ATau.

Section Abs.
Variable succ : nat -> list nat.
Variable is_root : nat -> Prop.
Variable held : list nat -> nat -> Prop.

Inductive areach : nat -> nat -> Prop :=
| areach_refl a : areach a a
| areach_step a m b : In m (succ a) -> areach m b -> areach a b.

Inductive astep : astate -> alabel -> astate -> Prop :=
| as_store s n : a_ret s = None -> (forall m, In m (succ n) -> held (a_dst s) m) ->
    astep s (AStore n) (mkA (n :: a_dst s) None)
| as_ret_ok s : a_ret s = None -> (forall r n, is_root r -> areach r n -> held (a_dst s) n) ->
    astep s (ARet true) (mkA (a_dst s) (Some true))
| as_ret_err s : a_ret s = None -> astep s (ARet false) (mkA (a_dst s) (Some false))
| as_tau s : astep s ATau s.

(* link-closure w.r.t. held *)
Definition aclosed (d : list nat) : Prop := forall n, In n d -> forall m, In m (succ n) -> held d m.

End Abs.
