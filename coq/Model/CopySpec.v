(* CopySpec -- the visible-event transition system of oras.copyGraph / oras.Copy
   (copy.go), executable as a trace acceptor.  No proofs in this file.

   One run of Copy/CopyGraph is observed as a sequence of *visible events*:
   calls into the destination (Exists, Push / PushReference, Tag), calls into
   the source (Fetch ... Close of the reader), the user callbacks of
   CopyGraphOptions, and the return of the call.  Because
   status.Tracker.TryCommit gives every descriptor exactly one owner goroutine,
   the state of a run is a *phase per node* plus the destination content, the
   metadata cache of cas.Proxy and the destination tag.

   The acceptor's guards are the ordering rules of copy.go:
     - a node is probed (dst.Exists) only when dispatched: it is the root, or a
       parent is waiting for its successors               (copyGraph.fn, syncutil.Go)
     - a manifest that is not cached is fetched through the proxy exactly once,
       and then pushed from the cache                     (cas.Proxy.Fetch, copyNode(proxy.Cache))
     - PreCopy only after every non-foreign successor is done  (the <-done loop)
     - blob: PreCopy, src.Fetch, dst.Push, Close, PostCopy     (copyNode/doCopyNode)
     - at most K tasks are between their first and last visible event of an
       active segment (the semaphore permit is held at least that long)
     - Copy: root tagged by Tag in PostCopy/OnCopySkipped (Tagger destinations) or
       pushed with PushReference (ReferencePusher destinations)   (prepareCopy)

   EXTENSION POINTS (C02 adds fault events on top of this file):
     - [event] : add constructors (e.g. ExFail n, FetchFail n, PushFail n before/after,
       Cancel); [step] ends with a catch-all [None] so new constructors are
       rejected until given a rule;
     - [Dead] is the phase of a node whose task returned an error; [CbFail] (a
       callback returning an error) is the one fault already modelled and shows
       the pattern: same guard as the successful event, target phase [Dead];
     - [Ret false] only needs some [Dead] node; transient phases of the other
       nodes are allowed then (abandoned after cancellation);
     - [pres] (result of a push) can get more constructors.
   Mount (registry.Mounter destinations, mountOrCopyNode): with [c_mount] an uncached
   non-manifest node goes MountFrom -> Mount per candidate repository -> mounted
   (OnMounted) | skipped (next candidate) | fallback on the last candidate (PreCopy,
   src.Fetch inside Mount, Close, Mount returns, PostCopy).  Not modelled: the
   ReferencePusher root falling back inside Mount (PreCopy answers SkipNode there and
   the real Mount fails).  A mounted root of Copy is tagged after OnMounted
   ([c_tagmounted], the fix of finding mounted-root-untagged). *)
From Oras Require Import Base.Prelude.
Local Open Scope nat_scope.

Definition node := nat.

(* The content universe of one copy: nodes are 0 .. g_n-1. *)
Record graph := mkGraph {
  g_n : nat;
  g_succ : node -> list node;   (* content.Successors: source order, duplicates, foreign layers included *)
  g_foreign : node -> bool;     (* descriptor.IsForeignLayer *)
  g_ismf : node -> bool;        (* one of the five manifest media types: read through the caching proxy *)
  g_dkey : node -> nat          (* identity of the content in the destination: digest for digest-keyed
                                   stores (OCI layout), the node itself for descriptor-keyed ones (memory) *)
}.

(* removeForeignLayers (content.Successors ...) *)
Definition succ' (g : graph) (n : node) : list node :=
  filter (fun c => negb (g_foreign g c)) (g_succ g n).

Inductive mode := MGraph | MTagger | MRefPush.   (* CopyGraph | Copy into a Tagger | Copy into a ReferencePusher *)

Record cfg := mkCfg {
  c_K : nat;            (* effective concurrency (defaultConcurrency when <= 0) *)
  c_mode : mode;
  c_root : node;
  c_mount : bool;       (* the destination is a registry.Mounter and MountFrom is set *)
  c_tagmounted : bool;  (* prepareCopy wraps OnMounted so that a mounted root is tagged (true for the
                           current code; false = the code before the fix, kept for the refutation) *)
  c_cached0 : list node; (* proxy cache at the start of copyGraph (resolveRoot through a ReferenceFetcher
                           caches the resolved manifest) *)
  c_xroots : list node  (* ExtendedCopyGraph: the further roots found by findRoots; all roots are dispatched
                           by one syncutil.Go and share the tracker, the proxy and the limiter ([] for
                           Copy / CopyGraph) *)
}.

Inductive pres := POk | PExists.                       (* dst.Push: nil | ErrAlreadyExists *)
Inductive mres := MMounted | MSkipped | MCopied.       (* Mount: mounted | getContent said "skip source" | content uploaded *)
Inductive cbk := CPre | CPost | CSkip | CMounted | CMountFrom.

Inductive event :=
| ExB (n : node)                       (* dst.Exists called *)
| ExE (n : node) (b : bool)            (* dst.Exists returned b *)
| SFB (n : node)                       (* src.Fetch called *)
| SFE (n : node)                       (* src.Fetch returned a reader *)
| SFC (n : node)                       (* the reader was closed (for a manifest: cache push joined) *)
| PuB (n : node) (ref : bool)          (* dst.Push (ref=false) / dst.PushReference (ref=true) called *)
| PuE (n : node) (ref : bool) (r : pres)
| Cb (k : cbk) (n : node)              (* user callback entered (it returns nil) *)
| CbFail (k : cbk) (n : node)          (* user callback entered and returns an error *)
| MtB (n : node)                       (* dst.Mount called (one candidate repository) *)
| MtE (n : node) (r : mres)            (* dst.Mount returned *)
| TagB (n : node)                      (* dst.Tag(root, dstRef) called *)
| TagE (n : node)                      (* dst.Tag returned nil *)
| Ret (ok : bool).                     (* Copy / CopyGraph returned nil (true) or an error (false) *)

Inductive phase :=
| Idle
| ExQ (was : bool)          (* Exists in flight; was = present when it was called *)
| SkipP                     (* present: OnCopySkipped pending *)
| NeedFetch | MF1 | MF2     (* manifest: proxy fetch to be done / called / reader open *)
| Waiting                   (* successors dispatched, permit released (leaf: nothing to wait for) *)
| Rdy (sk : bool)           (* sk=false: PreCopy done; sk=true: present root of a ReferencePusher copy *)
| F1 (sk : bool) | F2 (sk : bool)      (* uncached content: src.Fetch called / reader open *)
| Pushing (sk rd : bool)    (* push in flight; rd: a source reader is open across the push *)
| Closing (sk : bool)       (* push done, reader still open *)
| TagP0 (sk : bool) | TagP1 (sk : bool)  (* root of a Tagger copy: Tag pending / in flight *)
| MtRdy                     (* MountFrom answered; next: Mount, or PreCopy when there is no candidate *)
| Mounting                  (* Mount in flight *)
| MtPre | MtF1 | MtF2 | MtC (* last candidate falls back: PreCopy done / src.Fetch called / reader open / closed *)
| MountedP                  (* mounted: OnMounted pending *)
| PostP                     (* PostCopy pending *)
| Done
| Dead.

Record state := mkState {
  ph : node -> phase;
  dst : list node;          (* nodes the destination holds (initial content ++ pushed) *)
  cached : list node;       (* proxy.Cache *)
  tag : option node;        (* what dstRef resolves to, as far as this call set it *)
  returned : option bool
}.

Definition upd {A} (f : nat -> A) (n : nat) (v : A) : nat -> A :=
  fun m => if Nat.eqb m n then v else f m.

Definition memb (n : nat) (l : list nat) : bool := existsb (Nat.eqb n) l.

(* dst.Exists(n): some stored node has the same key *)
Definition has (g : graph) (d : list node) (n : node) : bool :=
  existsb (fun m => Nat.eqb (g_dkey g m) (g_dkey g n)) d.

Definition mode_eqb (a b : mode) : bool :=
  match a, b with MGraph, MGraph | MTagger, MTagger | MRefPush, MRefPush => true | _, _ => false end.

Definition is_root (c : cfg) (n : node) : bool := Nat.eqb n (c_root c).
Definition root_tagger (c : cfg) (n : node) : bool := is_root c n && mode_eqb (c_mode c) MTagger.
Definition root_refpush (c : cfg) (n : node) : bool := is_root c n && mode_eqb (c_mode c) MRefPush.

Definition after_tag (sk : bool) : phase := if sk then Done else PostP.
Definition after_push (c : cfg) (n : node) (sk : bool) : phase :=
  if sk then Done else if root_tagger c n then TagP0 false else PostP.

(* holds a permit for sure (visible active segment) *)
Definition active_ph (p : phase) : bool :=
  match p with Idle | Waiting | Done | Dead => false | _ => true end.
(* a source read is in flight: Fetch called, reader not yet closed *)
Definition src_ph (p : phase) : bool :=
  match p with MF1 | MF2 | F1 _ | F2 _ | Pushing _ true | Closing _ | MtF1 | MtF2 => true | _ => false end.
(* a destination operation is in flight *)
Definition dst_ph (p : phase) : bool :=
  match p with
  | ExQ _ | Pushing _ _ | TagP1 _ | Mounting | MtPre | MtF1 | MtF2 | MtC => true
  | _ => false
  end.

Definition count (f : phase -> bool) (g : graph) (st : state) : nat :=
  length (filter (fun n => f (ph st n)) (seq 0 (g_n g))).

Definition active (g : graph) (st : state) : nat := count active_ph g st.
Definition inflight_src (g : graph) (st : state) : nat := count src_ph g st.
Definition inflight_dst (g : graph) (st : state) : nat := count dst_ph g st.

Definition is_waiting (p : phase) : bool := match p with Waiting => true | _ => false end.
Definition is_done (p : phase) : bool := match p with Done => true | _ => false end.
Definition is_dead (p : phase) : bool := match p with Dead => true | _ => false end.
Definition is_idle_or_done (p : phase) : bool := match p with Idle | Done => true | _ => false end.

(* syncutil.Go(ctx, limiter, fn, successors...) of a parent that waits, or the root *)
Definition dispatched (g : graph) (c : cfg) (st : state) (n : node) : bool :=
  is_root c n || memb n (c_xroots c) ||
  existsb (fun p => is_waiting (ph st p) && memb n (succ' g p)) (seq 0 (g_n g)).

Definition set_ph (st : state) (n : node) (p : phase) : state :=
  mkState (upd (ph st) n p) (dst st) (cached st) (tag st) (returned st).

(* mountOrCopyNode tries to mount: Mounter destination with MountFrom, blob read from the source *)
Definition mount_applies (g : graph) (c : cfg) (st : state) (n : node) : bool :=
  c_mount c && negb (g_ismf g n) && negb (memb n (cached st)).

(* user callback k entered on node n: guard and next phase (shared by Cb and CbFail) *)
Definition cb_next (g : graph) (c : cfg) (st : state) (k : cbk) (n : node) : option phase :=
  match k, ph st n with
  | CPre, Waiting =>
      if forallb (fun s => is_done (ph st s)) (succ' g n) && Nat.ltb (active g st) (c_K c)
         && negb (mount_applies g c st n)
      then Some (Rdy false) else None
  | CMountFrom, Waiting =>
      if forallb (fun s => is_done (ph st s)) (succ' g n) && Nat.ltb (active g st) (c_K c)
         && mount_applies g c st n
      then Some MtRdy else None
  | CPre, MtRdy => Some (Rdy false)
  | CPre, Mounting =>
      (* not modelled as a success path: the root of a ReferencePusher copy (its PreCopy pushes with
         the reference and answers SkipNode, so the real Mount fails) *)
      if root_refpush c n then None else Some MtPre
  | CMounted, MountedP =>
      (* Copy: the mounted root is then tagged like an already-present root *)
      Some (if c_tagmounted c
            then if root_tagger c n then TagP0 true else if root_refpush c n then Rdy true else Done
            else Done)
  | CPost, PostP => Some Done
  | CSkip, SkipP => Some (if root_tagger c n then TagP0 true else Done)
  | _, _ => None
  end.

Definition step (g : graph) (c : cfg) (st : state) (e : event) : option state :=
  match returned st with
  | Some _ => None
  | None =>
  match e with
  | ExB n =>
      match ph st n with
      | Idle =>
          if Nat.ltb n (g_n g) && dispatched g c st n && Nat.ltb (active g st) (c_K c)
          then Some (set_ph st n (ExQ (has g (dst st) n))) else None
      | _ => None
      end
  | ExE n b =>
      match ph st n with
      | ExQ was =>
          if b then
            if has g (dst st) n
            then Some (set_ph st n (if root_refpush c n then Rdy true else SkipP))
            else None
          else
            if was then None
            else Some (set_ph st n (if g_ismf g n && negb (memb n (cached st)) then NeedFetch else Waiting))
      | _ => None
      end
  | SFB n =>
      match ph st n with
      | NeedFetch => if memb n (cached st) then None else Some (set_ph st n MF1)
      | Rdy sk => if memb n (cached st) then None else Some (set_ph st n (F1 sk))
      | MtPre => if memb n (cached st) then None else Some (set_ph st n MtF1)
      | _ => None
      end
  | SFE n =>
      match ph st n with
      | MF1 => Some (set_ph st n MF2)
      | F1 sk => Some (set_ph st n (F2 sk))
      | MtF1 => Some (set_ph st n MtF2)
      | _ => None
      end
  | SFC n =>
      match ph st n with
      | MF2 => Some (mkState (upd (ph st) n Waiting) (dst st) (n :: cached st) (tag st) (returned st))
      | Closing sk => Some (set_ph st n (after_push c n sk))
      | Pushing sk true => Some (set_ph st n (Pushing sk false))
          (* the destination closed the reader it was given before returning (an HTTP client
             closes the request body); doCopyNode's deferred Close is then a no-op *)
      | MtF2 => Some (set_ph st n MtC)
      | _ => None
      end
  | PuB n ref =>
      if negb (Bool.eqb ref (root_refpush c n)) then None else
      match ph st n with
      | Rdy sk => if memb n (cached st) then Some (set_ph st n (Pushing sk false)) else None
      | F2 sk => Some (set_ph st n (Pushing sk true))
      | _ => None
      end
  | PuE n ref r =>
      if negb (Bool.eqb ref (root_refpush c n)) then None else
      match ph st n with
      | Pushing sk rd =>
          let nxt := if rd then Closing sk else after_push c n sk in
          let tg := if ref then Some n else tag st in
          match r with
          | POk =>
              (* content is stored only when absent: a store holding it answers ErrAlreadyExists *)
              if has g (dst st) n then None
              else Some (mkState (upd (ph st) n nxt) (n :: dst st) (cached st) tg (returned st))
          | PExists =>
              if has g (dst st) n
              then Some (mkState (upd (ph st) n nxt) (dst st) (cached st) tg (returned st))
              else None
          end
      | _ => None
      end
  | Cb k n =>
      match cb_next g c st k n with
      | Some p => Some (set_ph st n p)
      | None => None
      end
  | CbFail k n =>
      match cb_next g c st k n with
      | Some _ => Some (set_ph st n Dead)
      | None => None
      end
  | MtB n =>
      match ph st n with
      | MtRdy => Some (set_ph st n Mounting)
      | _ => None
      end
  | MtE n r =>
      match ph st n, r with
      | Mounting, MSkipped => Some (set_ph st n MtRdy)
      | Mounting, MMounted =>
          if has g (dst st) n then None
          else Some (mkState (upd (ph st) n MountedP) (n :: dst st) (cached st) (tag st) (returned st))
      | MtC, MCopied =>
          if has g (dst st) n then None
          else Some (mkState (upd (ph st) n (after_push c n false)) (n :: dst st) (cached st) (tag st) (returned st))
      | _, _ => None
      end
  | TagB n =>
      match ph st n with
      | TagP0 sk => Some (set_ph st n (TagP1 sk))
      | _ => None
      end
  | TagE n =>
      match ph st n with
      | TagP1 sk => Some (mkState (upd (ph st) n (after_tag sk)) (dst st) (cached st) (Some n) (returned st))
      | _ => None
      end
  | Ret true =>
      if is_done (ph st (c_root c)) && forallb (fun n => is_idle_or_done (ph st n)) (seq 0 (g_n g))
         && forallb (fun r => is_done (ph st r)) (c_xroots c)
      then Some (mkState (ph st) (dst st) (cached st) (tag st) (Some true)) else None
  | Ret false =>
      if existsb (fun n => is_dead (ph st n)) (seq 0 (g_n g))
      then Some (mkState (ph st) (dst st) (cached st) (tag st) (Some false)) else None
  end
  end.

Definition init (c : cfg) (d0 : list node) : state :=
  mkState (fun _ => Idle) d0 (c_cached0 c) None None.

(* run a trace; None = rejected *)
Fixpoint run (g : graph) (c : cfg) (st : state) (tr : list event) : option state :=
  match tr with
  | [] => Some st
  | e :: tr' => match step g c st e with Some st' => run g c st' tr' | None => None end
  end.

(* index of the first rejected event (for diagnostics), or the final state *)
Fixpoint run_diag (g : graph) (c : cfg) (st : state) (tr : list event) (i : nat) : state + nat :=
  match tr with
  | [] => inl st
  | e :: tr' => match step g c st e with Some st' => run_diag g c st' tr' (S i) | None => inr i end
  end.

Definition accepts (g : graph) (c : cfg) (d0 : list node) (tr : list event) : option state :=
  run g c (init c d0) tr.

(* ---- the deterministic result ---- *)

(* nodes reached from n along paths all of whose nodes (n and the result included)
   are absent from the initial destination; fuel > rank n suffices *)
Fixpoint reachset (g : graph) (d0 : list node) (fuel : nat) (n : node) : list node :=
  match fuel with
  | O => []
  | S f => if has g d0 n then [] else n :: flat_map (reachset g d0 f) (succ' g n)
  end.

(* final destination content of a successful copy *)
Definition copy_result (g : graph) (d0 : list node) (fuel : nat) (root : node) : list node :=
  reachset g d0 fuel root ++ d0.

(* observable projections used by the correspondence *)
Definition present_nodes (g : graph) (d : list node) : list node :=
  filter (has g d) (seq 0 (g_n g)).
