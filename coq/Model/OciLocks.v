(* The store's operations as programs of atomic steps under its two locks (the RWMutex `sync`
   and `indexLock`), all operations together: Tag, Untag, SaveIndex, Push (shared lock) and
   Delete (exclusive lock) on the resolver map, index.json and the blob files.  No proofs here.

   Safety is not proved program by program but for EVERY program that passes a lock-discipline
   checker ([check]: a type-state automaton over the lock mode, indexLock, "snapshot taken",
   "registered since the last snapshot", the nodes whose content the thread has seen exist under
   its lock, the nodes whose references it has dropped).  The programs of the real operations
   are assembled from the call sequences the translator reads from the Go sources
   (Generated/GC08.v); Proofs/OciLocks.v shows that they pass the checker - moving a lock call
   in the sources makes that fail. *)
From Coq Require Import List Arith Bool.
From Oras Require Import Base.Prelude Generated.GC08 Model.OciIndex Model.OciConc.
Import ListNotations.
Local Open Scope nat_scope.

Inductive lmode := MNone | MShared | MExcl.
Definition lmode_eqb (a b : lmode) : bool :=
  match a, b with MNone, MNone | MShared, MShared | MExcl, MExcl => true | _, _ => false end.

Inductive kstep :=
| KRLock | KRUnlock | KWLock | KWUnlock          (* s.sync *)
| KExists (k : nat)                              (* s.storage.Exists *)
| KCreate (k : nat)                              (* s.storage.Push: the blob file appears *)
| KReg (r : rreg)                                (* one call of the resolver *)
| KRegDelete (k : nat)                           (* delete(): every reference to digest k goes *)
| KSave (s : sstep)                              (* a step of saveIndex *)
| KRemove (k : nat)                              (* s.storage.Delete: the blob file goes *)
| KRegGC (g : nat)                               (* gcIndex of GC call g: only references to kept content remain *)
| KSweep (g : nat).                              (* GC's sweep: the blob files of content not kept go *)

(* what a registration refers to *)
Definition rreg_node (r : rreg) : option nat :=
  match r with RegDig d => Some (d_node d) | RegTag _ d => Some (d_node d) | RegUntag _ => None end.

(* the type state of a thread *)
Record tstate := mkTS {
  ts_mode : lmode; ts_hold : bool; ts_snapped : bool; ts_dirty : bool;
  ts_ver : list nat;      (* content seen to exist while the store lock is held *)
  ts_clr : list nat;      (* content whose references were dropped under the exclusive lock *)
  ts_dig : list nat;      (* content whose digest reference this thread registered under its lock *)
  ts_gc : list nat }.     (* GC calls whose gcIndex this thread has run under the exclusive lock *)
Definition ts0 : tstate := mkTS MNone false false false [] [] [] [].

Definition tstep_ok (a : tstate) (st : kstep) : bool :=
  match st with
  | KRLock | KWLock => lmode_eqb (ts_mode a) MNone
  | KRUnlock => lmode_eqb (ts_mode a) MShared && negb (ts_hold a) && negb (ts_snapped a) && negb (ts_dirty a)
  | KWUnlock => lmode_eqb (ts_mode a) MExcl && negb (ts_hold a) && negb (ts_snapped a) && negb (ts_dirty a)
  | KExists _ | KCreate _ => negb (lmode_eqb (ts_mode a) MNone)
  | KReg r => negb (lmode_eqb (ts_mode a) MNone) &&
              match rreg_node r with Some k => mem k (ts_ver a) && negb (mem k (ts_clr a)) | None => true end &&
              match r with RegTag _ d => mem (d_node d) (ts_dig a) | _ => true end &&  (* Store.tag: digest entry first *)
              match ts_gc a with [] => true | _ => false end
  | KRegDelete _ => lmode_eqb (ts_mode a) MExcl
  | KSave SLock => negb (lmode_eqb (ts_mode a) MNone) && negb (ts_hold a)
  | KSave SSnap => ts_hold a
  | KSave SWrite => ts_hold a && ts_snapped a
  | KSave SUnlock => ts_hold a && negb (ts_snapped a)
  | KRemove k => lmode_eqb (ts_mode a) MExcl && mem k (ts_clr a) && negb (ts_hold a) &&
                 negb (ts_snapped a) && negb (ts_dirty a)
  | KRegGC _ => lmode_eqb (ts_mode a) MExcl
  | KSweep g => lmode_eqb (ts_mode a) MExcl && mem g (ts_gc a) && negb (ts_hold a) &&
                negb (ts_snapped a) && negb (ts_dirty a)
  end.
Definition tnext (a : tstate) (st : kstep) : tstate :=
  match st with
  | KRLock => mkTS MShared (ts_hold a) (ts_snapped a) (ts_dirty a) [] [] [] []
  | KWLock => mkTS MExcl (ts_hold a) (ts_snapped a) (ts_dirty a) [] [] [] []
  | KRUnlock | KWUnlock => mkTS MNone (ts_hold a) (ts_snapped a) (ts_dirty a) [] [] [] []
  | KExists k | KCreate k => mkTS (ts_mode a) (ts_hold a) (ts_snapped a) (ts_dirty a) (k :: ts_ver a) (ts_clr a) (ts_dig a) (ts_gc a)
  | KReg r => mkTS (ts_mode a) (ts_hold a) (ts_snapped a) true (ts_ver a) (ts_clr a)
                   (match r with RegDig d => d_node d :: ts_dig a | _ => ts_dig a end) (ts_gc a)
  | KRegDelete k => mkTS (ts_mode a) (ts_hold a) (ts_snapped a) true (ts_ver a) (k :: ts_clr a) [] (ts_gc a)
  | KSave SLock => mkTS (ts_mode a) true (ts_snapped a) (ts_dirty a) (ts_ver a) (ts_clr a) (ts_dig a) (ts_gc a)
  | KSave SSnap => mkTS (ts_mode a) (ts_hold a) true false (ts_ver a) (ts_clr a) (ts_dig a) (ts_gc a)
  | KSave SWrite => mkTS (ts_mode a) (ts_hold a) false (ts_dirty a) (ts_ver a) (ts_clr a) (ts_dig a) (ts_gc a)
  | KSave SUnlock => mkTS (ts_mode a) false (ts_snapped a) (ts_dirty a) (ts_ver a) (ts_clr a) (ts_dig a) (ts_gc a)
  | KRemove _ => mkTS (ts_mode a) (ts_hold a) (ts_snapped a) (ts_dirty a) [] (ts_clr a) (ts_dig a) (ts_gc a)
  | KRegGC g => mkTS (ts_mode a) (ts_hold a) (ts_snapped a) true (ts_ver a) (ts_clr a) [] (g :: ts_gc a)
  | KSweep _ => mkTS (ts_mode a) (ts_hold a) (ts_snapped a) (ts_dirty a) [] (ts_clr a) (ts_dig a) (ts_gc a)
  end.
(* a program respects the lock discipline from type state [a] on, and ends with every lock released *)
Fixpoint check (a : tstate) (p : list kstep) : bool :=
  match p with
  | [] => lmode_eqb (ts_mode a) MNone
  | st :: p' => tstep_ok a st && check (tnext a st) p'
  end.

(* ---------- the transition system ---------- *)
Record lthread := mkLT { l_prog : list kstep; l_ts : tstate; l_snap : option rmap; l_ok : bool }.
Record lstate := mkLS {
  ll_live : rmap; ll_disk : list desc; ll_blobs : list nat; ll_ilock : option nat;
  ll_n : nat; ll_ths : nat -> lthread;
  ll_keep : nat -> nat -> bool }.   (* what GC call g keeps (the nodes of its rebuilt graph): constant *)

Definition lupd (f : nat -> lthread) (i : nat) (t : lthread) : nat -> lthread :=
  fun j => if Nat.eqb j i then t else f j.
Definition others (s : lstate) (i : nat) (p : lthread -> bool) : bool :=
  forallb (fun j => Nat.eqb j i || p (ll_ths s j)) (seq 0 (ll_n s)).

Definition delete_refs (k : nat) (ix : rmap) : rmap := filter (fun kv => negb (Nat.eqb (d_node (snd kv)) k)) ix.

Definition gc_refs (keep : nat -> bool) (ix : rmap) : rmap := filter (fun kv => keep (d_node (snd kv))) ix.

(* one atomic step of thread i < n; c: the map orders of a write *)
Definition l_step (i : nat) (c : list nat * list nat) (s : lstate) : option lstate :=
  if negb (Nat.ltb i (ll_n s)) then None else
  let t := ll_ths s i in
  match l_prog t with
  | [] => None
  | st :: p =>
    let a := l_ts t in
    let fin live disk blobs il snap ok :=
      Some (mkLS live disk blobs il (ll_n s) (lupd (ll_ths s) i (mkLT p (tnext a st) snap ok)) (ll_keep s)) in
    let same snap ok := fin (ll_live s) (ll_disk s) (ll_blobs s) (ll_ilock s) snap ok in
    match st with
    | KRLock => if others s i (fun u => negb (lmode_eqb (ts_mode (l_ts u)) MExcl)) then same (l_snap t) true else None
    | KWLock => if others s i (fun u => lmode_eqb (ts_mode (l_ts u)) MNone) then same (l_snap t) true else None
    | KRUnlock | KWUnlock => same (l_snap t) true
    | KExists k => same (l_snap t) (l_ok t && mem k (ll_blobs s))      (* absent: the operation returns NotFound *)
    | KCreate k => fin (ll_live s) (ll_disk s) (add k (ll_blobs s)) (ll_ilock s) (l_snap t) (l_ok t)
    | KReg r => fin (if l_ok t then reg_fun r (ll_live s) else ll_live s) (ll_disk s) (ll_blobs s) (ll_ilock s) (l_snap t) (l_ok t)
    | KRegDelete k => fin (delete_refs k (ll_live s)) (ll_disk s) (ll_blobs s) (ll_ilock s) (l_snap t) (l_ok t)
    | KSave SLock => match ll_ilock s with None => fin (ll_live s) (ll_disk s) (ll_blobs s) (Some i) (l_snap t) (l_ok t) | Some _ => None end
    | KSave SSnap => same (Some (ll_live s)) (l_ok t)
    | KSave SWrite =>
      fin (ll_live s) (save_index (fst c) (snd c) (match l_snap t with Some v => v | None => ll_live s end))
          (ll_blobs s) (ll_ilock s) (l_snap t) (l_ok t)
    | KSave SUnlock => fin (ll_live s) (ll_disk s) (ll_blobs s) None None (l_ok t)
    | KRemove k => fin (ll_live s) (ll_disk s) (del k (ll_blobs s)) (ll_ilock s) (l_snap t) (l_ok t)
    | KRegGC g => fin (gc_refs (ll_keep s g) (ll_live s)) (ll_disk s) (ll_blobs s) (ll_ilock s) (l_snap t) (l_ok t)
    | KSweep g => fin (ll_live s) (ll_disk s) (filter (ll_keep s g) (ll_blobs s)) (ll_ilock s) (l_snap t) (l_ok t)
    end
  end.

Fixpoint l_run (sched : list (nat * (list nat * list nat))) (s : lstate) : lstate :=
  match sched with
  | [] => s
  | (i, c) :: r => l_run r (match l_step i c s with Some s' => s' | None => s end)
  end.

Definition l_quiescent (s : lstate) : Prop := forall i, i < ll_n s -> l_prog (ll_ths s i) = [].
(* every reference of the live map points to a blob file *)
Definition refs_valid (s : lstate) : Prop :=
  forall r d, In (r, d) (ll_live s) -> In (d_node d) (ll_blobs s).
(* the store at rest: index.json current, references valid, no lock held, every thread about to run
   a program that respects the lock discipline *)
Definition l_init (s : lstate) : Prop :=
  (exists c, ll_disk s = save_index (fst c) (snd c) (ll_live s)) /\ refs_valid s /\ ll_ilock s = None /\
  forall i, i < ll_n s -> l_ts (ll_ths s i) = ts0 /\ l_snap (ll_ths s i) = None /\ l_ok (ll_ths s i) = true /\
                          check ts0 (l_prog (ll_ths s i)) = true.

(* ---------- the programs of the operations, from the generated call sequences ---------- *)
Definition ksave : list kstep := map KSave save_prog.
(* Store.tag for (desc, tag): the resolver calls in source order, then saveIndex *)
Definition ktag_body (regs : list rreg) : list kstep :=
  let fix go (calls : list str) (regs : list rreg) : list kstep :=
    match calls with
    | [] => []
    | c :: cs =>
      if str_eqb c (b "s.tagResolver.Tag") then
        match regs with r :: rs => KReg r :: go cs rs | [] => go cs [] end
      else if str_eqb c (b "s.saveIndex") then ksave ++ go cs regs
      else go cs regs
    end in
  go c08_calls_tag regs.
Definition prog_of_calls (calls : list str) (f : str -> list kstep) (unlock : kstep) : list kstep :=
  flat_map f calls ++ [unlock].

Definition prog_tag (d : desc) (t : nat) : list kstep :=
  prog_of_calls c08_calls_Tag (fun c =>
    if str_eqb c (b "s.sync.RLock") then [KRLock]
    else if str_eqb c (b "s.storage.Exists") then [KExists (d_node d)]
    else if str_eqb c (b "s.tag") then ktag_body [RegDig d; RegTag t d]
    else []) KRUnlock.
Definition prog_untag (t : nat) : list kstep :=
  prog_of_calls c08_calls_Untag (fun c =>
    if str_eqb c (b "s.sync.RLock") then [KRLock]
    else if str_eqb c (b "s.tagResolver.Untag") then [KReg (RegUntag t)]
    else if str_eqb c (b "s.saveIndex") then ksave
    else []) KRUnlock.
Definition prog_saveindex : list kstep :=
  prog_of_calls c08_calls_SaveIndex (fun c =>
    if str_eqb c (b "s.sync.RLock") then [KRLock]
    else if str_eqb c (b "s.saveIndex") then ksave
    else []) KRUnlock.
(* Push of a manifest k (a plain blob: without the tag part) *)
Definition prog_push (k : nat) (manifest : bool) : list kstep :=
  prog_of_calls c08_calls_Push (fun c =>
    if str_eqb c (b "s.sync.RLock") then [KRLock]
    else if str_eqb c (b "s.storage.Push") then [KCreate k]
    else if str_eqb c (b "s.tag") then (if manifest then ktag_body [RegDig (plain k)] else [])
    else []) KRUnlock.
(* Delete of node k without AutoGC: exclusive lock, then delete() *)
Definition prog_delete (k : nat) : list kstep :=
  prog_of_calls (firstn 1 c08_calls_Delete ++ c08_calls_delete) (fun c =>
    if str_eqb c (b "s.sync.Lock") then [KWLock]
    else if str_eqb c (b "s.tagResolver.Untag") then [KRegDelete k]
    else if str_eqb c (b "s.saveIndex") then ksave
    else if str_eqb c (b "s.storage.Delete") then [KRemove k]
    else []) KWUnlock.

(* GC call g: exclusive lock, gcIndex, saveIndex, sweep (c08_calls_GC) *)
Definition prog_gc (g : nat) : list kstep :=
  prog_of_calls c08_calls_GC (fun c =>
    if str_eqb c (b "s.sync.Lock") then [KWLock]
    else if str_eqb c (b "s.gcIndex") then [KRegGC g]
    else if str_eqb c (b "s.saveIndex") then ksave
    else if str_eqb c (b "os.Remove") then [KSweep g]
    else []) KWUnlock.

(* a thread that runs a list of operations *)
Inductive lop := LTag (d : desc) (t : nat) | LUntag (t : nat) | LSaveIndex | LPush (k : nat) (manifest : bool) | LDelete (k : nat) | LGC (g : nat).
Definition prog_of_lop (o : lop) : list kstep :=
  match o with
  | LTag d t => prog_tag d t
  | LUntag t => prog_untag t
  | LSaveIndex => prog_saveindex
  | LPush k m => prog_push k m
  | LDelete k => prog_delete k
  | LGC g => prog_gc g
  end.
Definition prog_of_lops (ops : list lop) : list kstep := flat_map prog_of_lop ops.

(* ---------- Delete with AutoGC: a cascade of delete() calls under ONE exclusive lock ---------- *)
(* one queue item: node k is deleted; the manifests [ds] that lose their last predecessor get a
   digest reference (Store.delete: after graph.Remove, before saveIndex; the graph knows them as
   stored content - in this system that knowledge is an Exists step) *)
Definition prog_delete_item (k : nat) (ds : list nat) : list kstep :=
  flat_map (fun c =>
    if str_eqb c (b "s.tagResolver.Untag") then [KRegDelete k]
    else if str_eqb c (b "s.graph.Remove") then flat_map (fun d => [KExists d; KReg (RegDig (plain d))]) ds
    else if str_eqb c (b "s.saveIndex") then ksave
    else if str_eqb c (b "s.storage.Delete") then [KRemove k]
    else []) c08_calls_delete.
(* Store.Delete with AutoGC: lock, the queue loop (the target, then referrers and danglings), unlock *)
Definition prog_delete_auto (items : list (nat * list nat)) : list kstep :=
  flat_map (fun c => if str_eqb c (b "s.sync.Lock") then [KWLock] else []) (firstn 1 c08_calls_Delete) ++
  flat_map (fun it => prog_delete_item (fst it) (snd it)) items ++ [KWUnlock].
(* a node that gets a digest reference is not one the cascade has deleted (it is still in the graph) *)
Fixpoint cascade_wf (gone : list nat) (items : list (nat * list nat)) : bool :=
  match items with
  | [] => true
  | (k, ds) :: r => forallb (fun d => negb (mem d (k :: gone))) ds && cascade_wf (k :: gone) r
  end.
