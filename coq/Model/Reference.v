(* Executable model of registry.ParseReference, Reference.String,
   Repository.ParseReference and the URL builders of registry/remote/url.go.
   The regular expressions come from Generated/Regexes.v (re-translated from the
   Go source on every run).  The registry check (net/url) is a parameter. *)
From Oras Require Import Base.Prelude Base.Regex Generated.GC20 Model.NetURL.

Record reference := mkRef { r_registry : str; r_repository : str; r_reference : str }.

Definition ref_eqb (x y : reference) : bool :=
  str_eqb (r_registry x) (r_registry y) && str_eqb (r_repository x) (r_repository y)
  && str_eqb (r_reference x) (r_reference y).

Definition split_first (c : N) (s : str) : option (str * str) :=
  match index_of c s with
  | Some i => Some (firstn i s, skipn (S i) s)
  | None => None
  end.

Definition c_slash := 47. Definition c_colon := 58. Definition c_at := 64.

(* go-digest v1.0.0 Digest.Validate: the algorithm must be one of the three the package knows
   (sha256/sha384/sha512, alg_table) AND available, i.e. its hash implementation linked into the
   binary (crypto.Hash.Available: go-digest's README asks callers to import crypto/sha256 and
   crypto/sha512).  [avail] is that link-time fact; every theorem holds for every [avail]. *)
Definition hexlower (c : N) : bool := ((48 <=? c) && (c <=? 57)) || ((97 <=? c) && (c <=? 102)).
Definition alg_table : list (str * nat) :=
  [(b "sha256", 64%nat); (b "sha384", 96%nat); (b "sha512", 128%nat)].

Definition valid_tag (s : str) : bool := matches tagRegexp s.
Definition valid_repository (s : str) : bool := matches repositoryRegexp s.

Section WithDigests.
Variable avail : str -> bool.

Definition valid_digest (s : str) : bool :=
  match split_first c_colon s with
  | None => false
  | Some (alg, enc) =>
      match find (fun p => str_eqb (fst p) alg) alg_table with
      | Some (_, n) => avail alg && Nat.eqb (length enc) n && forallb hexlower enc
      | None => false
      end
  end.

(* Digest.Validate assembled from go-digest's own table (Generated go_digest_algorithms: name,
   2 * hash size, anchored regex of the encoded part, read off the pinned module's algorithm.go on
   every run): the algorithm must be available AND in the table, the encoded part must have the
   table's length AND match the table's regex.  This is what the correspondence runs for the digest
   component; Proofs/RefGrammar.v proves it equal to [valid_digest], the closed form of the theorems. *)
Definition valid_digest_gen (s : str) : bool :=
  match split_first c_colon s with
  | None => false
  | Some (alg, enc) =>
      match find (fun p => str_eqb (fst (fst p)) alg) go_digest_algorithms with
      | Some (_, n, r) => avail alg && Nat.eqb (length enc) n && matches r enc
      | None => false
      end
  end.

Section WithRegistry.
  Variable valid_registry : str -> bool.

  (* registry.ParseReference *)
  Definition parse (s : str) : option reference :=
    match split_first c_slash s with
    | None => None
    | Some (reg, path) =>
        let '(isTag, repo, rf) :=
          match split_first c_at path with
          | Some (r0, d) =>
              (false, match split_first c_colon r0 with Some (r1, _) => r1 | None => r0 end, d)
          | None =>
              match split_first c_colon path with
              | Some (r0, t) => (true, r0, t)
              | None => (false, path, [])
              end
          end in
        if negb (valid_registry reg) then None
        else if negb (valid_repository repo) then None
        else match rf with
             | [] => Some (mkRef reg repo [])
             | _ => if (if isTag : bool then valid_tag rf else valid_digest rf)
                    then Some (mkRef reg repo rf) else None
             end
    end.

  (* Reference.String *)
  Definition format (r : reference) : str :=
    match r_repository r with
    | [] => r_registry r
    | _ =>
        let base := r_registry r ++ [c_slash] ++ r_repository r in
        match r_reference r with
        | [] => base
        | rf => if valid_digest rf then base ++ [c_at] ++ rf else base ++ [c_colon] ++ rf
        end
    end.

  (* Reference.ValidateReference *)
  Definition validate_reference (rf : str) : bool :=
    match rf with
    | [] => true
    | _ => if contains c_colon rf then valid_digest rf else valid_tag rf
    end.

  (* Reference.Validate: registry, repository, then ValidateReference (empty, or digest when it
     contains a colon, else tag) *)
  Definition validate (r : reference) : bool :=
    valid_registry (r_registry r) && valid_repository (r_repository r) && validate_reference (r_reference r).

  (* Repository.ParseReference with base reference (breg, brepo).  [strict] = the code after the
     fix "rejects a malformed path in front of '@digest'": what precedes the '@' in the fallback
     branch must not contain a slash.  [strict = false] is the code before that fix, kept for the
     refuted theorem. *)
  Definition repo_parse_gen (strict : bool) (breg brepo : str) (s : str) : option reference :=
    let res :=
      match parse s with
      | Some r =>
          if str_eqb (r_registry r) breg && str_eqb (r_repository r) brepo then Some r else None
      | None =>
          match split_first c_at s with
          | Some (j, d) =>
              if strict && contains c_slash j then None
              else if valid_digest d then Some (mkRef breg brepo d) else None
          | None => if validate_reference s then Some (mkRef breg brepo s) else None
          end
      end in
    match res with
    | Some r => match r_reference r with [] => None | _ => Some r end
    | None => None
    end.
  Definition repo_parse := repo_parse_gen true.
  Definition repo_parse_prefix := repo_parse_gen false.
End WithRegistry.
End WithDigests.

(* URL builders of registry/remote/url.go, as byte strings *)
Definition host_of (reg : str) : str :=
  if str_eqb reg (b "docker.io") then b "registry-1.docker.io" else reg.
Definition scheme (plain : bool) : str := if plain then b "http" else b "https".
Definition url_repo_base (plain : bool) (r : reference) : str :=
  scheme plain ++ b "://" ++ host_of (r_registry r) ++ b "/v2/" ++ r_repository r.
Definition url_manifest (plain : bool) (r : reference) : str :=
  url_repo_base plain r ++ b "/manifests/" ++ r_reference r.
Definition url_blob (plain : bool) (r : reference) : str :=
  url_repo_base plain r ++ b "/blobs/" ++ r_reference r.
Definition url_referrers (plain : bool) (r : reference) : str :=
  url_repo_base plain r ++ b "/referrers/" ++ r_reference r.
Definition url_taglist (plain : bool) (r : reference) : str :=
  url_repo_base plain r ++ b "/tags/list".
Definition url_upload (plain : bool) (r : reference) : str :=
  url_repo_base plain r ++ b "/blobs/uploads/".
(* buildReferrersURL with an artifactType filter: "?" + url.Values{artifactType}.Encode() *)
Definition url_referrers_at (plain : bool) (r : reference) (at_ : str) : str :=
  url_referrers plain r ++ match at_ with [] => [] | _ => b "?artifactType=" ++ query_escape at_ end.
(* buildRepositoryBlobMountURL: digest and source repository are printed as they are *)
Definition url_mount (plain : bool) (r : reference) (d from : str) : str :=
  url_upload plain r ++ b "?mount=" ++ d ++ b "&from=" ++ from.
Definition url_base (plain : bool) (r : reference) : str :=
  scheme plain ++ b "://" ++ host_of (r_registry r) ++ b "/v2/".
Definition url_catalog (plain : bool) (r : reference) : str :=
  scheme plain ++ b "://" ++ host_of (r_registry r) ++ b "/v2/_catalog".

(* Generic URL syntax (RFC 3986 section 3, what net/url implements):
     scheme ":" "//" authority path-abempty [ "?" query ] [ "#" fragment ]
   the authority ends at the first '/', '?' or '#'; the path at the first '?' or '#'.
   Used to STATE where the parts of a reference end up in a built URL (theorem C20_url_exact) and,
   extracted, compared with net/url's own parse of every URL of the differential run. *)
Definition c_qm := 63. Definition c_hash := 35.
Fixpoint take_until (stops : list N) (s : str) : str * str :=
  match s with
  | [] => ([], [])
  | c :: t => if contains c stops then ([], s)
              else let (a, r) := take_until stops t in (c :: a, r)
  end.
Record url_parts := mkParts { u_scheme : str; u_authority : str; u_path : str;
                              u_query : option str; u_fragment : option str }.
Definition url_split (u : str) : option url_parts :=
  let (sch, r0) := take_until [c_colon] u in
  match r0 with
  | 58 :: 47 :: 47 :: r1 =>
      let (auth, r2) := take_until [c_slash; c_qm; c_hash] r1 in
      let (path, r3) := take_until [c_qm; c_hash] r2 in
      let (q, r4) := match r3 with
                     | 63 :: r => let (q, r') := take_until [c_hash] r in (Some q, r')
                     | _ => (None, r3)
                     end in
      let f := match r4 with 35 :: r => Some r | _ => None end in
      Some (mkParts sch auth path q f)
  | _ => None
  end.
(* strings.Split(s, c) *)
Fixpoint split_on (c : N) (s : str) : list str :=
  match s with
  | [] => [[]]
  | x :: t => if x =? c then [] :: split_on c t
              else match split_on c t with
                   | h :: r => (x :: h) :: r
                   | [] => [[x]]
                   end
  end.

(* Conservative model of url.ParseRequestURI("dummy://"+reg) with Host == reg,
   used only by the correspondence check: Some true / Some false when the
   verdict does not depend on net/url subtleties, None = not judged. *)
Definition reg_safe (c : N) : bool :=
  ((48 <=? c) && (c <=? 57)) || ((65 <=? c) && (c <=? 90)) || ((97 <=? c) && (c <=? 122))
  || (c =? 45) || (c =? 46) || (c =? 95).
Definition is_digit (c : N) : bool := (48 <=? c) && (c <=? 57).
(* bytes no URL authority can contain: '?' ends the authority (url.ParseRequestURI puts the rest
   into the query, so Host differs from the registry), space / control characters / DEL make
   net/url fail outright *)
Definition reg_never (c : N) : bool := (c =? 63) || (c <=? 32) || (c =? 127).
Definition registry_verdict (reg : str) : option bool :=
  match reg with
  | [] => Some false
  | _ =>
      if contains c_at reg || existsb reg_never reg then Some false
      else match split_first c_colon reg with
           | None => if forallb reg_safe reg then Some true else None
           | Some (h, p) =>
               if forallb reg_safe h && negb (contains c_colon p) then
                 match h with
                 | [] => None
                 | _ => if forallb is_digit p then Some true
                        else if forallb reg_safe p then Some false else None
                 end
               else None
           end
  end.

(* three-valued parse for the correspondence check: the registry check is the model of net/url
   (Model/NetURL.v); unjudged only where the answer depends on netip.ParseAddr *)
Inductive verdict := VOk (r : reference) | VErr | VUnjudged.
Definition go_vr : str -> bool := go_registry.
Definition parse_verdict (avail : str -> bool) (s : str) : verdict :=
  match split_first c_slash s with
  | None => VErr
  | Some (reg, _) =>
      match go_registry_verdict reg with
      | None => VUnjudged
      | Some _ => match parse avail go_vr s with Some r => VOk r | None => VErr end
      end
  end.

Definition repo_parse_verdict (avail : str -> bool) (breg brepo s : str) : verdict :=
  match split_first c_slash s with
  | None => match repo_parse avail go_vr breg brepo s with Some r => VOk r | None => VErr end
  | Some (reg, _) =>
      match go_registry_verdict reg with
      | None => VUnjudged
      | Some _ => match repo_parse avail go_vr breg brepo s with Some r => VOk r | None => VErr end
      end
  end.
