(* C10 -- concurrent callers of one Store (content/oci/oci.go: Push, Tag, Untag and SaveIndex
   hold the RWMutex for READING and run concurrently; Delete and GC hold it for writing and
   run alone: those are the sequential model, Model/OciCrash.v).

   Executable model only.  A crash is the configuration reached after ANY prefix of ANY
   schedule of the threads' atomic actions.  Abstraction relative to Model/OciCrash.v:
   temporaries are thread-private (each has its own random name, and C10_no_in_place_write
   shows that only temporaries are ever written), so a thread's ingest file and index
   temporary are fields of the thread; the shared directory is oci-layout, index.json and
   blobs/.  saveIndex is the critical section of indexLock: the resolver is snapshotted when
   the lock is taken (refMap := s.tagResolver.Map()), written to the thread's temporary and
   renamed over index.json before the lock is released; resolver updates (tagResolver.Tag /
   Untag) are atomic and NOT under indexLock. *)
From Oras Require Import Base.Prelude Generated.GC10 Model.OciCrash.

Section Conc.
Variable H : list N -> N.
Variable shuffle : nat -> list entry -> list entry.

Inductive act :=
| TWrite (a : atom)              (* append one unit to the thread's ingest file *)
| TPublishBlob (d : N)           (* rename the (verified) ingest file to blobs/<d> *)
| TDropTemp                      (* verification failed: close and remove the ingest file *)
| TTagMem (d : N) (r : option N) (* resolver: digest reference of d, and the name r if given *)
| TUntagMem (r : N)
| TLockSnap                      (* take indexLock, snapshot the resolver *)
| TPublishIndex                  (* write the snapshot to the temporary, rename it over index.json *)
| TUnlock.

Record thread := mkThread {
  tprog : list act;              (* what is left to do *)
  ttmp : list atom;              (* content of the thread's ingest file *)
  tsnap : option (list entry);   (* the snapshot taken under indexLock *)
  tholds : bool                  (* holds indexLock *)
}.

Record conf := mkConf {
  cfs : FS;                      (* shared directory (only non-temporary paths matter) *)
  ctags : list (N * N);
  cdigs : list N;
  clock : bool;                  (* indexLock is held *)
  ccnt : nat;                    (* saveIndex calls so far: index of the map iteration order *)
  cthreads : list thread
}.

Definition set_file (fs : FS) (p : fpath) (f : file) : FS := mkFS (upd (files fs) p (Some f)) (dirs fs).

(* the head action of thread t in configuration c; None = not enabled (lock busy / nothing left) *)
Definition fire (c : conf) (t : thread) : option (conf * thread) :=
  match tprog t with
  | [] => None
  | a :: rest =>
    let t' := mkThread rest (ttmp t) (tsnap t) (tholds t) in
    match a with
    | TWrite x => Some (c, mkThread rest (ttmp t ++ [x]) (tsnap t) (tholds t))
    | TPublishBlob d =>
        Some (mkConf (set_file (cfs c) (FBlob d) (mkFile (ttmp t) true)) (ctags c) (cdigs c) (clock c) (ccnt c) (cthreads c),
              mkThread rest [] (tsnap t) (tholds t))
    | TDropTemp => Some (c, mkThread rest [] (tsnap t) (tholds t))
    | TTagMem d r =>
        let tags' := match r with Some r => tag_set r d (ctags c) | None => ctags c end in
        Some (mkConf (cfs c) tags' (dig_add d (cdigs c)) (clock c) (ccnt c) (cthreads c), t')
    | TUntagMem r =>
        Some (mkConf (cfs c) (tag_del r (ctags c)) (cdigs c) (clock c) (ccnt c) (cthreads c), t')
    | TLockSnap =>
        if clock c then None
        else Some (mkConf (cfs c) (ctags c) (cdigs c) true (S (ccnt c)) (cthreads c),
                   mkThread rest (ttmp t) (Some (shuffle (ccnt c) (save (ctags c) (cdigs c)))) true)
    | TPublishIndex =>
        match tsnap t with
        | Some l => Some (mkConf (set_file (cfs c) FIndex (mkFile [AIndex l] false)) (ctags c) (cdigs c) (clock c) (ccnt c) (cthreads c), t')
        | None => Some (c, t')
        end
    | TUnlock =>
        Some (mkConf (cfs c) (ctags c) (cdigs c) (if tholds t then false else clock c) (ccnt c) (cthreads c),
              mkThread rest (ttmp t) None false)
    end
  end.

Fixpoint set_nth {A} (i : nat) (x : A) (l : list A) : list A :=
  match l, i with
  | [], _ => []
  | _ :: r, O => x :: r
  | y :: r, S j => y :: set_nth j x r
  end.

(* one step of the scheduler: thread i fires (a disabled or finished thread is skipped) *)
Definition sched_step (c : conf) (i : nat) : conf :=
  match nth_error (cthreads c) i with
  | Some t =>
      match fire c t with
      | Some (c', t') => mkConf (cfs c') (ctags c') (cdigs c') (clock c') (ccnt c') (set_nth i t' (cthreads c'))
      | None => c
      end
  | None => c
  end.

Definition sched (c : conf) (is : list nat) : conf := fold_left sched_step is c.

(* ---------- the programs of the four concurrent calls ---------- *)
Definition save_prog : list act := [TLockSnap; TPublishIndex; TUnlock].

(* Push (the target did not exist when the call checked): ingest, verify, publish, and for a
   manifest tag by digest and save *)
Definition push_prog (d : N) (c : list N) (man : bool) : list act :=
  map (fun x => TWrite (AChunk x)) c ++
  (if H c =? d then TPublishBlob d :: (if man then TTagMem d None :: save_prog else [])
   else [TDropTemp]).
(* Store.tag makes two resolver updates, by digest and then by name: a snapshot taken in between
   has the digest-only entry (observed by the model-compared stream of killed batches) *)
Definition tag_prog (d r : N) : list act := TTagMem d None :: TTagMem d (Some r) :: save_prog.
Definition untag_prog (r : N) : list act := TUntagMem r :: save_prog.

Inductive ccall := CPush (d : N) (c : list N) (man : bool) | CTag (d r : N) | CUntag (r : N) | CSaveIndex.

(* the program a call runs, decided when it starts (stat of the target / Exists / Resolve) *)
Definition call_prog (fs : FS) (tags : list (N * N)) (x : ccall) : list act :=
  match x with
  | CPush d c man => if exists_file fs (FBlob d) then [] else push_prog d c man
  | CTag d r => if exists_file fs (FBlob d) then tag_prog d r else []
  | CUntag r => match tag_get r tags with Some _ => untag_prog r | None => [] end
  | CSaveIndex => save_prog
  end.

(* the sequential model's operation of a call *)
Definition op_of_call (x : ccall) : op :=
  match x with
  | CPush d c man => Push d c man
  | CTag d r => Tag d r
  | CUntag r => Untag r
  | CSaveIndex => SaveIndex
  end.

Definition start (s : st) (calls : list ccall) : conf :=
  mkConf (sfs s) (stags s) (sdigs s) false (sctr s)
         (map (fun x => mkThread (call_prog (sfs s) (stags s) x) [] None false) calls).

(* ---------- goroutines that make several calls one after the other ---------- *)
(* what the callers of a Store really are: each goroutine i has a queue of calls; when its
   current call has returned (nothing left of its program) a step of i starts the next call,
   whose program is decided THEN (stat of the target / Exists / Resolve on the current state) *)
Record gconf := mkG { gc : conf; gq : list (list ccall) }.

Definition idle (t : thread) : bool := match tprog t with [] => true | _ => false end.

Definition gstep (g : gconf) (i : nat) : gconf :=
  match nth_error (cthreads (gc g)) i, nth_error (gq g) i with
  | Some t, Some q =>
      if idle t then
        match q with
        | x :: r =>
            let c := gc g in
            mkG (mkConf (cfs c) (ctags c) (cdigs c) (clock c) (ccnt c)
                        (set_nth i (mkThread (call_prog (cfs c) (ctags c) x) [] None false) (cthreads c)))
                (set_nth i r (gq g))
        | [] => g
        end
      else mkG (sched_step (gc g) i) (gq g)
  | _, _ => g
  end.

Definition gsched (g : gconf) (is : list nat) : gconf := fold_left gstep is g.

Definition gstart (s : st) (qs : list (list ccall)) : gconf :=
  mkG (mkConf (sfs s) (stags s) (sdigs s) false (sctr s) (map (fun _ => mkThread [] [] None false) qs)) qs.

(* every goroutine has made all its calls and the last one has returned *)
Definition gquietb (g : gconf) : bool :=
  forallb idle (cthreads (gc g)) && forallb (fun q => match q with [] => true | _ => false end) (gq g).

(* the same scheduler with indexLock ignored (the code without s.indexLock): only used to show
   what the lock is for (C10_conc_refuted_without_indexlock) *)
Definition sched_step_nolock (c : conf) (i : nat) : conf :=
  match nth_error (cthreads c) i with
  | Some t =>
      match fire (mkConf (cfs c) (ctags c) (cdigs c) false (ccnt c) (cthreads c)) t with
      | Some (c', t') => mkConf (cfs c') (ctags c') (cdigs c') (clock c') (ccnt c') (set_nth i t' (cthreads c'))
      | None => c
      end
  | None => c
  end.
Definition sched_nolock (c : conf) (is : list nat) : conf := fold_left sched_step_nolock is c.

(* ---------- sequential histories and batches of concurrent calls alternate ---------- *)
(* PSeq: operations one after the other, completed or interrupted (store reopened);
   PConc: a batch of concurrent calls under schedule [is]; PConcCrash: the same, the process
   dies after the schedule's last step and the store is reopened *)
Inductive phase :=
| PSeq (h : list hop)
| PConc (calls : list ccall) (is : list nat)
| PConcCrash (calls : list ccall) (is : list nat).

(* the store when every concurrent call has returned *)
Definition st_of (c : conf) : st := mkSt (cfs c) (ctags c) (cdigs c) (ccnt c).
Definition quietb (c : conf) : bool :=
  forallb (fun t => match tprog t with [] => true | _ => false end) (cthreads c).

Definition run_phase (inplace unlink_first : bool) (s : st) (p : phase) : st :=
  match p with
  | PSeq h => runc H shuffle inplace unlink_first true h s
  | PConc calls is => st_of (sched (start s calls) is)
  | PConcCrash calls is => let c := sched (start s calls) is in reopen (cfs c) (S (ccnt c))
  end.
Definition run_phases (inplace unlink_first : bool) (s : st) (ps : list phase) : st :=
  fold_left (run_phase inplace unlink_first) ps s.

(* every batch of the history that was not killed ran until all its calls had returned *)
Fixpoint phases_quiet (inplace unlink_first : bool) (s : st) (ps : list phase) : bool :=
  match ps with
  | [] => true
  | p :: r =>
      match p with PConc calls is => quietb (sched (start s calls) is) | _ => true end &&
      phases_quiet inplace unlink_first (run_phase inplace unlink_first s p) r
  end.

End Conc.
