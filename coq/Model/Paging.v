(* C15 -- executable models of the listing code (no proofs in this file).

   Client side (registry/remote): the page loops of Repository.Tags,
   Registry.Repositories and Repository.referrersByAPI, parseLink's "<...>"
   extraction, limitReader + json.Decoder at the level of document lengths,
   isReferrersFilterApplied / filterReferrers.
   Registry side: a registry holding an item list and answering one page per
   request under an arbitrary split oracle.
   content/oci: listTags.

   Abstract (parameters of the loop, hypotheses of the theorems): net/url
   reference resolution ([resolve]), encoding/json ([rs_json_ok], document
   length), query value escaping (queries are association lists). *)
From Oras Require Import Base.Prelude Generated.GC15.

(* ---------- byte strings: Go's string order ---------- *)

Fixpoint str_ltb (x y : str) : bool :=
  match x, y with
  | _, [] => false
  | [], _ :: _ => true
  | c :: x', d :: y' => if c <? d then true else if d <? c then false else str_ltb x' y'
  end.

Definition str_leb (x y : str) : bool := negb (str_ltb y x).

Definition is_empty (s : str) : bool := match s with [] => true | _ => false end.

(* ---------- queries: url.Values restricted to what the loops touch ---------- *)

Inductive qval := VS (s : str) | VN (n : N).
Definition query := list (str * qval).
Record url := mkUrl { u_path : str; u_query : query }.

Fixpoint qget (k : str) (q : query) : option qval :=
  match q with
  | [] => None
  | (k', v) :: q' => if str_eqb k' k then Some v else qget k q'
  end.

Fixpoint qdel (k : str) (q : query) : query :=
  match q with
  | [] => []
  | (k', v) :: q' => if str_eqb k' k then qdel k q' else (k', v) :: qdel k q'
  end.

(* setQueryParams for one key: every pair of that key is dropped, the new pair is appended;
   the other pairs stay in place *)
Definition qset (k : str) (v : qval) (q : query) : query := qdel k q ++ [(k, v)].

Definition qget_s (k : str) (q : query) : str :=
  match qget k q with Some (VS s) => s | _ => [] end.
Definition qget_n (k : str) (q : query) : option N :=
  match qget k q with Some (VN n) => Some n | _ => None end.

Definition k_n : str := b "n".
Definition k_last : str := b "last".
Definition k_at : str := b "artifactType".

(* ---------- parseLink: the "<...>" extraction ---------- *)

Definition c_lt : N := 60.
Definition c_gt : N := 62.
Definition c_comma : N := 44.

Inductive plink := LNone | LErrLt | LErrGt | LTarget (t : str).

Definition parse_link (h : str) : plink :=
  match h with
  | [] => LNone
  | c :: rest =>
    if c =? c_lt then
      match index_of c_gt h with
      | None => LErrGt
      | Some i => LTarget (firstn (i - 1) rest)
      end
    else LErrLt
  end.

(* ---------- limitReader / limitSize ---------- *)

Definition eff_limit (n : Z) : Z := if (n <=? 0)%Z then defaultMaxMetadataBytes else n.

(* io.LimitReader: the prefix of the body that a reader behind the limit can ever obtain *)
Definition seen (limit : Z) (body : str) : str := firstn (Z.to_nat (eff_limit limit)) body.

(* calculateDigestFromResponse (a manifest GET without Docker-Content-Digest): a body whose
   Content-Length exceeds the limit is refused before anything is read, otherwise the body is read
   through limitReader.  Result: what was read, and whether the response is rejected. *)
Definition digest_probe (limit : Z) (content_length : Z) (body : str) : str * bool :=
  if (eff_limit limit <? content_length)%Z then ([], true)
  else (firstn (Z.to_nat (eff_limit limit)) body, false).

(* the first version of that fix (4dc7269, amended by 4290d32): io.LimitReader(limit+1) *)
Definition digest_probe_v1 (limit : Z) (body : str) : str * bool :=
  let got := firstn (Z.to_nat (eff_limit limit + 1)) body in
  (got, (eff_limit limit <? Z.of_nat (length got))%Z).

(* limitSize: true = rejected *)
Definition limit_size_rejects (limit : Z) (size : Z) : bool := (eff_limit limit <? size)%Z.

(* ---------- referrers filters ---------- *)

Fixpoint split_on (c : N) (s : str) : list str :=
  match s with
  | [] => [[]]
  | d :: s' =>
    if d =? c then [] :: split_on c s'
    else match split_on c s' with
         | [] => [[d]]
         | w :: ws => (d :: w) :: ws
         end
  end.

Definition is_filter_applied (applied requested : str) : bool :=
  if is_empty applied || is_empty requested then false
  else existsb (fun f => str_eqb f requested) (split_on c_comma applied).

Definition item := (str * str)%type.       (* name or digest, artifact type *)

Definition filter_referrers (refs : list item) (at_ : str) : list item :=
  if is_empty at_ then refs else filter (fun r => str_eqb (snd r) at_) refs.

(* ---------- responses as the loops see them ---------- *)

Record response := mkResp {
  rs_status : N;            (* HTTP status *)
  rs_name_unknown : bool;   (* a 404 whose error body carries the code NAME_UNKNOWN *)
  rs_ctype : str;           (* Content-Type header value, verbatim (referrers only) *)
  rs_json_ok : bool;        (* the body starts with a JSON document of the expected shape *)
  rs_doc_len : N;           (* length of that document *)
  rs_total_len : N;         (* length of the whole body *)
  rs_items : list item;     (* what the whole document decodes to *)
  rs_links : list str;      (* the Link header lines in order, [] = absent *)
  rs_fhdr : str;            (* OCI-Filters-Applied header *)
  rs_fann : str             (* filtersApplied annotation of the index *)
}.

(* http.Header.Get: the first line only *)
Definition rs_link (rs : response) : str := hd [] (rs_links rs).

(* ocispec.MediaTypeImageIndex (pinned dependency image-spec v1.1.1) *)
Definition mediaTypeImageIndex : str := b "application/vnd.oci.image.index.v1+json".

Inductive kind := KTags | KCatalog | KReferrers.

Record cfg := mkCfg {
  c_kind : kind;
  c_n : Z;                  (* TagListPageSize / RepositoryListPageSize / ReferrerListPageSize *)
  c_limit : Z;              (* MaxMetadataBytes *)
  c_at : str                (* artifactType argument of Referrers *)
}.

Inductive outcome :=
  Done | ErrStatus | ErrUnsupported | ErrCType | ErrDecode | ErrCallback | ErrLink | ErrResolve | ErrSize | OutOfFuel.

Record trace := mkTrace { t_reqs : list url; t_pages : list (list item); t_out : outcome }.

Definition sends_last (k : kind) : bool := match k with KReferrers => false | _ => true end.

(* the request actually sent for [u] *)
Definition mk_request (c : cfg) (u : url) (last : str) : url :=
  let q := u_query u in
  let q := if (0 <? c_n c)%Z then qset k_n (VN (Z.to_N (c_n c))) q else q in
  let q := if sends_last (c_kind c) && negb (is_empty last) then qset k_last (VS last) q else q in
  mkUrl (u_path u) q.

(* the code before fix 635f618: when n or last had to be set, the query went through
   url.Values (Query() / Encode()), which drops every pair url.ParseQuery rejects;
   [parses] says which pairs survive *)
Definition mk_request_prefix (parses : str * qval -> bool) (c : cfg) (u : url) (last : str) : url :=
  if (0 <? c_n c)%Z || (sends_last (c_kind c) && negb (is_empty last))
  then mk_request c (mkUrl (u_path u) (filter parses (u_query u))) last
  else u.

Definition body_fits (c : cfg) (rs : response) : bool :=
  rs_json_ok rs && (Z.of_N (rs_doc_len rs) <=? eff_limit (c_limit c))%Z.

(* a non-200 answer: the referrers API reads a 404 without NAME_UNKNOWN as "not supported" *)
Definition status_error (c : cfg) (rs : response) : outcome :=
  match c_kind c with
  | KReferrers => if (rs_status rs =? 404) && negb (rs_name_unknown rs) then ErrUnsupported else ErrStatus
  | _ => ErrStatus
  end.

(* the Content-Type must be the image index type, compared verbatim (no parameters) *)
Definition ctype_bad (c : cfg) (rs : response) : bool :=
  match c_kind c with KReferrers => negb (str_eqb (rs_ctype rs) mediaTypeImageIndex) | _ => false end.

(* status / content type / decode / client-side filter of one response *)
Definition handle (c : cfg) (rs : response) : outcome + list item :=
  if negb (rs_status rs =? 200) then inl (status_error c rs)
  else if ctype_bad c rs then inl ErrCType
  else if negb (body_fits c rs) then inl ErrDecode
  else match c_kind c with
       | KReferrers =>
         if is_empty (c_at c) then inr (rs_items rs)
         else if is_filter_applied (rs_fhdr rs) filterTypeArtifactType
                 || is_filter_applied (rs_fann rs) filterTypeArtifactType
              then inr (rs_items rs)
              else inr (filter_referrers (rs_items rs) (c_at c))
       | _ => inr (rs_items rs)
       end.

(* referrers: empty pages are not delivered *)
Definition delivered (c : cfg) (page : list item) : bool :=
  match c_kind c, page with
  | KReferrers, [] => false
  | _, _ => true
  end.

Section Client.
  Variable serve : nat -> url -> response.     (* the i-th request and its answer *)
  Variable resolve : url -> str -> option url. (* net/url: request URL, link text -> next URL *)
  Variable cb_fail : nat -> bool.              (* does the k-th callback invocation fail *)
  Variable c : cfg.

  Definition prepend (rq : url) (pg : list (list item)) (t : trace) : trace :=
    mkTrace (rq :: t_reqs t) (pg ++ t_pages t) (t_out t).

  (* i = requests sent so far, k = callback invocations so far *)
  Fixpoint loop (fuel : nat) (i k : nat) (u : url) (last : str) : trace :=
    match fuel with
    | O => mkTrace [] [] OutOfFuel
    | S fuel' =>
      let rq := mk_request c u last in
      let rs := serve i rq in
      match handle c rs with
      | inl e => mkTrace [rq] [] e
      | inr page =>
        let dl := delivered c page in
        if dl && cb_fail k then mkTrace [rq] [page] ErrCallback
        else
          let pg := if dl then [page] else [] in
          let k' := if dl then S k else k in
          match parse_link (rs_link rs) with
          | LNone => mkTrace [rq] pg Done
          | LErrLt | LErrGt => mkTrace [rq] pg ErrLink
          | LTarget t =>
            match resolve rq t with
            | None => mkTrace [rq] pg ErrResolve
            | Some u' => prepend rq pg (loop fuel' (S i) k' u' [])
            end
          end
      end
    end.
End Client.

(* ---------- the registry ---------- *)

Fixpoint after_pos (x : str) (L : list item) : option (list item) :=
  match L with
  | [] => None
  | it :: L' => if str_eqb (fst it) x then Some L' else after_pos x L'
  end.

Fixpoint drop_until (x : str) (L : list item) : list item :=
  match L with
  | [] => []
  | it :: L' => if str_ltb x (fst it) then L else drop_until x L'
  end.

(* the items after [x] in the registry's order; an unknown [x] is placed before the
   first greater item (in a sorted list: before all greater items).  Always a suffix. *)
Definition after (x : str) (L : list item) : list item :=
  match x with
  | [] => L
  | _ => match after_pos x L with
         | Some r => r
         | None => drop_until x L
         end
  end.

Record decision := mkDec {
  d_m : nat;                (* page length the split oracle wants *)
  d_extra : query;          (* further parameters put into the next link *)
  d_filter : bool;          (* server filters by artifactType without saying so *)
  d_fhdr : str;             (* OCI-Filters-Applied value *)
  d_fann : str;             (* filtersApplied annotation value *)
  d_doc_len : N;            (* size of the JSON document *)
  d_pad : N                 (* bytes after the document *)
}.

Definition last_name (page : list item) : str :=
  match rev page with [] => [] | it :: _ => fst it end.

Definition page_len (cap : nat) (rq : url) (d : decision) : nat :=
  let lim := match qget_n k_n (u_query rq) with
             | Some n => if n =? 0 then cap else Nat.min cap (N.to_nat n)
             | None => cap
             end in
  Nat.max 1 (Nat.min (d_m d) lim).

Definition reg_filters (rk : kind) (rq : url) (d : decision) : bool :=
  negb (sends_last rk) && negb (is_empty (qget_s k_at (u_query rq))) &&
  (d_filter d || is_filter_applied (d_fhdr d) filterTypeArtifactType
              || is_filter_applied (d_fann d) filterTypeArtifactType).

(* The continuation a registry writes into its next links.  CLast: the documented `last`
   parameter (the key clients use for the start value).  CToken key salt: an opaque cursor
   under another key, value salt ++ <name of the last item>; such a link carries no `last`. *)
Inductive cursor := CLast | CToken (key salt : str).

Definition ckey (cu : cursor) : str := match cu with CLast => k_last | CToken k _ => k end.
Definition cenc (cu : cursor) (x : str) : str := match cu with CLast => x | CToken _ s => s ++ x end.
Definition strip (p s : str) : str :=
  if str_eqb (firstn (length p) s) p then skipn (length p) s else s.

(* where a request continues: the registry's own cursor if present, else the client's `last` *)
Definition cursor_read (cu : cursor) (q : query) : str :=
  match cu with
  | CLast => qget_s k_last q
  | CToken k s => match qget k q with Some (VS v) => strip s v | _ => qget_s k_last q end
  end.

(* the URL a next link stands for: path p, the cursor after item x, the registry's extra
   parameters, then the other parameters of the request *)
Definition link_url (cu : cursor) (p : str) (d : decision) (rq : url) (x : str) : url :=
  mkUrl p ((ckey cu, VS (cenc cu x)) :: d_extra d ++ qdel (ckey cu) (qdel k_last (u_query rq))).

(* page, more?, query of the next link *)
Definition reg_page (rk : kind) (cu : cursor) (vis : item -> bool) (L : list item) (cap : nat) (rq : url) (d : decision)
  : list item * bool * query :=
  let rest := after (cursor_read cu (u_query rq)) L in
  let m := page_len cap rq d in
  let page := firstn m rest in
  let more := (m <? length rest)%nat in
  let shown := filter vis page in   (* entries the registry does not show (e.g. no permission) are passed over *)
  let items := if reg_filters rk rq d then filter_referrers shown (qget_s k_at (u_query rq)) else shown in
  (items, more, u_query (link_url cu [] d rq (last_name page))).

Section Registry.
  Variable rk : kind.       (* which endpoint: only the referrers endpoint filters *)
  Variable cu : cursor.
  Variable npath : nat -> str -> str.   (* path of the next link for request i under path p *)
  Variable vis : item -> bool.          (* which entries the registry shows at all *)
  Variable L : list item.
  Variable cap : nat.
  Variable ds : nat -> decision.
  (* how the registry writes the link to [target] in answer to request [i] for [base]:
     the text between '<' and '>' and what follows '>' *)
  Variable render : nat -> url -> url -> str.
  Variable trailer : nat -> str.

  Definition reg_serve (i : nat) (rq : url) : response :=
    let d := ds i in
    let '(items, more, lq) := reg_page rk cu vis L cap rq d in
    mkResp 200 false mediaTypeImageIndex true (d_doc_len d) (d_doc_len d + d_pad d) items
           (if more then [c_lt :: render i rq (mkUrl (npath i (u_path rq)) lq) ++ c_gt :: trailer i] else [])
           (d_fhdr d) (d_fann d).
End Registry.

(* ---------- referrers tag schema (referrersByTagSchema + referrersFromIndex) ---------- *)

(* applyReferrerChanges(referrers, nil) as used on read: entries that are empty descriptors
   and entries whose descriptor (media type, digest, size -- here: the name) occurred before
   are skipped *)
Fixpoint clean_index_aux (seen : list str) (items : list item) : list item :=
  match items with
  | [] => []
  | it :: r =>
    if is_empty (fst it) || existsb (str_eqb (fst it)) seen then clean_index_aux seen r
    else it :: clean_index_aux (fst it :: seen) r
  end.
Definition clean_index (items : list item) : list item := clean_index_aux [] items.

(* found: the referrers tag exists; size: the size of the index (Content-Length);
   items: the manifests of the whole index as listed (possibly with repeated or empty entries) *)
Definition tag_schema (limit : Z) (found : bool) (size : Z) (items : list item) (at_ : str)
           (cb_fail : nat -> bool) : list (list item) * outcome :=
  if negb found then ([], Done)
  else if limit_size_rejects limit size then ([], ErrSize)
  else match filter_referrers (clean_index items) at_ with
       | [] => ([], Done)
       | f => if cb_fail 0%nat then ([f], ErrCallback) else ([f], Done)
       end.

(* ---------- Repository.Referrers: capability detection around the two paths ---------- *)

Inductive rstate := RUnknown | RSupported | RUnsupported.

(* errors.Is(err, errdef.ErrUnsupported); cb_unsupp: the callback's own error is of that class *)
Definition unsupported_class (cb_unsupp : bool) (o : outcome) : bool :=
  match o with
  | ErrUnsupported | ErrCType => true
  | ErrCallback => cb_unsupp
  | _ => false
  end.

Record wresult := mkW {
  w_reqs : list url;             (* referrers API requests *)
  w_pages : list (list item);    (* all callback arguments *)
  w_out : outcome;
  w_fell_back : bool;            (* referrersByTagSchema was run *)
  w_state : rstate               (* capability afterwards *)
}.

Definition no_pages (t : trace) : bool := match t_pages t with [] => true | _ => false end.

(* api: the run of referrersByAPI; ts k: the run of referrersByTagSchema after k callback
   invocations.  The tag schema is tried only when the API is known to be missing, or when
   it answered "unsupported" before any page was handed to the callback. *)
Definition referrers_wrap (st : rstate) (cb_unsupp : bool) (api : trace)
           (ts : nat -> list (list item) * outcome) : wresult :=
  match st with
  | RUnsupported => mkW [] (fst (ts 0%nat)) (snd (ts 0%nat)) true st
  | RSupported => mkW (t_reqs api) (t_pages api) (t_out api) false st
  | RUnknown =>
    match t_out api with
    | Done => mkW (t_reqs api) (t_pages api) Done false RSupported
    | o => if unsupported_class cb_unsupp o && no_pages api
           then mkW (t_reqs api) (fst (ts 0%nat)) (snd (ts 0%nat)) true RUnsupported
           else mkW (t_reqs api) (t_pages api) o false RUnknown
    end
  end.

(* the code before the fix: any error of the unsupported class, the callback's included and
   after delivered pages, switched to the tag schema *)
Definition referrers_wrap_prefix (st : rstate) (cb_unsupp : bool) (api : trace)
           (ts : nat -> list (list item) * outcome) : wresult :=
  match st with
  | RUnsupported => mkW [] (fst (ts 0%nat)) (snd (ts 0%nat)) true st
  | RSupported => mkW (t_reqs api) (t_pages api) (t_out api) false st
  | RUnknown =>
    match t_out api with
    | Done => mkW (t_reqs api) (t_pages api) Done false RSupported
    | o => if unsupported_class cb_unsupp o
           then let r := ts (length (t_pages api)) in
                mkW (t_reqs api) (t_pages api ++ fst r) (snd r) true RUnsupported
           else mkW (t_reqs api) (t_pages api) o false RUnknown
    end
  end.

(* pingReferrers (used before pushing / deleting a manifest with a subject): the capability
   is decided by one GET of the referrers endpoint; Some b = answer, None = error *)
Definition ping (st : rstate) (rs : response) : rstate * option bool :=
  match st with
  | RSupported => (st, Some true)
  | RUnsupported => (st, Some false)
  | RUnknown =>
    if rs_status rs =? 200 then
      if str_eqb (rs_ctype rs) mediaTypeImageIndex then (RSupported, Some true) else (RUnsupported, Some false)
    else if rs_status rs =? 404 then
      if rs_name_unknown rs then (RUnknown, None) else (RUnsupported, Some false)
    else (RUnknown, None)
  end.

(* ---------- content/oci listTags ---------- *)

Fixpoint sinsert (x : str) (l : list str) : list str :=
  match l with
  | [] => [x]
  | y :: l' => if str_ltb y x then y :: sinsert x l' else x :: l
  end.

Definition ssort (l : list str) : list str := fold_right sinsert [] l.

(* entries = the tag resolver's map in iteration order: reference -> digest of its descriptor *)
Definition tag_listed (last : str) (e : str * str) : bool :=
  negb (str_eqb (fst e) (snd e)) && (is_empty last || str_ltb last (fst e)).

Definition list_tags (entries : list (str * str)) (last : str) : list str :=
  ssort (map fst (filter (tag_listed last) entries)).

(* ---------- registry.Tags / registry.Repositories / registry.Referrers / Predecessors ---------- *)

(* the helpers that collect a whole listing (start value ""): all pages appended, or the error *)
Definition collect_all (t : trace) : outcome * list item :=
  match t_out t with
  | Done => (Done, concat (t_pages t))
  | e => (e, [])
  end.
