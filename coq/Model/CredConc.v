(* C18 -- concurrent callers of one FileStore as a labelled transition system.

   Every caller runs its program (a list of operations).  An operation is NOT
   atomic here: a Get takes the read lock, reads the cache, releases; a
   Put/Delete takes the write lock, updates the cache, then writes the file
   (two separate steps: in between, memory and file disagree), releases.  A Put
   that FileStore.Put does not accept (put_accepts) is refused before any lock is taken.
   sync.RWMutex is modelled by its specification: the read lock is granted when
   no writer holds the lock, the write lock when nobody holds it.
   Steps carry the linearisation label (thread, operation, result) at the moment
   the operation takes effect.  No proofs in this file. *)
From Oras Require Import Base.Prelude Generated.GC18 Model.CredFile.

Inductive pc :=
| Idle
| RLocked (a : str)
| RDone (a : str) (r : result)
| WLocked (o : op)
| WCached (o : op) (sv : bool)     (* cache updated; sv: the file still has to be written *)
| WDone (o : op).

Record thread := { t_pc : pc; t_todo : list op; t_done : list (op * result) (* newest first *) }.

Definition tmap := nat -> thread.
Definition upd (ts : tmap) (i : nat) (t : thread) : tmap :=
  fun j => if Nat.eqb j i then t else ts j.

Record gstate := { g_store : state; g_writer : option nat; g_threads : tmap }.

Definition in_read_cs (p : pc) : Prop :=
  match p with RLocked _ | RDone _ _ => True | _ => False end.
Definition in_write_cs (p : pc) : Prop :=
  match p with WLocked _ | WCached _ _ | WDone _ => True | _ => False end.

(* operations that take the write lock *)
Definition writer_op (o : op) : Prop :=
  match o with
  | Put a c => put_accepts a c = true
  | Delete _ => True
  | SetCs _ => True
  | Get _ => False
  end.

Definition label := (nat * op * result)%type.

Section Conc.
  Variable b64enc : str -> str.
  Variable b64dec : str -> option str.

  (* PutCredential / DeleteCredential up to (not including) saveFile *)
  Definition cache_update (m : mem) (o : op) : mem :=
    match o with
    | Get _ => m
    | Put a c => {| m_content := m_content m; m_cache := set a (entry_of_cred b64enc c) (m_cache m); m_cs := m_cs m |}
    | Delete a => match lookup a (m_cache m) with
                  | Some _ => {| m_content := m_content m; m_cache := del a (m_cache m); m_cs := m_cs m |}
                  | None => m
                  end
    | SetCs s => {| m_content := m_content m; m_cache := m_cache m; m_cs := s |}
    end.

  Definition needs_save (m : mem) (o : op) : bool :=
    match o with
    | Get _ => false
    | Put _ _ => true
    | Delete a => match lookup a (m_cache m) with Some _ => true | None => false end
    | SetCs _ => true
    end.

  Definition with_thread (g : gstate) (i : nat) (t : thread) : gstate :=
    {| g_store := g_store g; g_writer := g_writer g; g_threads := upd (g_threads g) i t |}.

  Inductive cstep : gstate -> option label -> gstate -> Prop :=
  | c_acq_r g i a rest :
      t_pc (g_threads g i) = Idle -> t_todo (g_threads g i) = Get a :: rest ->
      g_writer g = None ->
      cstep g None
            (with_thread g i {| t_pc := RLocked a; t_todo := rest; t_done := t_done (g_threads g i) |})
  | c_read g i a :
      t_pc (g_threads g i) = RLocked a ->
      let r := get_cache b64dec (m_cache (st_mem (g_store g))) a in
      cstep g (Some (i, Get a, r))
            (with_thread g i {| t_pc := RDone a r; t_todo := t_todo (g_threads g i); t_done := t_done (g_threads g i) |})
  | c_rel_r g i a r :
      t_pc (g_threads g i) = RDone a r ->
      cstep g None
            (with_thread g i {| t_pc := Idle; t_todo := t_todo (g_threads g i);
                                t_done := (Get a, r) :: t_done (g_threads g i) |})
  | c_refuse g i a c rest :
      t_pc (g_threads g i) = Idle -> t_todo (g_threads g i) = Put a c :: rest ->
      put_accepts a c = false ->
      cstep g (Some (i, Put a c, RErrBadCred))
            (with_thread g i {| t_pc := Idle; t_todo := rest;
                                t_done := (Put a c, RErrBadCred) :: t_done (g_threads g i) |})
  | c_acq_w g i o rest :
      t_pc (g_threads g i) = Idle -> t_todo (g_threads g i) = o :: rest ->
      writer_op o ->
      g_writer g = None -> (forall j, ~ in_read_cs (t_pc (g_threads g j))) ->
      cstep g None
            {| g_store := g_store g; g_writer := Some i;
               g_threads := upd (g_threads g) i {| t_pc := WLocked o; t_todo := rest; t_done := t_done (g_threads g i) |} |}
  | c_wcache g i o :
      t_pc (g_threads g i) = WLocked o ->
      let m := st_mem (g_store g) in
      cstep g (Some (i, o, ROk))
            {| g_store := {| st_mem := cache_update m o; st_file := st_file (g_store g) |};
               g_writer := g_writer g;
               g_threads := upd (g_threads g) i {| t_pc := WCached o (needs_save m o); t_todo := t_todo (g_threads g i);
                                                   t_done := t_done (g_threads g i) |} |}
  | c_wfile g i o sv :
      t_pc (g_threads g i) = WCached o sv ->
      cstep g None
            {| g_store := if sv then save (st_mem (g_store g)) else g_store g;
               g_writer := g_writer g;
               g_threads := upd (g_threads g) i {| t_pc := WDone o; t_todo := t_todo (g_threads g i);
                                                   t_done := t_done (g_threads g i) |} |}
  | c_rel_w g i o :
      t_pc (g_threads g i) = WDone o ->
      cstep g None
            {| g_store := g_store g; g_writer := None;
               g_threads := upd (g_threads g) i {| t_pc := Idle; t_todo := t_todo (g_threads g i);
                                                   t_done := (o, ROk) :: t_done (g_threads g i) |} |}.

  (* executions, with the linearisation log (oldest first) *)
  Inductive creach (g0 : gstate) : gstate -> list label -> Prop :=
  | cr_refl : creach g0 g0 []
  | cr_step g g' lin l :
      creach g0 g lin -> cstep g l g' ->
      creach g0 g' (lin ++ match l with Some x => [x] | None => [] end).

  (* initial and final states *)
  Definition initial (g : gstate) : Prop :=
    g_writer g = None /\ forall i, t_pc (g_threads g i) = Idle /\ t_done (g_threads g i) = [].
  Definition quiescent (g : gstate) : Prop :=
    forall i, t_pc (g_threads g i) = Idle /\ t_todo (g_threads g i) = [].

  Definition lab_thread (l : label) : nat := fst (fst l).
  Definition lab_op (l : label) : op := snd (fst l).
  Definition lab_res (l : label) : result := snd l.

  (* results of running operations sequentially *)
  Fixpoint seq_results (st : state) (h : list op) : list result :=
    match h with
    | [] => []
    | o :: h' => snd (step b64enc b64dec st o) :: seq_results (fst (step b64enc b64dec st o)) h'
    end.

  (* the part of the log that belongs to thread i *)
  Definition of_thread (i : nat) (lin : list label) : list (op * result) :=
    map (fun l => (lab_op l, lab_res l)) (filter (fun l => Nat.eqb (lab_thread l) i) lin).
End Conc.
