(* CopyBytes -- the bytes.  CopySpec tracks WHICH nodes the destination holds; this layer tracks
   WHAT it holds for them along the same trace.  Every event that stores content (a successful
   Push / PushReference, a Mount that reported "mounted" or uploaded) consumes the next element of
   [served]: the bytes that actually arrived at the destination for that operation -- chosen freely
   (the copy is not trusted to hand over the right reader: source reader, cache reader, another
   repository's blob).  The destination keeps them only if they pass its verification against the
   node's descriptor (digest and size: property C05's theorems about content.NewVerifyReader /
   ReadAll in the stores' Push).  [digest] is an abstract hash, [src_bytes n] the content the source
   holds under node n's descriptor.  No proofs in this file. *)
From Oras Require Import Base.Prelude Model.CopySpec.
Local Open Scope nat_scope.

Section Bytes.
Variable digest : str -> nat.
Variable src_bytes : node -> str.

(* the descriptor of n names the digest and the size of the source's content *)
Definition verify (n : node) (b : str) : bool :=
  Nat.eqb (digest b) (digest (src_bytes n)) && Nat.eqb (length b) (length (src_bytes n)).

Definition bstore := list (node * str).

(* the node whose content an event stores *)
Definition stores (e : event) : option node :=
  match e with
  | PuE n _ POk => Some n
  | MtE n MMounted | MtE n MCopied => Some n
  | _ => None
  end.

Fixpoint brun (tr : list event) (served : list str) (bs : bstore) : option bstore :=
  match tr with
  | [] => Some bs
  | e :: r =>
      match stores e with
      | None => brun r served bs
      | Some n =>
          match served with
          | [] => None
          | b :: sv => if verify n b then brun r sv ((n, b) :: bs) else None   (* rejected: the push fails *)
          end
      end
  end.

(* the nodes stored by a trace, latest first *)
Fixpoint stored_nodes (tr : list event) (acc : list node) : list node :=
  match tr with
  | [] => acc
  | e :: r => stored_nodes r (match stores e with Some n => n :: acc | None => acc end)
  end.
End Bytes.
