(* Model/RemoteSpec.v -- the specifications the remote client is proved against
   (definitions only):
   - [ref_step]: an in-memory reader over the blob's bytes (position + closed flag),
     the reference for internal/httputil/seek.go;
   - [spec_op]: the content store with tags (blob CAS, manifest CAS, tag map, plus
     the read-only sibling repository used by Mount) that a Repository must behave as. *)
From Oras Require Import Base.Prelude Base.Regex Generated.GC20 Generated.GC13 Model.Reference Model.Registry Model.RemoteClient.

(* ---------- Read/Seek reference ---------- *)

Record pos := mkPos { s_off : N; s_closed : bool }.

Definition ref_step (content : str) (k : pos) (o : sop) : pos * list (N * N) * sout :=
  match o with
  | SClose => (mkPos (s_off k) true, [], SClosed)
  | SRead n =>
      if s_closed k then (k, [], SErr)
      else
        let got := firstn (N.to_nat n) (skipn (N.to_nat (s_off k)) content) in
        (mkPos (s_off k + len got) false, [], SBytes got)
  | SSeek off w =>
      if s_closed k then (k, [], SErr)
      else
        let tgt : Z := match w with
                       | SeekStart => off
                       | SeekCurrent => (off + Z.of_N (s_off k))%Z
                       | SeekEnd => (off + Z.of_N (len content))%Z
                       end in
        if (tgt <? 0)%Z then (k, [], SErr)
        else
          let t := Z.to_N tgt in
          (mkPos t false,
           (* a Range request exactly when the position changes and lies inside the blob *)
           if negb (t =? s_off k) && (t <? len content) then [(t, len content - 1)] else [],
           SPos t)
  end.

Fixpoint ref_run (content : str) (k : pos) (os : list sop) : list (list (N * N) * sout) :=
  match os with
  | [] => []
  | o :: rest =>
      let '(k1, rq, out) := ref_step content k o in
      (rq, out) :: ref_run content k1 rest
  end.
