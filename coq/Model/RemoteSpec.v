(* Model/RemoteSpec.v -- the specifications the remote client is proved against
   (definitions only):
   - [ref_step]: an in-memory reader over the blob's bytes (position + closed flag),
     the reference for internal/httputil/seek.go;
   - [spec_op]: the content store with tags (blob CAS, manifest CAS, tag map, plus
     the read-only sibling repository used by Mount) that a Repository must behave as. *)
From Oras Require Import Base.Prelude Base.Regex Generated.GC20 Generated.GC13 Model.Reference Model.Registry Model.RemoteClient.

(* ---------- Read/Seek reference ---------- *)

(* An in-memory reader over the blob's bytes: position, closed flag, and the count of
   reconnects (only to know which body behaviour [modes i] applies to a Read: at most
   bm_chunk bytes per call, EOF with or after the last bytes -- Model/RemoteClient.v
   read_chunk).  Whatever the behaviour, a Read returns a prefix of content[pos..] and
   advances the position by exactly the bytes returned. *)
Record pos := mkPos { s_off : N; s_closed : bool; s_bi : nat }.

Section SeekRef.
  Variable modes : nat -> bmode.

  Definition ref_step (content : str) (k : pos) (o : sop) : pos * list (N * N) * sout :=
    match o with
    | SClose => (mkPos (s_off k) true (s_bi k), [], SClosed)
    | SRead n =>
        if s_closed k then (k, [], SErr)
        else
          let '(got, _, eof) := read_chunk (modes (s_bi k)) n (skipn (N.to_nat (s_off k)) content) in
          (mkPos (s_off k + len got) false (s_bi k), [], SData got eof)
    | SSeek off w =>
        if s_closed k then (k, [], SErr)
        else
          let tgt : Z := match w with
                         | SeekStart => off
                         | SeekCurrent => wrap64 (off + Z.of_N (s_off k))      (* int64, as io.Seeker *)
                         | SeekEnd => wrap64 (off + Z.of_N (len content))
                         end in
          if (tgt <? 0)%Z then (k, [], SErr)
          else
            let t := Z.to_N tgt in
            (* a Range request exactly when the position changes and lies inside the blob *)
            if negb (t =? s_off k) && (t <? len content)
            then (mkPos t false (S (s_bi k)), [(t, len content - 1)], SPos t)
            else (mkPos t false (s_bi k), [], SPos t)
    end.

  Fixpoint ref_run (content : str) (k : pos) (os : list sop) : list (list (N * N) * sout) :=
    match os with
    | [] => []
    | o :: rest =>
        let '(k1, rq, out) := ref_step content k o in
        (rq, out) :: ref_run content k1 rest
    end.
End SeekRef.

(* ---------- hypotheses and conclusions of the any-server theorems ---------- *)

(* what the caller must supply for "every request is allowed": valid digests in
   descriptors, a media type; reference strings are arbitrary *)
Definition desc_ok (d : desc) : Prop := valid_digest (d_dg d) = true /\ d_mt d <> [].
Definition op_ok (o : op) : Prop :=
  match o with
  | OPush d _ | OFetch d | OExists d | ODelete d | OTag d _ | OPushRef d _ _ | OMount d _ | OPreds d => desc_ok d
  | OResolve _ | OFetchRef _ | OBlobResolve _ | OBlobFetchRef _ => True
  end.

(* a 202 answer to a POST carries the location of an upload session (or none) *)
Definition loc_ok (srv : Type) (exch : srv -> request -> srv * response) : Prop :=
  forall s q, q_m q = POST -> r_status (snd (exch s q)) = 202 ->
    match r_loc (snd (exch s q)) with
    | Some (rp, ep) => valid_repository rp = true /\ exists id, ep = ESession id
    | None => True
    end.

(* the Docker-Content-Digest header is absent (or empty) or equals [e] *)
Definition dig_consistent (r : response) (e : str) : Prop :=
  nstr (r_dig r) = [] \/ (nstr (r_dig r) = e /\ valid_digest e = true).
(* the Content-Length is unknown or equals [n] *)
Definition len_consistent (r : response) (n : N) : Prop :=
  r_clen r = None \/ r_clen r = Some n.

(* ---------- the content store with tags ---------- *)

Record store := mkStore {
  t_blobs : list (str * str);            (* blob CAS: digest -> bytes *)
  t_mans : list (str * (str * str));     (* manifest CAS: digest -> (media type, bytes) *)
  t_tags : list (str * str);             (* tag -> digest *)
  t_other : list (str * str) }.          (* blobs of the sibling repository (mount source) *)

Definition store_of (g : reg) : store := mkStore (g_blobs g) (g_mans g) (g_tags g) (g_other g).

(* the referrers tag of a subject: absent, or pointing to an index the client wrote (tag schema) *)
Definition index_state (g : reg) (tag : str) (old : option (str * list desc)) : Prop :=
  match old with
  | None => lookup tag (g_tags g) = None
  | Some (od, l) => lookup tag (g_tags g) = Some od /\ lookup od (g_mans g) = Some (mt_index, gen_index l)
  end.

Section Spec.
  Variable H : str -> str.
  Variable parse_mt : str -> option str.
  Variable subject_of : str -> option (option desc).
  Variable main : str.
  Variable user_mts : list str.
  Variable limit : N.            (* effective MaxMetadataBytes *)
  Variable p : profile.

  Definition with_blobs st x := mkStore x (t_mans st) (t_tags st) (t_other st).
  Definition with_mans st x := mkStore (t_blobs st) x (t_tags st) (t_other st).

  (* a manifest by reference: digest directly, tag through the tag map *)
  Definition man_lookup (st : store) (rf : str) : option (str * (str * str)) :=
    match (if valid_digest rf then Some rf else lookup rf (t_tags st)) with
    | Some d => match lookup d (t_mans st) with Some mc => Some (d, mc) | None => None end
    | None => None
    end.

  Definition matches_desc (d : desc) (c : str) : bool := (len c =? d_sz d) && str_eqb (H c) (d_dg d).

  (* store a manifest under its digest and, for a tag reference, point the tag at it;
     a digest reference must be the manifest's digest *)
  Definition put_manifest (st : store) (dg mt c rf : str) : store * result :=
    if valid_digest rf then
      if str_eqb rf dg then (with_mans st (insert dg (mt, c) (t_mans st)), ROk)
      else (st, RErr EOther)
    else (mkStore (t_blobs st) (insert dg (mt, c) (t_mans st)) (insert rf dg (t_tags st)) (t_other st), ROk).

  (* the stored manifests whose subject is [dg] *)
  Definition preds_of (st : store) (dg : str) : list desc :=
    flat_map (fun e => let '(k, (mt, c)) := e in
                match subj_of subject_of c with
                | Some s => if str_eqb (d_dg s) dg then [mkDesc mt k (len c)] else []
                | None => []
                end) (t_mans st).

  Definition spec_op (st : store) (o : op) : store * result :=
    match o with
    | OPush d c =>
        if matches_desc d c then
          if is_manifest user_mts d then (with_mans st (insert (d_dg d) (d_mt d, c) (t_mans st)), ROk)
          else (with_blobs st (insert (d_dg d) c (t_blobs st)), ROk)
        else (st, RErr EOther)
    | OFetch d =>
        if is_manifest user_mts d then
          match lookup (d_dg d) (t_mans st) with
          | Some (_, c) => (st, RBytes c) | None => (st, RErr ENotFound) end
        else match lookup (d_dg d) (t_blobs st) with
             | Some c => (st, RBytes c) | None => (st, RErr ENotFound) end
    | OExists d =>
        (st, RBool (if is_manifest user_mts d then is_some (lookup (d_dg d) (t_mans st))
                    else is_some (lookup (d_dg d) (t_blobs st))))
    | ODelete d =>
        if is_manifest user_mts d then
          match lookup (d_dg d) (t_mans st) with
          | Some _ => (mkStore (t_blobs st) (remove (d_dg d) (t_mans st))
                               (filter (fun t => negb (str_eqb (snd t) (d_dg d))) (t_tags st)) (t_other st), ROk)
          | None => (st, RErr ENotFound)
          end
        else match lookup (d_dg d) (t_blobs st) with
             | Some _ => (with_blobs st (remove (d_dg d) (t_blobs st)), ROk)
             | None => (st, RErr ENotFound)
             end
    | OResolve s =>
        match resolve_ref main s with
        | None => (st, RErr EInvalidRef)
        | Some rf => match man_lookup st rf with
                     | Some (dg, (mt, c)) => (st, RDesc (mkDesc mt dg (len c)))
                     | None => (st, RErr ENotFound)
                     end
        end
    | OFetchRef s =>
        match resolve_ref main s with
        | None => (st, RErr EInvalidRef)
        | Some rf => match man_lookup st rf with
                     | Some (dg, (mt, c)) => (st, RDescBytes (mkDesc mt dg (len c)) c)
                     | None => (st, RErr ENotFound)
                     end
        end
    | OTag d s =>
        match resolve_ref main s with
        | None => (st, RErr EInvalidRef)
        | Some rf => match lookup (d_dg d) (t_mans st) with
                     | Some (mt, c) => put_manifest st (d_dg d) mt c rf
                     | None => (st, RErr ENotFound)
                     end
        end
    | OPushRef d c s =>
        match resolve_ref main s with
        | None => (st, RErr EInvalidRef)
        | Some rf => if matches_desc d c then put_manifest st (d_dg d) (d_mt d) c rf
                     else (st, RErr EOther)
        end
    | OMount d getc =>
        match getc with
        | Some c => (with_blobs st (insert (d_dg d) c (t_blobs st)), ROk)
        | None => match lookup (d_dg d) (t_other st) with
                  | Some c => (with_blobs st (insert (d_dg d) c (t_blobs st)), ROk)
                  | None => (st, RErr ENotFound)
                  end
        end
    | OPreds d => (st, RDescs (preds_of st (d_dg d)))
    | OBlobResolve s =>
        match resolve_ref main s with
        | None => (st, RErr EInvalidRef)
        | Some rf => if valid_digest rf then
                       match lookup rf (t_blobs st) with
                       | Some c => (st, RDesc (mkDesc ct_octet rf (len c)))
                       | None => (st, RErr ENotFound)
                       end
                     else (st, RErr EOther)
        end
    | OBlobFetchRef s =>
        match resolve_ref main s with
        | None => (st, RErr EInvalidRef)
        | Some rf => if valid_digest rf then
                       match lookup rf (t_blobs st) with
                       | Some c => (st, RDescBytes (mkDesc ct_octet rf (len c)) c)
                       | None => (st, RErr ENotFound)
                       end
                     else (st, RErr EOther)
        end
    end.

  Fixpoint spec_run (st : store) (os : list op) : store * list result :=
    match os with
    | [] => (st, [])
    | o :: rest =>
        let '(st1, r) := spec_op st o in
        let '(st2, rs) := spec_run st1 rest in
        (st2, r :: rs)
    end.

  (* ---------- hypotheses of the refinement theorem ---------- *)
  (* What the caller must supply: valid digests; descriptors that are accurate for
     what the store holds under their digest; decodable manifests with a parsable media
     type, no larger than MaxMetadataBytes, whose subject (if any) is processed by the
     registry (Referrers API; the client-side referrers tag schema is C14); and -- the known limitation of the client,
     finding head-tag-no-digest-header -- a registry that sends Docker-Content-Digest
     whenever a tag is resolved through a HEAD request. *)
  Definition sub_ok (c : str) : Prop :=
    subject_of c = Some None \/
    (p_referrers p = true /\ exists s, subject_of c = Some (Some s) /\ d_dg s <> []).
  (* the client's referrers state: "unsupported" only against a registry without the API *)
  Definition rst_ok (rst : rstate) : Prop := rst <> RSUnsupported \/ p_referrers p = false.
  Definition acc_man (st : store) (d : desc) : Prop :=
    forall mt c, lookup (d_dg d) (t_mans st) = Some (mt, c) -> mt = d_mt d /\ len c = d_sz d.
  Definition acc_blob (l : list (str * str)) (d : desc) : Prop :=
    forall c, lookup (d_dg d) l = Some c -> len c = d_sz d.

  Definition wf_op (st : store) (o : op) : Prop :=
    match o with
    | OPush d c =>
        valid_digest (d_dg d) = true /\
        (is_manifest user_mts d = true -> sub_ok c /\ parse_mt (d_mt d) = Some (d_mt d) /\ len c <= limit)
    | OFetch d =>
        valid_digest (d_dg d) = true /\
        (if is_manifest user_mts d then acc_man st d else acc_blob (t_blobs st) d)
    | ODelete d =>
        valid_digest (d_dg d) = true /\
        (if is_manifest user_mts d then acc_man st d /\ d_sz d <= limit else acc_blob (t_blobs st) d)
    | OExists d => valid_digest (d_dg d) = true
    | OResolve s =>
        forall rf, resolve_ref main s = Some rf -> p_dighdr p = true \/ valid_digest rf = true
    | OFetchRef s =>
        forall rf, resolve_ref main s = Some rf ->
                   p_clen p = true \/ p_dighdr p = true \/ valid_digest rf = true
    | OTag d _ => valid_digest (d_dg d) = true /\ acc_man st d
    | OPushRef d c _ =>
        valid_digest (d_dg d) = true /\ matches_desc d c = true /\
        sub_ok c /\ parse_mt (d_mt d) = Some (d_mt d) /\ len c <= limit
    | OMount d (Some c) =>
        valid_digest (d_dg d) = true /\ matches_desc d c = true /\
        (forall c', lookup (d_dg d) (t_other st) = Some c' -> c' = c)
    | OMount d None => valid_digest (d_dg d) = true /\ acc_blob (t_other st) d
    | OPreds _ => p_referrers p = true
    | OBlobResolve _ | OBlobFetchRef _ => True
    end.

  (* invariant of the registry states a well-formed history reaches: manifests are stored under
     their digest, are decodable, have a parsable media type and fit MaxMetadataBytes; the
     sibling repository's blobs are stored under their digest *)
  Definition sinv (st : store) : Prop :=
    (forall d mt c, lookup d (t_mans st) = Some (mt, c) ->
        d = H c /\ sub_ok c /\ parse_mt mt = Some mt /\ len c <= limit) /\
    (forall d c, lookup d (t_other st) = Some c -> d = H c).
  Definition inv (g : reg) : Prop := sinv (store_of g).
  (* the part of [inv] that does not depend on who indexes subjects: what the tag-schema paths need
     (a registry WITHOUT the Referrers API stores manifests with a subject as plain content) *)
  Definition minv (g : reg) : Prop :=
    forall d mt c, lookup d (g_mans g) = Some (mt, c) -> d = H c /\ parse_mt mt = Some mt /\ len c <= limit.

  (* every operation of the history is well-formed for the store it meets *)
  Fixpoint wf_hist (st : store) (os : list op) : Prop :=
    match os with
    | [] => True
    | o :: rest => wf_op st o /\ wf_hist (fst (spec_op st o)) rest
    end.
End Spec.
