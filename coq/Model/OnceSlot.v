(* C16 -- syncutil.Once.Do as a slot state machine whose per-caller program is the
   list of control paths that the translator extracts from once.go
   (Generated.GC16: once_paths_taken / once_paths_closed).

   The run slot (the value in the buffered channel) is Free, Taken by a caller, or
   Closed (result published).  A caller is Idle, Waiting in the select, In the
   middle of a path (the remaining actions), or Done.  One event = one atomic
   step of one caller; any interleaving of any number of callers, including
   callers whose context is already cancelled or is cancelled while they wait, is
   a list of events.  No proofs in this file. *)
From Oras Require Import Base.Prelude Generated.GC16.

Inductive oact := ACallF | AHandBack | AClose | AStore | ARet | ANext.

Definition decode_act (n : N) : oact :=
  match n with
  | 0 => ACallF | 1 => AHandBack | 2 => AClose | 3 => AStore | 4 => ARet | 6 => ARet (* panics again: leaves Do *) | _ => ANext
  end.

Definition paths_taken : list (list oact) := map (map decode_act) once_paths_taken.
Definition paths_closed : list (list oact) := map (map decode_act) once_paths_closed.
(* what the deferred recover does when the function argument panics *)
Definition paths_panic : list (list oact) := map (map decode_act) once_paths_panic.

Inductive slot := SFree | STaken (g : N) | SClosed.

Inductive pc := PIdle | PWaiting | PIn (rest : list oact) | PDone.

Record sstate := mkS { s_slot : slot; s_pcs : list (N * pc) }.

Fixpoint pc_get (m : list (N * pc)) (g : N) : pc :=
  match m with
  | [] => PIdle
  | (g', p) :: m' => if g =? g' then p else pc_get m' g
  end.

Definition pc_set (m : list (N * pc)) (g : N) (p : pc) : list (N * pc) := (g, p) :: m.

Inductive sevent :=
| SEnter (g : N)                 (* Do is called: the caller reaches the select *)
| STake (g : N) (path : nat)     (* receives true: holds the slot; the code follows path #path *)
| SReadClosed (g : N) (path : nat) (* receives false from the closed channel *)
| SCtxDone (g : N)               (* the ctx.Done() clause wins: return ctx.Err() *)
| SAct (g : N)                   (* the next action of the caller's path *)
| SPanicF (g : N) (path : nat).  (* the function argument panics: instead of returning from the call of f
                                    the caller runs the deferred recover path #path *)

Definition act_eqb (a c : oact) : bool :=
  match a, c with
  | ACallF, ACallF | AHandBack, AHandBack | AClose, AClose | AStore, AStore | ARet, ARet | ANext, ANext => true
  | _, _ => false
  end.

(* one step, for ANY program (the theorems quantify over the path lists) *)
Definition sstep (taken closed panics : list (list oact)) (st : sstate) (e : sevent) : option sstate :=
  match e with
  | SEnter g =>
    match pc_get (s_pcs st) g with
    | PIdle => Some (mkS (s_slot st) (pc_set (s_pcs st) g PWaiting))
    | _ => None
    end
  | STake g i =>
    match pc_get (s_pcs st) g, s_slot st, nth_error taken i with
    | PWaiting, SFree, Some p => Some (mkS (STaken g) (pc_set (s_pcs st) g (PIn p)))
    | _, _, _ => None
    end
  | SReadClosed g i =>
    match pc_get (s_pcs st) g, s_slot st, nth_error closed i with
    | PWaiting, SClosed, Some p => Some (mkS SClosed (pc_set (s_pcs st) g (PIn p)))
    | _, _, _ => None
    end
  | SCtxDone g =>
    match pc_get (s_pcs st) g with
    | PWaiting => Some (mkS (s_slot st) (pc_set (s_pcs st) g PDone))
    | _ => None
    end
  | SAct g =>
    match pc_get (s_pcs st) g with
    | PIn (a :: rest) =>
      match a with
      | ARet => Some (mkS (s_slot st) (pc_set (s_pcs st) g PDone))
      | ANext => Some (mkS (s_slot st) (pc_set (s_pcs st) g PWaiting))
      | AHandBack =>
        match s_slot st with
        | STaken g' => if g =? g' then Some (mkS SFree (pc_set (s_pcs st) g (PIn rest))) else None
        | _ => None   (* a second send would block / panic: not a path of a correct program *)
        end
      | AClose =>
        match s_slot st with
        | STaken g' => if g =? g' then Some (mkS SClosed (pc_set (s_pcs st) g (PIn rest))) else None
        | _ => None
        end
      | _ => Some (mkS (s_slot st) (pc_set (s_pcs st) g (PIn rest)))
      end
    | _ => None
    end
  | SPanicF g i =>
    match pc_get (s_pcs st) g, nth_error panics i with
    | PIn (ACallF :: _), Some p => Some (mkS (s_slot st) (pc_set (s_pcs st) g (PIn p)))
    | _, _ => None
    end
  end.

Fixpoint srun (taken closed panics : list (list oact)) (st : sstate) (tr : list sevent) : option sstate :=
  match tr with
  | [] => Some st
  | e :: tr' => match sstep taken closed panics st e with Some st' => srun taken closed panics st' tr' | None => None end
  end.

Definition sinit : sstate := mkS SFree [].

(* a path releases the slot (hands it back or publishes) before it leaves Do *)
Fixpoint releases (p : list oact) : bool :=
  match p with
  | [] => false
  | AHandBack :: _ | AClose :: _ => true
  | ARet :: _ | ANext :: _ => false
  | _ :: p' => releases p'
  end.

(* a path of a caller that does not hold the slot must not touch it *)
Definition untouched (p : list oact) : bool :=
  forallb (fun a => negb (act_eqb a AHandBack || act_eqb a AClose)) p.

(* the machine of the CURRENT source *)
Definition once_step := sstep paths_taken paths_closed paths_panic.
Definition once_run := srun paths_taken paths_closed paths_panic.
Definition once_slot_accepts (tr : list sevent) : bool :=
  match once_run sinit tr with Some _ => true | None => false end.

(* ---------- runner interface ---------- *)
Definition once_slot_final (tr : list sevent) : option slot :=
  match once_run sinit tr with Some st => Some (s_slot st) | None => None end.

(* index of the first path that contains the action (the harness names a path by
   what it observed: a cancellation hands back, a completion closes) *)
Fixpoint path_with (a : oact) (l : list (list oact)) : option nat :=
  match l with
  | [] => None
  | p :: l' =>
    if existsb (act_eqb a) p then Some 0%nat
    else match path_with a l' with Some i => Some (S i) | None => None end
  end.

(* the events of one caller that ran the function: enter, take the slot on the path,
   then every action of the path *)
Definition caller_events (g : N) (i : nat) : list sevent :=
  SEnter g :: STake g i :: repeat (SAct g) (length (nth i paths_taken [])).
