(* Concrete RFC 4648 standard base64 with padding (Go: base64.StdEncoding,
   non-strict: '\r' and '\n' are skipped by the decoder, trailing bits are not
   checked).  Executable model only; the round trip is proved in Proofs/Base64.v. *)
From Oras Require Import Base.Prelude.

Definition b64_char (v : N) : N :=
  if v <? 26 then v + 65
  else if v <? 52 then v - 26 + 97
  else if v <? 62 then v - 52 + 48
  else if v =? 62 then 43 else 47.

Definition b64_val (c : N) : option N :=
  if (65 <=? c) && (c <=? 90) then Some (c - 65)
  else if (97 <=? c) && (c <=? 122) then Some (c - 97 + 26)
  else if (48 <=? c) && (c <=? 57) then Some (c - 48 + 52)
  else if c =? 43 then Some 62
  else if c =? 47 then Some 63
  else None.

Definition pad : N := 61.

Fixpoint b64_encode (s : str) : str :=
  match s with
  | [] => []
  | [x] => [b64_char (x / 4); b64_char ((x mod 4) * 16); pad; pad]
  | [x; y] => [b64_char (x / 4); b64_char ((x mod 4) * 16 + y / 16); b64_char ((y mod 16) * 4); pad]
  | x :: y :: z :: r =>
      b64_char (x / 4) :: b64_char ((x mod 4) * 16 + y / 16)
      :: b64_char ((y mod 16) * 4 + z / 64) :: b64_char (z mod 64) :: b64_encode r
  end.

(* decoder on the text with CR/LF already removed *)
Fixpoint b64_decode_clean (s : str) : option str :=
  match s with
  | [] => Some []
  | c0 :: c1 :: c2 :: c3 :: r =>
      match b64_val c0, b64_val c1 with
      | Some v0, Some v1 =>
          let x := v0 * 4 + v1 / 16 in
          if c2 =? pad then
            if (c3 =? pad) then match r with [] => Some [x] | _ => None end else None
          else match b64_val c2 with
               | None => None
               | Some v2 =>
                   let y := (v1 mod 16) * 16 + v2 / 4 in
                   if c3 =? pad then match r with [] => Some [x; y] | _ => None end
                   else match b64_val c3 with
                        | None => None
                        | Some v3 =>
                            let z := (v2 mod 4) * 64 + v3 in
                            match b64_decode_clean r with
                            | Some t => Some (x :: y :: z :: t)
                            | None => None
                            end
                        end
               end
      | _, _ => None
      end
  | _ => None
  end.

Definition is_crlf (c : N) : bool := (c =? 10) || (c =? 13).

Definition b64_decode (s : str) : option str :=
  b64_decode_clean (filter (fun c => negb (is_crlf c)) s).
