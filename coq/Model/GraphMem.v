(* Model/GraphMem.v -- executable model of oras-go internal/graph/memory.go
   (graph.Memory: the predecessor index shared by content/memory, content/oci,
   content/file).  No proofs in this file (Proofs/GraphMem.v has them).

   SELF-CONTAINED: only the Coq standard library; reusable by C06/C08/C09.

   Correspondence with the Go code
   -------------------------------
   node            descriptor.Descriptor{MediaType,Digest,Size}: the map key.  The
                   harness numbers the distinct keys; the model needs only equality.
   g_nodes         Memory.nodes        (key set; the stored ocispec.Descriptor value is
                   not modelled: observers compare keys)
   g_preds         Memory.predecessors (map key -> set of keys)
   g_succs         Memory.successors   (map key -> set of keys)
   Go maps = association lists looked up by [aget]; [aset] replaces the binding,
   [adel] deletes it (`delete(m,k)`); Go set.Set = duplicate-free list ([sadd],
   [sdel]).  Go map iteration order: [remove_ord] takes the order in which
   `for successorKey := range m.successors[nodeKey]` visits the set as an explicit
   argument; [remove] uses the model's own order.

   index g n ss    Memory.index after content.Successors(ctx, fetcher, node) has
                   returned [ss] without error (ordered, duplicates kept).  When
                   Successors fails, index returns before touching the state: see
                   [op_index].
   remove_ord      Memory.Remove, returns (graph, danglings)
   predecessors_raw Memory.Predecessors: `res = append(res, m.nodes[k])` for k in the
                   set; a key missing from m.nodes would give the zero descriptor =
                   [None] here.
   index_all       Memory.IndexAll.  The Go code runs the traversal concurrently
                   (syncutil.Go) with a status.Tracker so that every descriptor is
                   handled at most once per call, skipping descriptors whose index()
                   fails with ErrNotFound.  The model is the sequential work-list
                   version with a visited list (= the tracker) and fuel; the result
                   [ok=false] means out of fuel (excluded by the theorems'
                   hypotheses; Proofs/GraphMem.v [load_terminates] shows that enough
                   fuel exists for every finite universe).  Which interleaving Go picks does not
                   matter: the final graph is characterised in Proofs/GraphMem.v
                   independently of the order (index_all_nodes + Inv).
   content n       what content.Successors returns for key n: a function of the key
                   because the bytes are addressed by the digest in the key and
                   parsed according to the media type in the key.
   sok n           "content.Successors(fetcher, n) succeeds": always true for
                   non-manifest media types (Successors returns nil,nil without
                   fetching), for the five manifest media types true iff the fetcher
                   (the store's storage) has the bytes.  A false value stands for
                   errdef.ErrNotFound. *)
From Coq Require Import List NArith Bool.
Import ListNotations.

Definition node := N.

(* ---- Go set.Set[descriptor.Descriptor] as a duplicate-free list ---- *)
Fixpoint smem (x : node) (s : list node) : bool :=
  match s with [] => false | y :: r => if N.eqb x y then true else smem x r end.
Definition sadd (x : node) (s : list node) : list node := if smem x s then s else x :: s.
Fixpoint sdel (x : node) (s : list node) : list node :=
  match s with [] => [] | y :: r => if N.eqb x y then sdel x r else y :: sdel x r end.

(* ---- Go map[descriptor.Descriptor]set.Set as an association list ---- *)
Definition amap := list (node * list node).
Fixpoint aget (m : amap) (k : node) : option (list node) :=
  match m with [] => None | (k', v) :: r => if N.eqb k k' then Some v else aget r k end.
Fixpoint adel (m : amap) (k : node) : amap :=
  match m with [] => [] | (k', v) :: r => if N.eqb k k' then adel r k else (k', v) :: adel r k end.
Definition aset (m : amap) (k : node) (v : list node) : amap := (k, v) :: adel m k.
(* reading a missing key of a Go map of sets gives the nil set *)
Definition getd (m : amap) (k : node) : list node :=
  match aget m k with Some v => v | None => [] end.

Record graph := mkGraph { g_nodes : list node; g_preds : amap; g_succs : amap }.
Definition empty_graph : graph := mkGraph [] [] [].

(* ---- Memory.index (memory.go:164-191), after Successors succeeded ---- *)
(* predecessorSet, exists := m.predecessors[successorKey]; if !exists {new set}; Add(nodeKey) *)
Definition add_pred (n : node) (pm : amap) (s : node) : amap := aset pm s (sadd n (getd pm s)).
Definition index (g : graph) (n : node) (ss : list node) : graph :=
  mkGraph (sadd n (g_nodes g))
          (fold_left (add_pred n) ss (g_preds g))
          (aset (g_succs g) n (fold_left (fun acc s => sadd s acc) ss [])).

(* ---- Memory.Remove (memory.go:125-149) ---- *)
(* one iteration of `for successorKey := range m.successors[nodeKey]` *)
Definition rm_step (nodes : list node) (n : node) (st : amap * list node) (s : node) : amap * list node :=
  let (pm, dang) := st in
  let pe := sdel n (getd pm s) in                    (* predecessorEntry.Delete(nodeKey) *)
  match pe with
  | [] => (adel pm s, if smem s nodes then dang ++ [s] else dang)
  | _ => (aset pm s pe, dang)
  end.
Definition remove_ord (g : graph) (n : node) (order : list node) : graph * list node :=
  let (pm, dang) := fold_left (rm_step (g_nodes g) n) order (g_preds g, []) in
  (mkGraph (sdel n (g_nodes g)) pm (adel (g_succs g) n), dang).
Definition remove (g : graph) (n : node) : graph * list node :=
  remove_ord g n (getd (g_succs g) n).

(* ---- Memory.Predecessors (memory.go:108-121) ---- *)
Definition predecessors (g : graph) (n : node) : list node := getd (g_preds g) n.
Definition predecessors_raw (g : graph) (n : node) : list (option node) :=
  map (fun k => if smem k (g_nodes g) then Some k else None) (predecessors g n).
(* ---- Memory.Exists ---- *)
Definition exists_node (g : graph) (n : node) : bool := smem n (g_nodes g).

(* ---- Memory.Index: index() or the error of content.Successors ---- *)
Definition op_index (content : node -> list node) (sok : node -> bool) (g : graph) (n : node)
  : graph * bool :=
  if sok n then (index g n (content n), true) else (g, false).

(* ---- Memory.IndexAll (memory.go:75-100) ---- *)
Fixpoint index_all (content : node -> list node) (sok : node -> bool) (fuel : nat)
         (work visited : list node) (g : graph) : graph * list node * bool :=
  match fuel with
  | O => (g, visited, match work with [] => true | _ => false end)
  | S f =>
    match work with
    | [] => (g, visited, true)
    | d :: rest =>
      if smem d visited then index_all content sok f rest visited g       (* TryCommit failed *)
      else if sok d
           then index_all content sok f (content d ++ rest) (d :: visited) (index g d (content d))
           else index_all content sok f rest (d :: visited) g             (* ErrNotFound: skip *)
    end
  end.
Definition index_all_root content sok fuel (g : graph) (r : node) : graph * bool :=
  match index_all content sok fuel [r] [] g with (g', _, ok) => (g', ok) end.

(* loadIndex (readonlyoci.go:171-187) and gcIndex (oci.go:529-583), graph part:
   a fresh graph.Memory, then IndexAll for every root in turn. *)
Fixpoint load_from (content : node -> list node) (sok : node -> bool) (fuel : nat)
         (g : graph) (roots : list node) : graph * bool :=
  match roots with
  | [] => (g, true)
  | r :: rs => let (g1, ok1) := index_all_root content sok fuel g r in
               let (g2, ok2) := load_from content sok fuel g1 rs in (g2, ok1 && ok2)
  end.
Definition load content sok fuel (roots : list node) : graph * bool :=
  load_from content sok fuel empty_graph roots.

(* ---- the operation language of the correspondence run ---- *)
Inductive op :=
| OIndex (n : node)            (* Memory.Index *)
| ORemove (n : node)           (* Memory.Remove *)
| OIndexAll (n : node)         (* Memory.IndexAll *)
| OQuery (n : node)            (* Memory.Predecessors *)
| OExists (n : node)           (* Memory.Exists *)
| OSok (n : node) (v : bool)   (* the fetcher gains / loses the content of n *)
| OReset.                      (* a fresh graph.Memory (reopen, gcIndex) *)

Inductive out :=
| RNone | ROk | RNotFound | RFuel
| RDang (d : list node)
| RPreds (p : list (option node))
| RBool (v : bool).

Record state := mkState { s_g : graph; s_sok : list node }.
Definition init_state : state := mkState empty_graph [].

Definition ctab (ct : amap) : node -> list node := getd ct.

Definition step (ct : amap) (fuel : nat) (s : state) (o : op) : state * out :=
  let content := ctab ct in
  let sok := fun x => smem x (s_sok s) in
  match o with
  | OIndex n => let (g, ok) := op_index content sok (s_g s) n in
                (mkState g (s_sok s), if ok then ROk else RNotFound)
  | ORemove n => let (g, d) := remove (s_g s) n in (mkState g (s_sok s), RDang d)
  | OIndexAll n => let (g, ok) := index_all_root content sok fuel (s_g s) n in
                   (mkState g (s_sok s), if ok then ROk else RFuel)
  | OQuery n => (s, RPreds (predecessors_raw (s_g s) n))
  | OExists n => (s, RBool (exists_node (s_g s) n))
  | OSok n v => (mkState (s_g s) (if v then sadd n (s_sok s) else sdel n (s_sok s)), RNone)
  | OReset => (mkState empty_graph (s_sok s), RNone)
  end.

Fixpoint run (ct : amap) (fuel : nat) (s : state) (ops : list op) : state * list out :=
  match ops with
  | [] => (s, [])
  | o :: r => let (s1, x) := step ct fuel s o in
              let (s2, xs) := run ct fuel s1 r in (s2, x :: xs)
  end.

(* ---- Remove with the iteration order of Go's map chosen by the environment ----
   `for successorKey := range m.successors[nodeKey]` visits the set in an unspecified
   order.  [remove_with] takes that order as an argument (any duplicate-free list with the
   same members as the set; anything else falls back to the model's own order), and
   [run_orders] is [run] with an order attached to every operation (used by ORemove only). *)
Fixpoint nodup_b (l : list node) : bool :=
  match l with [] => true | x :: r => negb (smem x r) && nodup_b r end.
Definition valid_order (order succs : list node) : bool :=
  nodup_b order && forallb (fun x => smem x succs) order && forallb (fun x => smem x order) succs.
Definition remove_with (g : graph) (n : node) (order : list node) : graph * list node :=
  if valid_order order (getd (g_succs g) n) then remove_ord g n order else remove g n.
Definition step_ord (ct : amap) (fuel : nat) (s : state) (oo : op * list node) : state * out :=
  match fst oo with
  | ORemove n => let (g, d) := remove_with (s_g s) n (snd oo) in (mkState g (s_sok s), RDang d)
  | o => step ct fuel s o
  end.
Fixpoint run_orders (ct : amap) (fuel : nat) (s : state) (ops : list (op * list node)) : state * list out :=
  match ops with
  | [] => (s, [])
  | o :: r => let (s1, x) := step_ord ct fuel s o in
              let (s2, xs) := run_orders ct fuel s1 r in (s2, x :: xs)
  end.
