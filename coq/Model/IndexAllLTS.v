(* Model/IndexAllLTS.v -- graph.Memory.IndexAll (memory.go:75-100) as it really runs:
   syncutil.Go starts one task per descriptor, concurrently; a task first tries to commit the
   descriptor in the per-call status.Tracker (atomic; a second task for the same descriptor
   stops there), then calls index() (content.Successors, then the graph update under the
   lock) and starts a task for every successor.  No proofs here.

     pending   tasks started and not yet begun (any of them may go next)
     inflight  descriptors committed whose index() has not happened yet
     tracker   descriptors committed in this call
   An event picks which pending task commits or which in-flight descriptor is indexed next;
   a trace is any list of events: every schedule of the goroutines, down to the two atomic
   actions of a task.  ([index_all] of Model/GraphMem.v is the schedule "last started first,
   index immediately".) *)
From Coq Require Import List NArith Bool.
Import ListNotations.
From Oras Require Import Base.Prelude Generated.GC07 Model.GraphMem.

Record ia_state := mkIA {
  ia_pending : list node; ia_inflight : list node; ia_tracker : list node; ia_g : graph }.
Inductive ia_ev := EvCommit (i : nat) | EvIndex (j : nat).

Fixpoint remove_nth {A} (i : nat) (l : list A) : list A :=
  match l, i with
  | [], _ => []
  | _ :: r, O => r
  | x :: r, S k => x :: remove_nth k r
  end.

Definition ia_step (content : node -> list node) (sok : node -> bool)
           (st : ia_state) (e : ia_ev) : option ia_state :=
  match e with
  | EvCommit i =>
      match nth_error (ia_pending st) i with
      | None => None
      | Some d =>
          let pend := remove_nth i (ia_pending st) in
          if smem d (ia_tracker st) then Some (mkIA pend (ia_inflight st) (ia_tracker st) (ia_g st))
          else if sok d
               then Some (mkIA pend (d :: ia_inflight st) (d :: ia_tracker st) (ia_g st))
               else Some (mkIA pend (ia_inflight st) (d :: ia_tracker st) (ia_g st))   (* ErrNotFound: skipped *)
      end
  | EvIndex j =>
      match nth_error (ia_inflight st) j with
      | None => None
      | Some d =>
          Some (mkIA (ia_pending st ++ content d) (remove_nth j (ia_inflight st)) (ia_tracker st)
                     (index (ia_g st) d (content d)))
      end
  end.

Fixpoint ia_run content sok (st : ia_state) (trace : list ia_ev) : option ia_state :=
  match trace with
  | [] => Some st
  | e :: r => match ia_step content sok st e with Some st' => ia_run content sok st' r | None => None end
  end.

Definition ia_done (st : ia_state) : bool :=
  match ia_pending st, ia_inflight st with [], [] => true | _, _ => false end.
Definition ia_init (g : graph) (r : node) : ia_state := mkIA [r] [] [] g.

(* commit before index, index before the successors' tasks, the root task started last in
   the source: the call order of IndexAll's task function, re-read on every run *)
Definition indexall_task_order : bool :=
  match calls_indexAll with
  | [c; i; g1; g2] => str_eqb c (b "tracker.TryCommit") && str_eqb i (b "m.index")
                      && str_eqb g1 (b "syncutil.Go") && str_eqb g2 (b "syncutil.Go")
  | _ => false
  end.
