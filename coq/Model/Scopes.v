(* C16 -- executable model of registry/remote/auth/scope.go: cleanActions,
   CleanScopes (fast paths included), GetAllScopesForHost.
   Strings are byte lists; Go's string order (slices.Sort) is the bytewise
   lexicographic order [str_leb].  The two Go map iterations of the slow path
   (resource types, then names; then the action set) happen before the final
   slices.Sort; the model builds the pre-sort list in first-occurrence order and
   Proofs/Scopes.v shows the result does not depend on that order
   ([isort_perm]: sorting any permutation gives the same list).
   No proofs in this file. *)
From Oras Require Import Base.Prelude.

Definition c_colon : N := 58.
Definition c_comma : N := 44.
Definition c_star : N := 42.
Definition c_space : N := 32.

(* ---------- byte-wise lexicographic order, insertion sort ---------- *)
Fixpoint str_leb (x y : str) : bool :=
  match x, y with
  | [], _ => true
  | _ :: _, [] => false
  | c :: x', d :: y' => if c <? d then true else if d <? c then false else str_leb x' y'
  end.

Fixpoint insert (x : str) (l : list str) : list str :=
  match l with
  | [] => [x]
  | y :: l' => if str_leb x y then x :: l else y :: insert x l'
  end.

Fixpoint isort (l : list str) : list str :=
  match l with
  | [] => []
  | x :: l' => insert x (isort l')
  end.

(* remove adjacent duplicates *)
Fixpoint compact (l : list str) : list str :=
  match l with
  | [] => []
  | x :: l' =>
    match l' with
    | [] => [x]
    | y :: _ => if str_eqb x y then compact l' else x :: compact l'
    end
  end.

(* ---------- strings.Split / Join / LastIndex on a single byte ---------- *)
Fixpoint split_on (c : N) (s : str) : list str :=
  match s with
  | [] => [[]]
  | d :: s' =>
    if d =? c then [] :: split_on c s'
    else match split_on c s' with
         | [] => [[d]]
         | w :: ws => (d :: w) :: ws
         end
  end.

Fixpoint join (sep : str) (l : list str) : str :=
  match l with
  | [] => []
  | [x] => x
  | x :: l' => x ++ sep ++ join sep l'
  end.

Fixpoint last_index_of (c : N) (s : str) : option nat :=
  match s with
  | [] => None
  | d :: s' =>
    match last_index_of c s' with
    | Some i => Some (S i)
    | None => if d =? c then Some 0%nat else None
    end
  end.

Definition is_empty (s : str) : bool := match s with [] => true | _ => false end.
Definition is_star (s : str) : bool := str_eqb s [c_star].

(* ---------- cleanActions ---------- *)
Definition clean_actions (a : list str) : list str :=
  match a with
  | [] => []
  | [x] => if is_empty x then [] else [x]
  | _ =>
    let s := isort a in
    if existsb is_star s then [[c_star]]
    else match compact s with
         | [] :: rest => rest
         | c => c
         end
  end.

(* ---------- CleanScopes ---------- *)
Inductive cls :=
| Pass (s : str)
| Drop
| Keyed (t n : str) (acts : list str).

Definition classify (s : str) : cls :=
  match index_of c_colon s with
  | None => Pass s
  | Some i =>
    let t := firstn i s in
    let rest := skipn (S i) s in
    match last_index_of c_colon rest with
    | None => Pass s
    | Some j =>
      let n := firstn j rest in
      let a := skipn (S j) rest in
      if is_empty a then Drop
      else Keyed t n (filter (fun x => negb (is_empty x)) (split_on c_comma a))
    end
  end.

Definition key_eqb (k1 k2 : str * str) : bool :=
  str_eqb (fst k1) (fst k2) && str_eqb (snd k1) (snd k2).

Fixpoint passes (l : list cls) : list str :=
  match l with
  | [] => []
  | Pass s :: l' => s :: passes l'
  | _ :: l' => passes l'
  end.

(* keys in first-occurrence order *)
Fixpoint mem_key (k : str * str) (ks : list (str * str)) : bool :=
  match ks with
  | [] => false
  | k' :: ks' => key_eqb k k' || mem_key k ks'
  end.

Fixpoint keys_of (l : list cls) (seen : list (str * str)) : list (str * str) :=
  match l with
  | [] => []
  | Keyed t n _ :: l' =>
    if mem_key (t, n) seen then keys_of l' seen
    else (t, n) :: keys_of l' ((t, n) :: seen)
  | _ :: l' => keys_of l' seen
  end.

Fixpoint acts_of (k : str * str) (l : list cls) : list str :=
  match l with
  | [] => []
  | Keyed t n a :: l' => if key_eqb k (t, n) then a ++ acts_of k l' else acts_of k l'
  | _ :: l' => acts_of k l'
  end.

(* the action list of one (type, name): "*" absorbs, else sorted set *)
Definition merge_actions (a : list str) : list str :=
  if existsb is_star a then [[c_star]] else compact (isort a).

Definition rebuild (l : list cls) (k : str * str) : list str :=
  match acts_of k l with
  | [] => []
  | a => [fst k ++ [c_colon] ++ snd k ++ [c_colon] ++ join [c_comma] (merge_actions a)]
  end.

(* the list handed to the final slices.Sort (in one possible map order) *)
Definition presort (scopes : list str) : list str :=
  let l := map classify scopes in
  passes l ++ flat_map (rebuild l) (keys_of l []).

(* current code: slices.Sort then slices.Compact *)
Definition clean_scopes_slow (scopes : list str) : list str := compact (isort (presort scopes)).

(* the single-scope fast path after its guard "fewer than two colons: keep as is" *)
Definition clean_single_fast (s : str) (i : nat) : list str :=
  match clean_actions (split_on c_comma (skipn (S i) s)) with
  | [] => []
  | al => [firstn (S i) s ++ join [c_comma] al]
  end.

Definition clean_scopes (scopes : list str) : list str :=
  match scopes with
  | [] => []
  | [s] =>
    match last_index_of c_colon s, index_of c_colon s with
    | Some i, Some j => if Nat.eqb i j then [s] else clean_single_fast s i
    | _, _ => [s]
    end
  | _ => clean_scopes_slow scopes
  end.

(* The code before the two "fix:" commits (c294dbc: no Compact after the sort;
   58904c6: the fast path had no single-colon guard).  Kept for the _refuted
   theorems only. *)
Definition clean_scopes_prefix (scopes : list str) : list str :=
  match scopes with
  | [] => []
  | [s] =>
    match last_index_of c_colon s with
    | None => [s]
    | Some i => clean_single_fast s i
    end
  | _ => isort (presort scopes)
  end.

(* ---------- GetAllScopesForHost on the values given to WithScopesForHost /
   WithScopes (both clean their argument when stored) ---------- *)
Definition get_all_scopes (clean : list str -> list str) (perhost global : list str) : list str :=
  let s := clean perhost in
  let g := clean global in
  match s, g with
  | [], _ => g
  | _, [] => s
  | _, _ => clean (s ++ g)
  end.
