"""Per-property configuration of bin/check."""
from binascii import unhexlify


def _unhex(h):
    return "" if h == "-" else unhexlify(h).decode("latin-1")


TRUSTED_BASE = [
    "Coq 8.16.1 kernel (coqc); vm_compute used in finite-sweep lemmas; no native_compute",
    "no axioms declared; Print Assumptions of every property theorem is recorded in coverage.print_assumptions",
    "translator tools/gosrc2v (go/parser + regexp/syntax): regexes, constants and tables re-read from /repo on every run",
    "extraction: ExtrOcamlBasic + ExtrOcamlString only (bool, option, unit, list, prod, sumbool -> OCaml; ascii -> char, string -> char list); nat/N/Z/positive stay Coq datatypes; ml/common.ml + per-property driver; ocamlopt 4.13.1",
    "Go harness (generators, canonicaliser, oracle) built with go1.26.8 against /repo with -tags verif",
]



import glob as _glob
import os as _os

PROPS = {}
for _f in sorted(_glob.glob(_os.path.join(_os.path.dirname(_os.path.abspath(__file__)), "props.d", "C*.py"))):
    _ns = {"unhex": _unhex}
    exec(compile(open(_f).read(), _f, "exec"), _ns)
    PROPS[_os.path.basename(_f)[:-3]] = _ns["CONFIG"]

# properties whose check is not registered yet (kept in MANIFEST.not_applicable until it is)
PENDING = {pid: "check under construction in this round (DESIGN.md section 8 build order); not yet claimed"
           for pid in ["C%02d" % i for i in range(1, 21)] if pid not in PROPS}
