"""post_model hook of C02 (spec-level part): re-evaluate a sample of the recorded faulty calls / reruns
inside Coq (vm_compute on Model/CopyFault.fstep) and compare with what the extracted OCaml runner
printed -- a cross-check of the extraction and of ml/c02_main.ml's parsing."""
import os, subprocess

_PRELUDE = """From Oras Require Import Base.Prelude Generated.GC02 Model.CopySpec Model.CopyTop Model.CopyOpt Model.CopyFault Model.CopyFaultOpt.
Local Open Scope nat_scope.
Definition mkG (n : nat) (succs : list (list nat)) (fl ism : list bool) (dk : list nat) : graph :=
  mkGraph n (fun x => nth x succs []) (fun x => nth x fl false) (fun x => nth x ism false)
          (fun x => if Nat.ltb x n then nth x dk 0 else 1000000 + x).
Definition cs_of (b : list bool) : cbset :=
  fun k => match k with CPre => nth 0 b true | CPost => nth 1 b true | CSkip => nth 2 b true
                      | CMounted => nth 3 b true | CMountFrom => nth 4 b true end.
Fixpoint frun_cl (cs : cbset) (g : graph) (c : cfg) (ext : bool) (fs : fstate) (tr : list fevent) (cl : bool) : option (fstate * bool) :=
  match tr with
  | [] => Some (fs, cl)
  | e :: tr' => match fstep_opt cs g c ext fs e with
                | Some (fs', _) => frun_cl cs g c ext fs' tr' (cl && closedb g (dst (fb fs')))
                | None => None
                end
  end.
Definition eval (cs : cbset) (g : graph) (c : cfg) (ext : bool) (d0 : list node) (tr : list fevent) (n0 : nat) :=
  match frun_cl cs g c ext (finit c ext d0) tr (closedb g d0) with
  | None => None
  | Some (fs, cl) =>
      Some (returned (fb fs), tag (fb fs),
            filter (fun i => Nat.ltb i n0) (present_nodes g (dst (fb fs))), cl)
  end.
"""

_KIND = {"pre": "CPre", "post": "CPost", "skip": "CSkip", "mounted": "CMounted", "mountfrom": "CMountFrom"}


def _nats(s):
    return "[" + "; ".join(x for x in ([] if s in ("-", "") else s.split(","))) + "]"


def _b(x):
    return "true" if x else "false"


def _event(tok):
    p = tok.split(".")
    k = p[0]
    if k == "XB": return "Ev (ExB %s)" % p[1]
    if k == "XE": return "Ev (ExE %s %s)" % (p[1], _b(p[2] == "1"))
    if k == "SB": return "Ev (SFB %s)" % p[1]
    if k == "SE": return "Ev (SFE %s)" % p[1]
    if k == "SC": return "Ev (SFC %s)" % p[1]
    if k == "PB": return "Ev (PuB %s %s)" % (p[1], _b(p[2] == "1"))
    if k == "PE" and p[3] in "kx": return "Ev (PuE %s %s %s)" % (p[1], _b(p[2] == "1"), "POk" if p[3] == "k" else "PExists")
    if k == "CB": return "Ev (Cb %s %s)" % (_KIND[p[1]], p[2])
    if k == "CF": return "Ev (CbFail %s %s)" % (_KIND[p[1]], p[2])
    if k == "TB": return "Ev (TagB %s)" % p[1]
    if k == "TE": return "Ev (TagE %s)" % p[1]
    if k == "MB": return "Ev (MtB %s)" % p[1]
    if k == "ME" and p[2] in "msc": return "Ev (MtE %s %s)" % (p[1], {"m": "MMounted", "s": "MSkipped", "c": "MCopied"}[p[2]])
    if k == "RT": return "Ev (Ret %s)" % _b(p[1] == "1")
    if k == "XX": return "ExX %s" % p[1]
    if k == "SX": return "SFX %s" % p[1]
    if k == "SR": return "SRX %s" % p[1]
    if k == "FX": return "FSX %s" % p[1]
    if k == "PX": return "PuX %s %s %s" % (p[1], _b(p[2] == "1"), _b(p[3] == "1"))
    if k == "TX": return "TagX %s %s" % (p[1], _b(p[2] == "1"))
    if k == "MX": return "MtX %s %s" % (p[1], _b(p[2] == "1"))
    if k == "QK": return "ProOk"
    if k == "QX": return "ProX"
    if k == "CN": return "Cancel"
    return None


def _goals(case, out):
    """one goal for g|t|r, two (both views of the fan-out) for x"""
    f = case.split(" ")
    if len(f) < 7:
        return None
    n, k, api, roots, nodes, d0, trace = f[0], f[1], f[2], f[3], f[4], f[5], f[6]
    api, _, bits = api.partition("/")
    bits = bits or "11111"
    mount = "m" in api[1:]
    cachedroot = "c" in api[1:]
    api = api[0]
    cmode = {"g": "MGraph", "x": "MGraph", "t": "MTagger", "r": "MRefPush"}[api]
    specs = nodes.split(";")
    if len(specs) != int(n):
        return None
    succs, fl, ism, dk = [], [], [], []
    for s in specs:
        a, b, c = s.split("/")
        fl.append(_b("f" in a)); ism.append(_b("m" in a)); dk.append(b); succs.append(_nats(c))
    evs = []
    for t in ([] if trace == "-" else trace.split(",")):
        if t.startswith("DS."):
            continue    # destination snapshots are checked by the OCaml runner only
        e = _event(t)
        if e is None:
            return None
        evs.append(e)
    if out.startswith("REJ"):
        exp = "None"
    elif out.startswith("ACC"):
        kv = dict(x.split("=", 1) for x in out.split(" ")[1:])
        ret = {"1": "Some true", "0": "Some false", "-": "None"}[kv["ret"]]
        tag = "None" if kv["tag"] == "-" else "Some %s" % kv["tag"]
        exp = "Some (%s, %s, %s, %s)" % (ret, tag, _nats(kv["dst"]), _b(kv["closed"] == "1"))
    else:
        return None
    rl = roots.split(",")

    def goal(nn, succs, fl, ism, dk, root, xroots, ext):
        g = "(mkG %d [%s] [%s] [%s] [%s])" % (nn, "; ".join(succs), "; ".join(fl), "; ".join(ism), "; ".join(dk))
        c = "(mkCfg (eff_K defaultConcurrency (%s)%%Z) %s %s %s true %s %s)" % (
            k, cmode, root, _b(mount), "[%s]" % root if cachedroot else "[]", _nats(",".join(xroots)))
        cs = "(cs_of [%s])" % "; ".join(_b(ch == "1") for ch in bits)
        return "eval %s %s %s %s %s [%s] %s = %s" % (cs, g, c, _b(ext), _nats(d0), "; ".join(evs), n, exp)
    if api == "x":
        n0 = int(n)
        return [goal(n0 + 1, succs + [_nats(roots)], fl + ["false"], ism + ["false"], dk + [str(n0)], str(n0), [], True),
                goal(n0, succs, fl, ism, dk, rl[0], rl[1:], False)]
    return [goal(int(n), succs, fl, ism, dk, rl[0], [], False)]


def vm_sample():
    def hook(d, tier, coq, build):
        want = 300 if tier == "thorough" else 30
        outs = {}
        with open(os.path.join(d, "model.txt")) as f:
            for l in f:
                i, _, o = l.rstrip("\n").partition(" ")
                outs[i] = o
        lines = []
        with open(os.path.join(d, "cases.txt")) as f:
            for l in f:
                if len(l) <= 2500:
                    lines.append(l.rstrip("\n"))
        stride = max(1, len(lines) // want)
        goals = []
        ncases = 0
        for l in lines[::stride]:
            i, _, c = l.partition(" ")
            if i in outs:
                gs = _goals(c, outs[i])
                if gs:
                    ncases += 1
                    goals += [(i, g) for g in gs]
            if ncases >= want:
                break
        vdir = os.path.join(build, "vm")
        os.makedirs(vdir, exist_ok=True)
        vf = os.path.join(vdir, "GC02f_cases.v")
        with open(vf, "w") as f:
            f.write(_PRELUDE)
            for i, g in goals:
                f.write("\n(* %s *)\nGoal %s.\nProof. vm_compute. reflexivity. Qed.\n" % (i, g))
        p = subprocess.run(["coqc", "-R", coq, "Oras", "-w", "-notation-overridden", vf], cwd=vdir, timeout=1500,
                           stdout=subprocess.PIPE, stderr=subprocess.STDOUT, text=True)
        with open(os.path.join(d, "vm_sample.txt"), "w") as f:
            f.write("%d goals (%d cases) rc=%d\n%s" % (len(goals), ncases, p.returncode, p.stdout[-3000:]))
        if p.returncode != 0:
            return ["in-Coq re-evaluation (vm_compute) of %d sampled cases disagrees with the extracted runner: %s"
                    % (ncases, p.stdout[-600:])]
        if ncases < min(want, 20):
            return ["in-Coq re-evaluation: only %d cases could be sampled" % ncases]
        return []
    return hook
