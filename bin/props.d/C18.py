"""C18 configuration (loaded by bin/props.py; `unhex` is provided)."""
import json as _json


def _c18_unhex(h):
    from binascii import unhexlify
    return "" if h == "-" else unhexlify(h).decode("utf-8", "replace")


def _c18_case(c):
    """Rebuild a replayable history from the model-input line of an H case."""
    t = c.split(" ")
    pos = [0]

    def nxt():
        pos[0] += 1
        return t[pos[0] - 1]

    def s():
        return _c18_unhex(nxt())

    kind = nxt()
    if kind == "E":
        return {"kind": "E", "u": s(), "p": s()}
    if kind == "X":
        return {"kind": "X", "auth": s()}
    if kind == "HOST":
        return {"kind": "HOST", "addr": s()}
    if kind != "H":
        return {"raw": c}

    def entry():
        tag = nxt()
        if tag == "F":
            a, i, r = s(), s(), s()
            e = {}
            if a:
                e["auth"] = a
            if i:
                e["identitytoken"] = i
            if r:
                e["registrytoken"] = r
            return _json.dumps(e, ensure_ascii=False)
        raw = s()
        v = nxt()
        if v == "V":
            for _ in range(5):
                nxt()
        return raw

    init = None
    it = nxt()
    if it == "DOC":
        n = int(nxt())
        parts = []
        for _ in range(n):
            k = s()
            tag = nxt()
            if tag == "R":
                nxt()
                parts.append(_json.dumps(k, ensure_ascii=False) + ":" + s())
            elif tag == "C":
                parts.append(_json.dumps(k, ensure_ascii=False) + ":" + _json.dumps(s(), ensure_ascii=False))
            else:
                m = int(nxt())
                es = []
                for _ in range(m):
                    a = s()
                    es.append(_json.dumps(a, ensure_ascii=False) + ":" + entry())
                parts.append(_json.dumps(k, ensure_ascii=False) + ":{" + ",".join(es) + "}")
        init = "{" + ",".join(parts) + "}"
    ops = []
    n = int(nxt())
    for _ in range(n):
        o = nxt()
        if o == "G":
            ops.append({"op": "G", "addr": s()})
            nxt()
        elif o == "P":
            ops.append({"op": "P", "addr": s(), "u": s(), "p": s(), "r": s(), "a": s()})
        else:
            ops.append({"op": "D", "addr": s()})
    mode = 420
    if pos[0] + 1 < len(t) and t[pos[0]] == "MODE" and t[pos[0] + 1] != "-":
        mode = int(t[pos[0] + 1], 8)
    return {"kind": "H", "init": init, "mode": mode, "subdir": False, "ops": ops}


CONFIG = {
    "properties_file": "Properties/C18.v",
    "proof_files": ["Base/Prelude.v", "Base/FlatFS.v", "Proofs/Base64.v", "Proofs/CredFile.v", "Proofs/CredSave.v",
                    "Proofs/CredConc.v"],
    "model_files": ["Generated/GC18.v", "Model/Base64.v", "Model/CredFile.v", "Model/CredSave.v", "Model/CredConc.v"],
    "extract": "XC18.v",
    "ml_main": "c18_main.ml",
    "harness": "c18",
    "case_to_replay": _c18_case,
    "timeout_quick": 600,
    "timeout_thorough": 3000,
    "assumptions": [
        "encoding/json is not modelled: values of unknown top-level keys and of auths entries are opaque canonical texts that the model never re-encodes (json.RawMessage); that MarshalIndent/compact/HTML-escaping preserve every value, that strings written by Put read back identically, and the AuthConfig view of an existing entry are checked on every run by the harness (own JSON reader, numbers as text) and are hypotheses parse(render d) = d of C18_atomic_op",
        "all strings are valid UTF-8 (JSON text): a credential part or server address with invalid UTF-8 is outside the quantifier (json.Marshal replaces such bytes in tokens and keys); object keys inside one JSON object are unique; field names of auth entries are matched exactly (encoding/json's case-insensitive field matching is not modelled: such documents are generated but not judged by the model)",
        "base64 is a parameter of the general theorems with hypotheses dec(enc s) = s and enc s = [] -> s = []; both are PROVED for the concrete RFC 4648 codec of Model/Base64.v (C18_base64_roundtrip, C18_base64_nonempty), and that codec is compared with Go's base64.StdEncoding through every Put/Get and malformed auth strings on every run",
        "Go map iteration order in GetCredential's legacy-key scan: the model yields every answer some order can give (get_candidates); the implementation's answer must be one of them; C18_roundtrip shows the only candidate after Put is the stored credential",
        "kernel semantics (FlatFS): rename replaces atomically, a write is all-or-prefix, what was written survives process death; no fsync/power-loss model (the property speaks of a process crash); os.CreateTemp = O_CREAT|O_EXCL on a fresh name (hypothesis fget t s = None); one directory level for MkdirAll",
        "sync.RWMutex is modelled by its specification (readers exclude writers, writers exclude everybody); Go memory model not modelled",
        "I/O errors (unwritable directory, full disk) are outside the property's quantifier and not modelled: on such an error PutCredential leaves the in-memory cache updated although the file is not",
        "strace 6.1 fault injection (signal=KILL at syscall entry) and its per-thread, per-name ordinals: every killing run is itself traced and verified to have died at the intended call, otherwise it is not judged",
    ],
    "level_text": "Coq theorems, all axiom-free: Put/Get round trip through any later history and any map order (generic in base64, and hypothesis-free for the proved RFC 4648 codec); colon refusal; Delete locality; preservation of every other top-level key, a configured credsStore and every unaddressed auths entry over all histories and all openable documents; the saved file re-opens to the same entries; saveFile atomic at every crash cut incl. inside a write, ingest file never wider than 0600, lifted to every store operation; every execution of the non-atomic lock/cache/file transition system is serialisable. Tied to the code by constants regenerated from config.go, a differential run of the extracted model on generated documents/histories, strace kill-at-every-syscall runs compared with the FlatFS model, concurrent runs accepted by the model, and an independent oracle",
    "level_note": "encoding/json value preservation, UTF-8 validity of inputs, kernel rename/write semantics and sync.RWMutex are assumptions (modelled, not verified); credsStore \"\"/null is dropped on save (omitempty) and auths null/absent becomes {} - modelled faithfully and excluded from the preservation statement",
    "technique": "machine-checked proof in Coq (sequential state machine by induction over histories; FlatFS micro-step crash cuts; labelled transition system with lock invariants and a linearisation abstraction) + translator-regenerated constants + model/implementation correspondence incl. strace fault injection",
    "explanation": "theorems over all documents, histories, crash cuts and interleavings about the model of FileStore/Config (Load, GetCredential, PutCredential, DeleteCredential, saveFile, Ingest, encodeAuth/decodeAuth, ToHostname); generated histories on the real FileStore diffed against the extracted model after every step; SIGKILL before every system call of a save diffed against the FlatFS model; concurrent callers accepted by the model's step function; independent oracle from the generator's ground truth",
}
