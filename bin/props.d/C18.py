"""C18 configuration (loaded by bin/props.py; `unhex` is provided)."""
import json as _json


def _c18_unhex(h):
    from binascii import unhexlify
    return "" if h == "-" else unhexlify(h).decode("utf-8", "replace")


def _c18_case(c):
    """Rebuild a replayable history from the model-input line of an H case."""
    t = c.split(" ")
    pos = [0]

    def nxt():
        pos[0] += 1
        return t[pos[0] - 1]

    def s():
        return _c18_unhex(nxt())

    kind = nxt()
    if kind != "H":
        return {"raw": c}

    def entry():
        tag = nxt()
        if tag == "F":
            a, i, r = s(), s(), s()
            e = {}
            if a:
                e["auth"] = a
            if i:
                e["identitytoken"] = i
            if r:
                e["registrytoken"] = r
            return _json.dumps(e, ensure_ascii=False)
        raw = s()
        v = nxt()
        if v == "V":
            for _ in range(5):
                nxt()
        return raw

    init = None
    it = nxt()
    if it == "DOC":
        n = int(nxt())
        parts = []
        for _ in range(n):
            k = s()
            tag = nxt()
            if tag == "R":
                nxt()
                parts.append(_json.dumps(k, ensure_ascii=False) + ":" + s())
            elif tag == "C":
                parts.append(_json.dumps(k, ensure_ascii=False) + ":" + _json.dumps(s(), ensure_ascii=False))
            else:
                m = int(nxt())
                es = []
                for _ in range(m):
                    a = s()
                    es.append(_json.dumps(a, ensure_ascii=False) + ":" + entry())
                parts.append(_json.dumps(k, ensure_ascii=False) + ":{" + ",".join(es) + "}")
        init = "{" + ",".join(parts) + "}"
    ops = []
    n = int(nxt())
    for _ in range(n):
        o = nxt()
        if o == "G":
            ops.append({"op": "G", "addr": s()})
            nxt()
        elif o == "P":
            ops.append({"op": "P", "addr": s(), "u": s(), "p": s(), "r": s(), "a": s()})
        else:
            ops.append({"op": "D", "addr": s()})
    return {"kind": "H", "init": init, "mode": 420, "subdir": False, "ops": ops}


CONFIG = {
    "properties_file": "Properties/C18.v",
    "proof_files": ["Base/Prelude.v", "Base/FlatFS.v", "Proofs/CredFile.v", "Proofs/CredSave.v"],
    "model_files": ["Generated/GC18.v", "Model/Base64.v", "Model/CredFile.v", "Model/CredSave.v"],
    "extract": "XC18.v",
    "ml_main": "c18_main.ml",
    "harness": "c18",
    "case_to_replay": _c18_case,
    "assumptions": [],
    "level_text": "",
    "level_note": "",
    "technique": "machine-checked proof in Coq + model/implementation correspondence",
    "explanation": "",
}
