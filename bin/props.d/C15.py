"""C15 configuration (loaded by bin/props.py; `unhex` is provided)."""


def _c15_case(c):
    # A model/implementation mismatch on a listing is searched for by re-running the generator
    # (bin/check search step b); the direct cases can be rebuilt from their model line.
    import json as _json
    p = c.split(" ")
    if p[0] in ("C", "W") and p[-1].startswith("J"):
        return _json.loads(bytes.fromhex(p[-1][1:]).decode("utf-8"))
    if p[0] == "S":
        def unhex(h):  # values may be UTF-8
            return "" if h == "-" else bytes.fromhex(h).decode("utf-8", "replace")

        def _items(t):
            return [] if t == "_" else [{"Name": unhex(a), "ArtifactType": unhex(b_)} for a, b_ in (x.split(":") for x in t.split(","))]

        def _kvs(t):
            out = []
            for kv in ([] if t == "_" else t.split("&")):
                k, v = kv.split("=", 1)
                out.append({"K": unhex(k), "V": v[1:] if v[0] == "N" else unhex(v[1:])})
            return out
        return {"op": "regpage", "kind": p[1], "items": _items(p[2]), "cap": int(p[3]), "path": unhex(p[4]), "query": _kvs(p[5]),
                "cursorkey": unhex(p[11]), "cursorsalt": unhex(p[12]),
                "hidden": [] if p[13] == "_" else [unhex(x) for x in p[13].split(",")],
                "dec": {"M": int(p[6]), "Extra": _kvs(p[7]) or None, "Filter": p[8] == "1", "FHdr": unhex(p[9]), "FAnn": unhex(p[10])}}
    if p[0] == "P":
        ct = unhex(p[4])
        return {"op": "ping", "state": p[1], "status": "0" if p[2] == "200" else p[2],
                "code": "NAME_UNKNOWN" if p[3] == "1" else ("" if p[2] == "200" else "UNSUPPORTED"),
                "ctype": "" if ct == "application/vnd.oci.image.index.v1+json" else ct}
    if p[0] == "L":
        return {"op": "link", "cmp": p[1], "header": unhex(p[2])}
    if p[0] == "F":
        return {"op": "filter", "applied": unhex(p[1]), "requested": unhex(p[2])}
    if p[0] == "B":
        return {"op": "body", "limit": p[1], "doclen": p[3], "pad": str(int(p[4]) - int(p[3]))}
    if p[0] == "Z":
        return {"op": "size", "limit": p[1], "size": p[2]}
    return {"raw": c}


# ---------------------------------------------------------------------------
# Thorough tier: a sample of the correspondence cases is re-evaluated INSIDE Coq with
# vm_compute and compared with what the extracted OCaml runner printed (model.txt).
# This cross-checks the extraction and the OCaml driver, not the implementation.

def _vm_str(h):
    if h == "-":
        return "(@nil N)"
    bs = bytes.fromhex(h)
    return "[" + "; ".join(str(x) for x in bs) + "]"


def _vm_list(xs, ty):
    return "(@nil %s)" % ty if not xs else "[" + "; ".join(xs) + "]"


def _vm_items(tok):
    if tok == "_":
        return "(@nil item)"
    out = []
    for it in tok.split(","):
        a, b_ = it.split(":")
        out.append("(%s, %s)" % (_vm_str(a), _vm_str(b_)))
    return _vm_list(out, "item")


def _vm_query(tok):
    if tok == "_":
        return "(@nil (str * qval))"
    out = []
    for kv in tok.split("&"):
        k, v = kv.split("=", 1)
        out.append("(%s, %s)" % (_vm_str(k), "VN %s" % v[1:] if v[0] == "N" else "VS %s" % _vm_str(v[1:])))
    return _vm_list(out, "(str * qval)")


def _vm_expq(tok):
    """expected (printed) query: list of (key, value bytes, value as number if decimal)"""
    if tok == "_":
        return "(@nil (str * str * option N))"
    out = []
    for kv in tok.split("&"):
        k, v = kv.split("=", 1)
        raw = b"" if v == "-" else bytes.fromhex(v)
        num = "None"
        if raw.isdigit() and (raw == b"0" or not raw.startswith(b"0")) and len(raw) < 15:
            num = "Some %s" % raw.decode()
        out.append("(%s, %s, %s)" % (_vm_str(k), _vm_str(v), num))
    return _vm_list(out, "(str * str * option N)")


def _vm_z(t):
    n = int(t)
    return "(%d)%%Z" % n


def _vm_bool(t):
    return "true" if t == "1" else "false"


def _vm_kind(t):
    return {"T": "KTags", "K": "KCatalog", "R": "KReferrers"}[t]


def _vm_pages(tok, k):
    if k == 0:
        return "(@nil (list item))"
    return _vm_list([_vm_items(p) for p in tok.split(";")], "(list item)")


def _vm_client(toks):
    """Coq terms (cfg, loop application) of the client fields of a C/W line."""
    kd, n, limit, at, last, cbf, path, q, nresp = toks[:9]
    nr = int(nresp)
    rest = toks[9:]
    resps, table = [], []
    for i in range(nr):
        st, nu, ct, js, dl, tl, its, links, fh, fa, tt, tp, tq = rest[13 * i:13 * i + 13]
        ls = _vm_list([] if links == "_" else [_vm_str(x) for x in links.split(",")], "str")
        resps.append("(mkResp %s %s %s %s %s %s %s %s %s %s)" % (st, _vm_bool(nu), _vm_str(ct), _vm_bool(js), dl, tl,
                                                                  _vm_items(its), ls, _vm_str(fh), _vm_str(fa)))
        if tt != "!":
            tgt = "None" if tp == "!" else "Some (mkUrl %s %s)" % (_vm_str(tp), _vm_query(tq))
            table.append("(%s, %s)" % (_vm_str(tt), tgt))
    cfg = "(mkCfg %s %s %s %s)" % (_vm_kind(kd), _vm_z(n), _vm_z(limit), _vm_str(at))
    serve = "(fun (i : nat) (_ : url) => nth i %s vm_dead)" % _vm_list(resps, "response")
    resolve = "(vm_resolve %s)" % _vm_list(table, "(str * option url)")
    cb = "(fun k : nat => Nat.eqb k %d)" % int(cbf) if int(cbf) >= 0 else "(fun _ : nat => false)"
    loop = "(loop %s %s %s %s %d 0 0 (mkUrl %s %s) %s)" % (serve, resolve, cb, cfg, nr + 2, _vm_str(path), _vm_query(q), _vm_str(last))
    return cfg, loop, int(cbf)


def _vm_reqs(tok):
    """expected requests: (paths, queries)"""
    if tok == "_":
        return "(@nil str)", "(@nil (list (str * str * option N)))"
    ps, qs = [], []
    for r in tok.split("|"):
        p_, q_ = r.split("?", 1)
        ps.append(_vm_str(p_))
        qs.append(_vm_expq(q_))
    return _vm_list(ps, "str"), _vm_list(qs, "(list (str * str * option N))")


_VM_PRELUDE = """From Oras Require Import Base.Prelude Generated.GC15 Model.Paging Model.PagingUrl Model.PagingJson.
Definition vm_dead : response := mkResp 599 false [] false 0 0 [] [] [] [].
Definition vm_resolve (tbl : list (str * option url)) (_ : url) (t : str) : option url :=
  match find (fun e => str_eqb (fst e) t) tbl with Some e => snd e | None => None end.
Definition vm_vmatch (v : qval) (e : str * option N) : bool :=
  match v with VS s => str_eqb s (fst e) | VN n => match snd e with Some m => n =? m | None => false end end.
Definition vm_qsame (q : query) (e : list (str * str * option N)) : bool :=
  Nat.eqb (length q) (length e) &&
  forallb (fun x => existsb (fun kv => str_eqb (fst kv) (fst (fst x)) && vm_vmatch (snd kv) (snd (fst x), snd x)) q) e.
Fixpoint vm_qsames (qs : list query) (es : list (list (str * str * option N))) : bool :=
  match qs, es with
  | [], [] => true
  | q :: qs', e :: es' => vm_qsame q e && vm_qsames qs' es'
  | _, _ => false
  end.
"""


def _vm_goal(case, out):
    """one Coq goal (string) for a case line and the runner's output, or None when not sampled"""
    p = case.split(" ")
    o = out.split(" ")
    k = p[0]
    if k == "C":
        cfg, loop, _ = _vm_client(p[1:])
        # R reqs P k pages O out
        ps, qs = _vm_reqs(o[1])
        return ("let t := %s in (map u_path (t_reqs t), t_pages t, t_out t, vm_qsames (map u_query (t_reqs t)) %s)\n  = (%s, %s, %s, true)"
                % (loop, qs, ps, _vm_pages(o[4], int(o[3])), o[6]))
    if k == "W":
        st, cbu, found, size, tsitems = p[1:6]
        cfg, loop, cbf = _vm_client(p[6:])
        cbts = "(fun j : nat => Nat.eqb (k + j) %d)" % cbf if cbf >= 0 else "(fun _ : nat => false)"
        ts = "(fun k : nat => tag_schema (c_limit %s) %s %s %s (c_at %s) %s)" % (cfg, _vm_bool(found), _vm_z(size), _vm_items(tsitems), cfg, cbts)
        state = {"U": "RUnknown", "S": "RSupported", "N": "RUnsupported"}
        ps, qs = _vm_reqs(o[1])
        return ("let w := referrers_wrap %s %s %s %s in (map u_path (w_reqs w), w_pages w, w_out w, w_fell_back w, w_state w, vm_qsames (map u_query (w_reqs w)) %s)\n  = (%s, %s, %s, %s, %s, true)"
                % (state[st], _vm_bool(cbu), loop, ts, qs, ps, _vm_pages(o[4], int(o[3])), o[6], _vm_bool(o[8]), state[o[10]]))
    if k == "S":
        kd, its, cap, path, q, m, extra, flt, fh, fa, ck, salt, hidden = p[1:14]
        hid = _vm_list([] if hidden == "_" else [_vm_str(x) for x in hidden.split(",")], "str")
        vis = "(fun it : item => negb (existsb (str_eqb (fst it)) %s))" % hid
        d = "(mkDec %s %s %s %s %s 0 0)" % (m, _vm_query(extra), _vm_bool(flt), _vm_str(fh), _vm_str(fa))
        cu = "CLast" if ck == "-" else "(CToken %s %s)" % (_vm_str(ck), _vm_str(salt))
        call = "(reg_page %s %s %s %s %s (mkUrl %s %s) %s)" % (_vm_kind(kd), cu, vis, _vm_items(its), cap, _vm_str(path), _vm_query(q), d)
        more = o[1] == "1"
        qchk = "vm_qsame (snd r) %s" % _vm_expq(o[2]) if more else "true"
        return "let r := %s in (fst (fst r), snd (fst r), %s) = (%s, %s, true)" % (call, qchk, _vm_items(o[0]), _vm_bool(o[1]))
    if k == "L":
        h = _vm_str(p[2])
        if o[0] == "T" and len(o) > 1:
            return "parse_link %s = LTarget %s" % (h, _vm_str(o[1]))
        if o[0] == "T":
            return "(match parse_link %s with LTarget _ => true | _ => false end) = true" % h
        return "parse_link %s = %s" % (h, {"NONE": "LNone", "ERRLT": "LErrLt", "ERRGT": "LErrGt"}[o[0]])
    if k == "F":
        return "is_filter_applied %s %s = %s" % (_vm_str(p[1]), _vm_str(p[2]), _vm_bool(o[0]))
    if k == "FR":
        return "filter_referrers %s %s = %s" % (_vm_items(p[1]), _vm_str(p[2]), _vm_items(o[0]))
    if k == "Z":
        return "limit_size_rejects %s %s = %s" % (_vm_z(p[1]), _vm_z(p[2]), _vm_bool(o[0]))
    if k == "O":
        ents = "(@nil (str * str))" if p[1] == "_" else _vm_list(
            ["(%s, %s)" % tuple(_vm_str(x) for x in e.split(":")) for e in p[1].split(",")], "(str * str)")
        exp = _vm_list([] if o[0] == "_" else [_vm_str(x) for x in o[0].split(",")], "str")
        return "list_tags %s %s = %s" % (ents, _vm_str(p[2]), exp)
    if k == "CA":
        cfg, loop, _ = _vm_client(p[1:])
        return "collect_all %s = (%s, %s)" % (loop, o[3], _vm_items(o[1]))
    if k == "CS":
        sch, hst = p[1], p[2]
        kd, n, limit, at, last, cbf, path, q, nresp = p[3:12]
        nr = int(nresp)
        rest = p[12:]
        resps = []
        for i in range(nr):
            st, nu, ct, js, dl, tl, its, links, fh, fa, tt, tp, tq = rest[13 * i:13 * i + 13]
            ls = _vm_list([] if links == "_" else [_vm_str(x) for x in links.split(",")], "str")
            resps.append("(mkResp %s %s %s %s %s %s %s %s %s %s)" % (st, _vm_bool(nu), _vm_str(ct), _vm_bool(js), dl, tl,
                                                                      _vm_items(its), ls, _vm_str(fh), _vm_str(fa)))
        cfg = "(mkCfg %s %s %s %s)" % (_vm_kind(kd), _vm_z(n), _vm_z(limit), _vm_str(at))
        serve = "(fun (i : nat) (_ : sreq) => nth i %s vm_dead)" % _vm_list(resps, "response")
        cb = "(fun k : nat => Nat.eqb k %d)" % int(cbf) if int(cbf) >= 0 else "(fun _ : nat => false)"
        q0 = "(referrers_q0 %s)" % _vm_str(at) if kd == "R" else "(@nil N)"
        call = "loop_s %s %s %s %s %s %d 0 0 %s %s %s" % (_vm_str(sch), _vm_str(hst), serve, cb, cfg, nr + 2, _vm_str(path), q0, _vm_str(last))
        if o[0] == "UNJUDGED":
            return "%s = None" % call
        reqs = _vm_list(["(mkSR %s %s)" % tuple(_vm_str(x) for x in r.split("?", 1)) for r in ([] if o[1] == "_" else o[1].split("|"))], "sreq")
        return "%s = Some (mkST %s %s %s)" % (call, reqs, _vm_pages(o[4], int(o[3])), o[6])
    if k == "U":
        kd, n, sch, hst, bp, bq, hdr = p[1:8]
        call = "next_request (mkCfg %s %s 0%%Z []) (mkS %s %s %s %s) %s" % (_vm_kind(kd), _vm_z(n), _vm_str(sch), _vm_str(hst), _vm_str(bp), _vm_str(bq), _vm_str(hdr))
        exp = {"NONE": "NNone", "ERRLINK": "NErrLink", "ERRRESOLVE": "NErrResolve", "UNJUDGED": "NUnjudged"}.get(o[0])
        if o[0] == "NEXT":
            exp = "NNext %s %s" % (_vm_str(o[1]), _vm_str(o[2]))
        return "%s = %s" % (call, exp)
    if k == "U0":
        kd, n, at, last = p[1:5]
        q0 = "(referrers_q0 %s)" % _vm_str(at) if kd == "R" else "(@nil N)"
        return "first_query (mkCfg %s %s 0%%Z %s) %s %s = %s" % (_vm_kind(kd), _vm_z(n), _vm_str(at), q0, _vm_str(last), _vm_str(o[0]))
    if k == "QS":
        kvs = _vm_list(["(%s, %s)" % (_vm_str(p[i]), _vm_str(p[i + 1])) for i in range(2, len(p) - 1, 2)], "(str * str)")
        return "set_query_params %s %s = %s" % (_vm_str(p[1]), kvs, _vm_str(o[0]))
    if k == "QE":
        return "(query_escape %s, query_unescape %s) = (%s, %s)" % (_vm_str(p[1]), _vm_str(p[1]), _vm_str(o[0]), "None" if o[1] == "!" else "Some %s" % _vm_str(o[1]))
    if k == "XB":
        return "consumed_index %s %s = %s" % (_vm_z(p[1]), p[2], o[0])
    if k == "RB":
        return "consumed_of %s %s %s = %s" % (_vm_z(p[1]), p[2], p[3], o[0])
    if k == "J":
        return "scan %s = %s" % (_vm_str(p[1]), "Some %s%%nat" % o[1] if o[0] == "OK" else "None")
    if k == "RR":
        call = "resolve_ref (mkS %s %s %s %s) %s" % tuple(_vm_str(x) for x in p[1:6])
        if o[0] == "OK":
            return "%s = ROk (mkS %s %s %s %s)" % ((call,) + tuple(_vm_str(x) for x in o[1:5]))
        return "%s = %s" % (call, {"ERR": "RErr", "UNJUDGED": "RUnjudged"}[o[0]])
    if k == "P":
        state = {"U": "RUnknown", "S": "RSupported", "N": "RUnsupported"}
        rs = "(mkResp %s %s %s true 0 0 [] [] [] [])" % (p[2], _vm_bool(p[3]), _vm_str(p[4]))
        ans = {"1": "Some true", "0": "Some false", "E": "None"}[o[0]]
        return "ping %s %s = (%s, %s)" % (state[p[1]], rs, state[o[1]], ans)
    if k == "X":
        limit, found, size, its, at, cbf = p[1:7]
        cb = "(fun k : nat => Nat.eqb k %d)" % int(cbf) if int(cbf) >= 0 else "(fun _ : nat => false)"
        return "tag_schema %s %s %s %s %s %s = (%s, %s)" % (_vm_z(limit), _vm_bool(found), _vm_z(size), _vm_items(its), _vm_str(at), cb,
                                                          _vm_pages(o[2], int(o[1])), o[4])
    return None


def _c15_vm_sample(d, tier, coq, build, want=300):
    import os, subprocess, collections
    if tier != "thorough":
        return []
    outs = {}
    with open(os.path.join(d, "model.txt")) as f:
        for l in f:
            i, _, o = l.rstrip("\n").partition(" ")
            outs[i] = o
    # a spread over the case kinds, small cases preferred (the term is type-checked too)
    quota = {"C": 80, "W": 60, "S": 45, "L": 10, "F": 6, "FR": 6, "Z": 6, "O": 10, "X": 10, "P": 8,
             "U": 40, "U0": 10, "QS": 15, "QE": 10, "RR": 40, "CS": 40, "J": 30, "RB": 30, "XB": 10, "CA": 30}
    got = collections.Counter()
    stride = collections.Counter()
    total = collections.Counter()
    goals = []
    with open(os.path.join(d, "cases.txt")) as f:
        for l in f:
            c = l.split(" ", 2)
            if len(c) > 1 and len(l) <= 6000:
                total[c[1]] += 1
    with open(os.path.join(d, "cases.txt")) as f:
        for l in f:
            i, _, c = l.rstrip("\n").partition(" ")
            k = c.split(" ", 1)[0]
            if k not in quota or got[k] >= quota[k] or len(l) > 6000 or i not in outs:
                continue
            stride[k] += 1
            if (stride[k] - 1) % max(1, total[k] // quota[k]) != 0:
                continue
            if c.split(" ")[-1].startswith("J"):
                c = c[:c.rindex(" ")]
            g = _vm_goal(c, outs[i])
            if g:
                got[k] += 1
                goals.append((i, g))
    vdir = os.path.join(build, "vm")
    os.makedirs(vdir, exist_ok=True)
    vf = os.path.join(vdir, "C15_cases.v")

    def compile_goals(gs):
        with open(vf, "w") as f:
            f.write(_VM_PRELUDE)
            for i, g in gs:
                f.write("\n(* %s *)\nGoal %s.\nProof. vm_compute. reflexivity. Qed.\n" % (i, g))
        return subprocess.run(["coqc", "-R", coq, "Oras", "-w", "-notation-overridden", vf], cwd=vdir, timeout=1500,
                              stdout=subprocess.PIPE, stderr=subprocess.STDOUT, text=True)
    try:
        p = compile_goals(goals)
    except subprocess.TimeoutExpired:
        # a loaded machine is not a disagreement: confirm on a fresh, smaller run before reporting anything
        goals = goals[::5]
        try:
            p = compile_goals(goals)
        except subprocess.TimeoutExpired:
            return ["vm_compute re-evaluation timed out twice (%d goals): not judged" % len(goals)]
        want = len(goals) * 2
    with open(os.path.join(d, "vm_sample.txt"), "w") as f:
        f.write("%d goals %s rc=%d\n%s" % (len(goals), dict(got), p.returncode, p.stdout[-3000:]))
    if p.returncode != 0:
        return ["vm_compute re-evaluation of %d sampled cases inside Coq disagrees with the extracted runner (or does not type-check): %s"
                % (len(goals), p.stdout[-1200:])]
    if len(goals) < want // 2:
        return ["vm_compute sample too small: %d goals" % len(goals)]
    return []


CONFIG = {
    "properties_file": "Properties/C15.v",
    "proof_files": ["Base/Prelude.v", "Proofs/Paging.v", "Proofs/PagingUrl.v", "Proofs/PagingFacts.v", "Proofs/PagingJson.v"],
    "model_files": ["Generated/GC15.v", "Model/Paging.v", "Model/PagingUrl.v", "Model/PagingJson.v"],
    "extract": "XC15.v",
    "ml_main": "c15_main.ml",
    "harness": "c15",
    "case_to_replay": _c15_case,
    "post_model": _c15_vm_sample,
    "timeout_search": 1500,
    "assumptions": [
        "net/url is MODELLED on byte strings for a judged subset (Model/PagingUrl.v: Parse of a reference incl. scheme detection, first-segment-colon and bad-escape errors, host[:port] authorities, ResolveReference with Go 1.26 dot-segment removal, re-parse by http.NewRequest; fragments, user info, valid %-escapes or exotic bytes in a path, non-ASCII, opaque URLs are UNJUDGED) and compared with the real client on every followed link (raw path + raw query, byte for byte) and on random references; the association-list theorems (C15_exactly_once ...) still quantify over an abstract `render`/`resolve`, connected to the string level by C15_next_request_link_forms (forms </p?q>, <?q>, <http://h/p?q>, <//h/p?q>) and C15_next_request_dot_relative (<./seg?q>), C15_step_simulation and the all-histories refinement C15_string_loop_refines (hypotheses: the server answers indistinguishable requests alike; net/url-as-modelled and the abstract resolver agree on the links served); since the second extension round qset appends a replaced parameter at the end exactly like setQueryParams, so the typed reading (n as a number, lenient url.Values parse) of the raw request is literally the model's request (C15_request_query_exact), and C15_string_loop_exact gives the all-histories refinement WITHOUT the 'answers alike' hypothesis for any registry that is fed that typed reading (it may echo every parameter into its links); the concrete theorems C15_exactly_once_concrete_forms / C15_filter_concrete_forms let the registry choose per answer among the five link forms </p?q>, <?q>, <http://host/p?q>, <//host/p?q>, <./last?q>",
        "encoding/json: WHERE the first value of the stream ends is modelled (Model/PagingJson.v scan: brackets counted outside strings, leading white space) and compared with json.Decoder.InputOffset on generated valid object/array documents, all their prefixes, documents followed by more input, and on the bodies of the listings themselves (the declared document length = the decoder's = the scanner's); the self-delimiting property is a THEOREM of that scanner (C15_json_self_delimiting, C15_limit_bytes_scan: behind limitReader a document is decoded completely when it fits, not at all otherwise); the grammar inside the brackets and the mapping to Go values (which items a document decodes to, `null`, ill-typed fields) stay declared by the generator (well-formed?, decoded items)",
        "queries: the association-list model (url.Values.Set = replace) is refined by the string model of setQueryParams / QueryEscape / QueryUnescape (C15_set_query_params_verbatim, _read, C15_request_query_refines: for every key a registry looks up it reads what the association-list request says; lookup = first match of a lenient parse, as fakereg.ParseQueryLenient); bytes are < 256; the pre-fix lossy url.Values round trip is kept as mk_request_prefix (C15_lossy_query_refuted)",
        "the registry model's meaning of `last`: items after the entry named last; an unknown name is placed before the first greater item (= all greater items on a sorted registry, C15_last_on_sorted_registry); item names are non-empty and distinct",
        "a legal registry: page window of length in [1, min(cap, n)] chosen freely per request, of which it shows any subset (`vis`: entries it does not show give empty pages with a link); Link iff items remain after the window; its continuation is either `last=<last item of the window>` or an opaque cursor under another key (CToken key salt, key different from n/last/artifactType, value salt++name; such a link carries no `last`); the link may point to another path (`npath`) and may be answered after a redirect hop; it does not change artifactType and filters whenever it announces filtering (header or annotation, comma separated list)",
        "http transport, auth client and context cancellation are outside the model; Repository.Referrers' capability detection (unknown/supported/unsupported, fallback to the tag schema, state set once) is modelled (referrers_wrap, C15_referrers_capability) on top of the API loop and the tag-schema path; the tag-schema path is modelled at the level (tag found?, index size, listed referrers): limitSize + filterReferrers (C15_tag_schema), manifest fetch / digest verification are C13/C05 matters; pingReferrers is modelled on one response (C15_ping_agrees)",
        "Link: only the first header line and its first <...> are read (model = code); link-values/lines AFTER the next link are covered by the theorems (trailer) and generated; a link-value of another relation BEFORE the next link is the known finding link-rel-ignored (C15_link_rel_first_refuted), generated in a separate stream whose failures carry only that signature",
        "Content-Type of a referrers response is compared verbatim with ocispec.MediaTypeImageIndex (hand-copied constant of the pinned image-spec dependency): parameters or another spelling count as 'no referrers API' (C15_content_type_exact) -- modelled as the code behaves, generated as a disturbance",
        "never over-read: the bytes a decoded answer costs are MODELLED (Model/PagingJson.v consumed_of: limitReader, then json.Decoder's refills 512, 1536, 3584 ... until the value is complete or EOF) and compared with a counting body on every decoded listing answer (RB lines, incl. the 4 MiB default); C15_bytes_consumed: never more than MaxMetadataBytes, never more than the body; the independent oracle (BytesRead <= limit) stays on every 200 answer incl. the Referrers wrapper and the index GET of the tag-schema fallback (its bytes: consumed_index, C15_bytes_consumed_index, compared on the tag-schema stream); error bodies (non-200) are read by errutil under its own 8 KiB limit and are not judged",
        "calculateDigestFromResponse (manifest GET without Docker-Content-Digest) is modelled (digest_probe, C15_digest_probe: Content-Length over the limit refused before reading, else limitReader; the theorem assumes Content-Length = body length, which the transport guarantees); its first version (limit+1 reader) is kept as digest_probe_v1 with a refuted witness, fixed finding over-read-digest-probe; content/oci: a reference in digest form can only be the content's own digest (C08 fix 2b70301), the generator checks that the digest of other content is refused and that Tags() skips digest entries",
        "the known finding link-rel-ignored is matched by mechanism: only exactly-once / next-request / spurious-error failures of a run in which some request IS the target of the rel=first link-value; every other signature in such a run is reported as itself",
        "47 syntactic facts about the mirrored Go functions (translator kind c15_srcfact: where `last` is cleared, how parseLink reads and resolves the header, setQueryParams' split/cut/unescape/escape, the error texts the harness classifies by, limitReader, the Referrers fallback condition, listTags' comparisons) are regenerated on every run and proved by reflexivity (Proofs/PagingFacts.v): an edit there breaks layer P; 27 functions are anchored",
        "registry.Tags / registry.Repositories / registry.Referrers / Repository.Predecessors (collect a whole listing) are modelled (collect_all, C15_collect_all, C15_collect_all_referrers) and run on a quarter of the scenarios (CA lines + oracle)",
        "every call into the implementation runs under a 20 s watchdog: a wedge is the oracle failure `hang` with the scenario as replay",
        "every input stream has a coverage floor (harness exits non-zero = broken layer R when a stream is nearly empty)",
        "content/oci listTags is modelled on the resolver map as a list of (reference, digest of its descriptor) in any order; Go string order = byte-wise lexicographic order",
    ],
    "level_text": "Coq theorems for all item lists, split oracles, caps, page sizes, values of last, Link renderings and filter announcements: Tags/Repositories/Referrers deliver exactly the registry's suffix after last (resp. the referrers of the requested artifact type), once, in order, within |suffix|+1 requests; a failing callback truncates the listing at that invocation with its error; pages come only from documents that fit MaxMetadataBytes (<= 0 = regenerated default), at most that many bytes pass the reader; Repository.Referrers takes its callback arguments from exactly one of the API and the tag schema, returns a callback error unchanged and sets the capability once (after fix a06e319); the referrers tag-schema fallback rejects an index over the limit and otherwise delivers the filtered referrers of the cleaned index (no empty entry, no descriptor twice) in one non-empty page; content/oci listTags is the sorted set of non-digest references greater than last for every map order. Model tied to registry/remote and content/oci by a differential run against an in-process fake registry (PRNG split oracle, five Link forms, malformed stream) and an independent oracle",
    "level_note": "C15_exactly_once_concrete: for registries writing </path?escaped query> links, exactly-once (Tags/Repositories, any page size, any cursor kind, hidden entries, extra link parameters) is proved with net/url AS MODELLED (resolve_ref) and no hypothesis on rendering/resolution left; the same for Referrers (C15_filter_concrete), and for registries choosing per answer among the five forms </p?q>, <?q>, <http://host/p?q>, <//host/p?q>, <./last?q> (C15_exactly_once_concrete_forms, C15_filter_concrete_forms); for links to another path or host and redirect hops the abstract render/resolve hypotheses remain, connected by C15_next_request_link_forms / _dot_relative / C15_step_simulation; the refinement loop_s -> loop needs servers whose answers depend on a request only through key lookups (Hserve), which excludes registries echoing parameters verbatim in another order (covered by the correspondence only). string level (net/url subset, setQueryParams, escaping, loop_s) modelled, corresponded on raw requests and proved to refine the association-list loop; the composition with the registry theorems is via the hypotheses of C15_exactly_once_string_loop (server coherence, link coherence), discharged per step for four link forms (C15_step_simulation). the clause `no more than MaxMetadataBytes is read` is a theorem about a model of limitReader + decoder buffering that is compared with the real byte count on every decoded answer (tag-schema index reads and error bodies: oracle only / not judged). net/url resolution and encoding/json are hypotheses of the theorems (checked by the harness on every followed link / around the limit); transport, auth and manifest fetching of the tag-schema fallback are not modelled; Link relation types are ignored by the code (known finding link-rel-ignored)",
    "technique": "machine-checked proof in Coq (induction over the page loop against a nondeterministic registry; prefix/refinement for callback failure; sorting) + translator-regenerated constants + model/implementation correspondence against harness/fakereg",
    "explanation": "theorems over all lists/splits/links about the model of the page loops, parseLink, limitReader, filterReferrers and listTags; constants regenerated from registry/remote; model and real client run on the same fake-registry scripts (requests, callback arguments, outcome compared), the fake registry's pages compared with the registry model; independent exactly-once / stop-on-error / over-read / truncation / sortedness oracle",
}
