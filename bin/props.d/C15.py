"""C15 configuration (loaded by bin/props.py; `unhex` is provided)."""


def _c15_case(c):
    # A model/implementation mismatch on a listing is searched for by re-running the generator
    # (bin/check search step b); the direct cases can be rebuilt from their model line.
    import json as _json
    p = c.split(" ")
    if p[0] in ("C", "W") and p[-1].startswith("J"):
        return _json.loads(bytes.fromhex(p[-1][1:]).decode("utf-8"))
    if p[0] == "L":
        return {"op": "link", "cmp": p[1], "header": unhex(p[2])}
    if p[0] == "F":
        return {"op": "filter", "applied": unhex(p[1]), "requested": unhex(p[2])}
    if p[0] == "B":
        return {"op": "body", "limit": p[1], "doclen": p[3], "pad": str(int(p[4]) - int(p[3]))}
    if p[0] == "Z":
        return {"op": "size", "limit": p[1], "size": p[2]}
    return {"raw": c}


CONFIG = {
    "properties_file": "Properties/C15.v",
    "proof_files": ["Base/Prelude.v", "Proofs/Paging.v"],
    "model_files": ["Generated/GC15.v", "Model/Paging.v"],
    "extract": "XC15.v",
    "ml_main": "c15_main.ml",
    "harness": "c15",
    "case_to_replay": _c15_case,
    "timeout_search": 1500,
    "assumptions": [
        "net/url (URL.Parse reference resolution, URL.String, Query/Encode escaping) is abstract: the theorems quantify over any Link rendering `render` and resolver `resolve` such that resolving the registry's link text against the request URL yields the intended target (same path; query = cursor `last`, the registry's extra parameters, the request's other parameters); the harness checks this on every followed link for absolute, absolute-path, path-relative, query-only and scheme-relative forms with escaped values",
        "encoding/json is abstract: a response is (well-formed?, document length, body length, decoded items); C15_limit_bytes assumes the stream decoder is self-delimiting on the document (decoding stops at its end; no proper prefix is accepted) -- the harness checks it with documents of limit-1, limit, limit+1 bytes incl. the 4 MiB default",
        "queries are association lists key -> value (n numeric); url.Values.Set = replace; the order of different keys is not modelled (compared key-sorted)",
        "the registry model's meaning of `last`: items after the entry named last; an unknown name is placed before the first greater item (= all greater items on a sorted registry, C15_last_on_sorted_registry); item names are non-empty and distinct",
        "a legal registry: page length in [1, min(cap, n)] chosen freely per request, Link iff items remain, link cursor = last item of the unfiltered page, link does not change artifactType, it filters whenever it announces filtering (header or annotation, comma separated list)",
        "http transport, auth client, context cancellation and the Referrers capability state machine are outside the model (the harness fixes the capability: supported for the API path, unsupported for the tag-schema path); the tag-schema path is modelled at the level (tag found?, index size, listed referrers): limitSize + filterReferrers (C15_tag_schema), manifest fetch / digest verification are C13/C05 matters",
        "content/oci listTags is modelled on the resolver map as a list of (reference, digest of its descriptor) in any order; Go string order = byte-wise lexicographic order",
    ],
    "level_text": "Coq theorems for all item lists, split oracles, caps, page sizes, values of last, Link renderings and filter announcements: Tags/Repositories/Referrers deliver exactly the registry's suffix after last (resp. the referrers of the requested artifact type), once, in order, within |suffix|+1 requests; a failing callback truncates the listing at that invocation with its error; pages come only from documents that fit MaxMetadataBytes (<= 0 = regenerated default), at most that many bytes pass the reader; the referrers tag-schema fallback rejects an index over the limit and otherwise delivers the filtered referrers in one non-empty page; content/oci listTags is the sorted set of non-digest references greater than last for every map order. Model tied to registry/remote and content/oci by a differential run against an in-process fake registry (PRNG split oracle, five Link forms, malformed stream) and an independent oracle",
    "level_note": "net/url resolution and encoding/json are hypotheses of the theorems (checked by the harness on every followed link / around the limit); transport, auth, capability detection and manifest fetching of the tag-schema fallback are not modelled",
    "technique": "machine-checked proof in Coq (induction over the page loop against a nondeterministic registry; prefix/refinement for callback failure; sorting) + translator-regenerated constants + model/implementation correspondence against harness/fakereg",
    "explanation": "theorems over all lists/splits/links about the model of the page loops, parseLink, limitReader, filterReferrers and listTags; constants regenerated from registry/remote; model and real client run on the same fake-registry scripts (requests, callback arguments, outcome compared), the fake registry's pages compared with the registry model; independent exactly-once / stop-on-error / over-read / truncation / sortedness oracle",
}
