"""C15 configuration (loaded by bin/props.py; `unhex` is provided)."""


def _c15_case(c):
    # model/implementation mismatches are re-run through the whole generator (search); the raw line is kept
    return {"raw": c}


CONFIG = {
    "properties_file": "Properties/C15.v",
    "proof_files": ["Base/Prelude.v", "Proofs/Paging.v"],
    "model_files": ["Generated/GC15.v", "Model/Paging.v"],
    "extract": "XC15.v",
    "ml_main": "c15_main.ml",
    "harness": "c15",
    "case_to_replay": _c15_case,
    "timeout_search": 1500,
    "assumptions": [],
    "level_text": "",
    "level_note": "",
    "technique": "machine-checked proof in Coq + model/implementation correspondence",
    "explanation": "",
}
