"""C13 configuration (loaded by bin/props.py)."""


def _c13_case(c):
    # the case line is the complete input of a history / seek case
    return {"line": c}


CONFIG = {
    "properties_file": "Properties/C13.v",
    "proof_files": ["Base/Prelude.v", "Base/Regex.v", "Proofs/Reference.v", "Proofs/RemoteClient.v",
                    "Proofs/RemoteSeek.v", "Proofs/RemoteRefine.v", "Proofs/Location.v"],
    "model_files": ["Generated/GC20.v", "Generated/GC13.v", "Model/Reference.v", "Model/Registry.v",
                    "Model/RemoteClient.v", "Model/RemoteSpec.v", "Model/Location.v"],
    "extract": "XC13.v",
    "ml_main": "c13_main.ml",
    "harness": "c13",
    "case_to_replay": _c13_case,
    "timeout_thorough": 3600,
    "assumptions": [
        "the hash function is a parameter H of the models (SHA-256 in the harness); the refinement theorem only needs that H yields well-formed digests (no collision-freeness): the body digest itself is checked by the consumer (C05)",
        "mime.ParseMediaType is a parameter parse_mt (None = error); refinement assumes it is the identity on the media types the caller uses and on application/octet-stream",
        "JSON decoding of a manifest's subject is a parameter subject_of (None = undecodable); refinement covers decodable manifests whose subject, if any, is pushed to a registry with the Referrers API (OCI-Subject), and Predecessors over that API (single page; pagination: C15); the client-side referrers tag schema is C14 (model prints UNJUDGED there)",
        "Repository.ParseReference is the C20 model repo_parse (proved in C20); the correspondence uses references without '/' so that net/url registry validation is not involved",
        "net/http, net/url (Location resolution, the ':443' Location repair, query encoding), redirects, Warning headers, chunked upload and the auth client are modelled, not verified: the client is driven through remote.Client (no sockets); the fake registry builds *http.Response values directly",
        "C13_refines_store_partial hypotheses (wf_hist): descriptors accurate for what the store holds; Resolve/FetchReference of a TAG through a HEAD request only against a registry that sends Docker-Content-Digest (known finding head-tag-no-digest-header; C13_refines_store_refuted is the witness)",
        "the distribution-spec registry is one deterministic state machine per capability profile (digest header, range, Content-Length on GET, mount, referrers); registries that validate manifest contents or convert media types on Accept are outside",
    ],
    "level_text": "Coq theorems: (1) client o registry refines a content store with tags for every history of Push/Fetch/Exists/Delete/Resolve/FetchReference/Tag/PushReference/Mount/blob Resolve/FetchReference, every capability profile, ManifestMediaTypes option and referrers state (induction over the history with a registry invariant); (2) every request emitted against ANY server is in the request grammar `allowed`; (3) against ANY server a successful call implies a response consistent with the request (digest header, Content-Length, Content-Type, status, Location), plus the single-field-corruption form for Fetch; (4) readSeekCloser refines an in-memory reader for every Read/Seek script and emits Range bytes=off-(size-1) exactly when the offset changes inside the blob; (5) Predecessors over the Referrers API returns exactly the stored manifests with that subject (inside the refinement theorem and for any registry state). Tied to the code by translator-regenerated constants/tables, a differential run of the extracted models against remote.Repository over a fake registry whose complete request/response log is replayed through the extracted Registry.v, and an independent oracle",
    "level_note": "refinement theorem is _partial: excludes resolving a tag by HEAD without Docker-Content-Digest (known finding, refuted witness proved), manifests with subjects on registries without the Referrers API / referrers state 'unsupported' (tag schema: C14), pagination (C15), inaccurate caller descriptors; net/http, net/url, mime, JSON are parameters / not modelled",
    "technique": "machine-checked proof in Coq (refinement by induction over histories with a registry invariant; any-server lemmas for request grammar and response consistency; seek state-machine refinement) + translator-regenerated tables + model/implementation correspondence on full request/response traces",
    "explanation": "theorems over all histories/profiles/servers about Model/Registry.v + Model/RemoteClient.v; the extracted models are run on the same generated histories (rotating profiles, PlainHTTP, ManifestMediaTypes, referrers state, one corrupted response field, Read/Seek scripts) as registry/remote against harness/fakereg13 and compared on results and complete request/response logs; independent oracle = Go ground-truth store, distribution-spec endpoint table, must-fail table for contradicting corruptions, bytes.Reader for seeks",
}
