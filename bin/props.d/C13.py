"""C13 configuration (loaded by bin/props.py)."""


def _c13_case(c):
    return {"line": c}


CONFIG = {
    "properties_file": "Properties/C13.v",
    "proof_files": ["Base/Prelude.v", "Base/Regex.v", "Proofs/Reference.v", "Proofs/RemoteClient.v", "Proofs/RemoteSeek.v", "Proofs/RemoteRefine.v"],
    "model_files": ["Generated/GC20.v", "Generated/GC13.v", "Model/Reference.v", "Model/Registry.v", "Model/RemoteClient.v", "Model/RemoteSpec.v"],
    "extract": "XC13.v",
    "ml_main": "c13_main.ml",
    "harness": "c13",
    "case_to_replay": _c13_case,
    "assumptions": [],
    "level_text": "",
    "level_note": "",
    "technique": "",
    "explanation": "",
}
