"""C13 configuration (loaded by bin/props.py)."""


def _c13_case(c):
    # the case line is the complete input of a history / seek case
    return {"line": c}


# ---------------------------------------------------------------------------
# Thorough tier: a sample of the correspondence cases is re-evaluated INSIDE Coq with
# vm_compute and compared with what the extracted OCaml runner printed (model.txt).
# This cross-checks the extraction and the OCaml driver, not the implementation.

def _s(h):
    if h == "-" or h == "":
        return "(@nil N)"
    return "[" + "; ".join(str(x) for x in bytes.fromhex(h)) + "]"


def _desc3(mt, dg, sz):
    return "(mkDesc %s %s %s)" % (_s(mt), _s(dg), sz)


def _desc_slash(t):
    a, b_, c = t.split("/")
    return _desc3(a, b_, c)


def _result(tok):
    if tok == "ok":
        return "ROk"
    if tok.startswith("bool:"):
        return "(RBool %s)" % ("true" if tok[5:] == "1" else "false")
    if tok.startswith("desc:"):
        return "(RDesc %s)" % _desc_slash(tok[5:])
    if tok.startswith("bytes:"):
        return "(RBytes %s)" % _s(tok[6:])
    if tok.startswith("db:"):
        d, c = tok[3:].split(",")
        return "(RDescBytes %s %s)" % (_desc_slash(d), _s(c))
    if tok.startswith("descs:"):
        l = tok[6:]
        if l == "-":
            return "(RDescs [])"
        if "+" in l:
            return None        # printed sorted; the order inside Coq may differ
        return "(RDescs [%s])" % _desc_slash(l)
    return {"err:nf": "(RErr ENotFound)", "err:ref": "(RErr EInvalidRef)", "err:other": "(RErr EOther)"}.get(tok)


def _note_ref(refs, pool, a, ci):
    sj = pool[ci][2]
    if sj not in ("N", "-"):
        l = refs.setdefault(sj, [])
        if a not in l:
            l.append(a)


def _vm_history(t, out):
    """t = tokens after 'H'; out = model line.  Returns a Coq proposition or None."""
    it = iter(t)
    nx = lambda: next(it)
    main, other, pb, _plain, rst = nx(), nx(), nx(), nx(), nx()
    import re as _re
    _m = _re.search(r"m([0-9]+)$", _plain)
    limit = "(eff_limit %s)" % (_m.group(1) if _m else "0")
    _g = _re.search(r"g([01])", _plain)
    skip_gc = "true" if _g and _g.group(1) == "1" else "false"
    refs = {}     # subject -> distinct descriptors (hex mt, hex digest, size) of pushed manifests with that subject
    mts = [nx() for _ in range(int(nx()))]
    k = nx()
    kor = "None"
    if k != "-":
        f = nx()
        c = {"dig-garbage": "KDigGarbage", "dig-drop": "KDigDrop", "len-inc": "KLenInc", "len-drop": "KLenDrop",
             "type-other": "KTypeOther", "type-garbage": "KTypeGarbage", "type-drop": "KTypeDrop", "loc-drop": "KLocDrop",
             "name-unknown": "KNameUnknown"}.get(f)
        if f == "dig-other":
            c = "(KDigOther %s)" % _s(nx())
        if f == "status":
            c = "(KStatus %s)" % nx()
        kor = "(Some (%s, %s))" % (k, c)
    pool = []
    for _ in range(int(nx())):
        pool.append((nx(), nx(), nx()))
    others = [int(nx()) for _ in range(int(nx()))]
    ops = []
    d3 = lambda: _desc3(nx(), nx(), nx())
    for _ in range(int(nx())):
        o = nx()
        if o == "push":
            a = (nx(), nx(), nx()); ci = int(nx())
            _note_ref(refs, pool, a, ci)
            ops.append("OPush %s %s" % (_desc3(*a), _s(pool[ci][0])))
        elif o in ("fetch", "exists", "delete", "preds"):
            ops.append("%s %s" % ({"fetch": "OFetch", "exists": "OExists", "delete": "ODelete", "preds": "OPreds"}[o], d3()))
        elif o in ("resolve", "fetchref", "bresolve", "bfetchref"):
            ops.append("%s %s" % ({"resolve": "OResolve", "fetchref": "OFetchRef", "bresolve": "OBlobResolve", "bfetchref": "OBlobFetchRef"}[o], _s(nx())))
        elif o == "tag":
            d = d3(); ops.append("OTag %s %s" % (d, _s(nx())))
        elif o == "pushref":
            a = (nx(), nx(), nx()); ci = int(nx())
            _note_ref(refs, pool, a, ci)
            ops.append("OPushRef %s %s %s" % (_desc3(*a), _s(pool[ci][0]), _s(nx())))
        elif o == "mount":
            d = d3(); g = nx()
            ops.append("OMount %s %s" % (d, "None" if g == "-" else "(Some %s)" % _s(pool[int(g)][0])))
        else:
            return None
    # H and subject_of as tables over the pool (later entries win, as in the OCaml driver)
    hfun, sfun = "(b \"sha256:unknown\")", "(Some None)"
    for c, dg, sj in pool:
        hfun = "(if str_eqb c %s then %s else %s)" % (_s(c), _s(dg), hfun)
        sv = "None" if sj == "N" else ("(Some None)" if sj == "-" else "(Some (Some %s))" % _desc_slash(sj))
        sfun = "(if str_eqb c %s then %s else %s)" % (_s(c), sv, sfun)
    # index_of: a decodable pool item has no "manifests"; the referrers indexes the client itself renders
    # (every ordering of every subset of the pushed referrers of one subject) are rendered and hashed HERE,
    # independently of gen_index / the OCaml driver's parser
    ifun = "(Some (@nil desc))"
    for c, dg, sj in pool:
        ifun = "(if str_eqb c %s then %s else %s)" % (_s(c), "None" if sj == "N" else "(Some (@nil desc))", ifun)
    import itertools, hashlib
    for sj, ds in refs.items():
        if len(ds) > 3:
            return None
        for k in range(len(ds) + 1):
            for perm in itertools.permutations(ds, k):
                body = (b'{"schemaVersion":2,"mediaType":"application/vnd.oci.image.index.v1+json","manifests":['
                        + b",".join(b'{"mediaType":"%s","digest":"%s","size":%d}' % (bytes.fromhex(m), bytes.fromhex(g), int(z))
                                    for m, g, z in perm) + b"]}")
                bh = _s(body.hex())
                hfun = "(if str_eqb c %s then %s else %s)" % (bh, _s(("sha256:" + hashlib.sha256(body).hexdigest()).encode().hex()), hfun)
                ifun = "(if str_eqb c %s then Some %s else %s)" % (
                    bh, "[" + "; ".join(_desc3(*x) for x in perm) + "]" if perm else "(@nil desc)", ifun)
    parts = out.split(" | ")
    if not parts[0].startswith("notallowed=0") or len(parts) - 1 != len(ops):
        return None
    exp = []
    for p_ in parts[1:]:
        res, _, tr = p_.partition(" ")
        r = _result(res)
        if r is None:
            return None
        exp.append("(%d%%nat, %s)" % (0 if tr == "-" else tr.count(";") + 1, r))
    bit = lambda i: "true" if pb[i] == "1" else "false"
    prof = "(mkProfile %s %s %s %s %s)" % tuple(bit(i) for i in range(5))
    call = ("(run_history (fun c => %s) vm_parse_mt (fun c => %s) %s %s %s %s %s (fun c => %s) %s %s %s %s %s)"
            % (hfun, sfun, _s(main), _s(other), "[" + "; ".join(_s(m) for m in mts) + "]" if mts else "(@nil str)", limit,
               skip_gc, ifun, prof, kor,
               "[" + "; ".join("(%s, %s)" % (_s(pool[i][1]), _s(pool[i][0])) for i in others) + "]" if others else "(@nil (str * str))",
               ["RSUnknown", "RSSupported", "RSUnsupported"][int(rst)],
               "[" + "; ".join(ops) + "]"))
    return ("let out := snd %s in\n  map (fun tr => (length (fst tr), snd tr)) out = [%s] /\\\n"
            "  forallb (fun tr => forallb (fun qr => allowed (fst qr)) (fst tr)) out = true" % (call, "; ".join(exp)))


def _vm_seek(t, out):
    content = _s(t[0])
    pb = t[1]
    ranged = pb[1] == "1"
    bit = lambda i: "true" if pb[i] == "1" else "false"
    prof = "(mkProfile %s %s %s %s %s)" % tuple(bit(i) for i in range(5))
    rest = t[3:]
    kor = "None"
    if rest[0] == "-":
        rest = rest[1:]
    else:
        j, f = rest[0], rest[1]
        rest = rest[2:]
        c = {"dig-garbage": "KDigGarbage", "dig-drop": "KDigDrop", "len-inc": "KLenInc", "len-drop": "KLenDrop",
             "type-other": "KTypeOther", "type-garbage": "KTypeGarbage", "type-drop": "KTypeDrop", "loc-drop": "KLocDrop",
             "name-unknown": "KNameUnknown"}.get(f)
        if f == "dig-other":
            c = "(KDigOther %s)" % _s(rest[0]); rest = rest[1:]
        if f == "status":
            c = "(KStatus %s)" % rest[0]; rest = rest[1:]
        kor = "(Some (%s%%nat, %s))" % (j, c)
    t = [t[0]] + rest
    head, _, out = out.partition(" | ")
    if head != ("seeker" if ranged else "noseeker"):
        return "False"
    nm = int(t[1])
    ms = [(t[2 + 2 * k], t[3 + 2 * k]) for k in range(nm)]
    modes = "(fun _ => mkBm 0 false)"
    if nm:
        modes = "(fun i => nth (Nat.modulo i %d) [%s] (mkBm 0 false))" % (
            nm, "; ".join("mkBm %s %s" % (c, "true" if e == "1" else "false") for c, e in ms))
    i = 2 + 2 * nm
    n = int(t[i]); i += 1
    ops = []
    for _ in range(n):
        if t[i] == "r":
            ops.append("SRead %s" % t[i + 1]); i += 2
        elif t[i] == "s":
            if ranged:
                ops.append("SSeek (%s)%%Z %s" % (t[i + 1], ["SeekStart", "SeekCurrent", "SeekEnd"][int(t[i + 2])]))
            i += 3
        else:
            if ranged:
                ops.append("SClose")
            i += 1
    exp = []
    for p_ in ([] if out == "" else out.split(" | ")):
        rq, _, o = p_.partition(":")
        rqs = "(@nil (N * N))" if rq == "-" else "[" + "; ".join("(%s, %s)" % tuple(x.split("-")) for x in rq.split("+")) + "]"
        if o.startswith("data:"):
            _, c, e = o.split(":")
            ov = "SData %s %s" % (_s(c), "true" if e == "eof" else "false")
        elif o.startswith("pos:"):
            ov = "SPos %s" % o[4:]
        else:
            ov = {"err": "SErr", "closed": "SClosed"}[o]
        exp.append("(%s, %s)" % (rqs, ov))
    return "rsc_run %s (range_srv %s (@nil N) %s %s) (rsc_open %s (len %s)) [%s] = [%s]" % (
        modes, prof, content, kor, content, content, "; ".join(ops), "; ".join(exp))


def _vm_gram(t, out):
    m, repo, ek, arg, dg, md, mf, ct, cl, ra, rb, body = t
    opt = lambda x: "None" if x == "-" else ("(Some (@nil N))" if x == "~" else "(Some %s)" % _s(x))
    ep = {"blob": "EBlob %s" % _s(arg), "man": "EManifest %s" % _s(arg), "up": "EUploads", "refs": "EReferrers %s" % _s(arg)}.get(ek)
    if ek == "sess":
        ep = "ESession %s" % arg
    un = lambda x: "(@nil N)" if x in ("-", "~") else _s(x)
    mount = "None" if md == "-" else "(Some (%s, %s))" % (un(md), un(mf))
    q = "(mkReq %s %s (%s) %s %s None %s %s %s %s)" % (
        m, _s(repo), ep, opt(dg), mount, opt(ct), "None" if cl == "-" else "(Some %s)" % cl,
        "None" if ra == "-" else "(Some (%s, %s))" % (ra, rb), _s(body))
    return "allowed %s = %s" % (q, "true" if out == "allowed=1" else "false")


def _vm_loc(t, out):
    exp = "None" if out == "UNJUDGED" else "Some %s" % _s(out[4:])
    return "put_url_str %s %s %s %s %s = %s" % (_s(t[0]), _s(t[1]), _s(t[2]), _s(t[3]), _s(t[4]), exp)


_VM_PRELUDE = """From Oras Require Import Base.Prelude Base.Regex Model.Reference Model.Registry Model.RemoteClient Model.Location.
Definition vm_parse_mt (s : str) : option str :=
  match s with [] => None | _ => if str_eqb (firstn 7 s) (b "garbage") then None else Some s end.
"""


def _c13_vm_sample(d, tier, coq, build):
    import os, subprocess, collections
    if tier != "thorough":
        return []
    outs = {}
    with open(os.path.join(d, "model.txt")) as f:
        for l in f:
            i, _, o = l.rstrip("\n").partition(" ")
            outs[i] = o
    quota = {"H": 70, "S": 120, "A": 120, "U": 80}
    maxlen = {"H": 5000, "S": 500, "A": 2000, "U": 2000}
    total, got, stride, goals = collections.Counter(), collections.Counter(), collections.Counter(), []
    with open(os.path.join(d, "cases.txt")) as f:
        for l in f:
            c = l.split(" ", 2)
            if len(c) > 1 and c[1] in quota and len(l) <= maxlen[c[1]]:
                total[c[1]] += 1
    with open(os.path.join(d, "cases.txt")) as f:
        for l in f:
            i, _, c = l.rstrip("\n").partition(" ")
            t = c.split(" ")
            k = t[0]
            if k not in quota or got[k] >= quota[k] or len(l) > maxlen[k] or i not in outs:
                continue
            stride[k] += 1
            if (stride[k] - 1) % max(1, total[k] // quota[k]) != 0:
                continue
            o = outs[i]
            if k != "U" and o.startswith("UNJUDGED"):
                continue
            try:
                g = {"H": _vm_history, "S": _vm_seek, "A": _vm_gram, "U": _vm_loc}[k](t[1:], o)
            except Exception:
                g = None
            if g:
                got[k] += 1
                goals.append((i, g))
    vdir = os.path.join(build, "vm")
    os.makedirs(vdir, exist_ok=True)
    vf = os.path.join(vdir, "C13_cases.v")
    with open(vf, "w") as f:
        f.write(_VM_PRELUDE)
        for i, g in goals:
            f.write("\n(* %s *)\nGoal %s.\nProof. vm_compute. repeat split; reflexivity. Qed.\n" % (i, g))
    p = subprocess.run(["coqc", "-R", coq, "Oras", "-w", "-notation-overridden", vf], cwd=vdir, timeout=1800,
                       stdout=subprocess.PIPE, stderr=subprocess.STDOUT, text=True)
    with open(os.path.join(d, "vm_sample.txt"), "w") as f:
        f.write("%d goals %s rc=%d\n%s" % (len(goals), dict(got), p.returncode, p.stdout[-3000:]))
    if p.returncode != 0:
        return ["vm_compute re-evaluation of %d sampled cases inside Coq disagrees with the extracted runner (or does not type-check): %s"
                % (len(goals), p.stdout[-1200:])]
    if len(goals) < 150:
        return ["vm_compute sample too small: %d goals %s" % (len(goals), dict(got))]
    return []


CONFIG = {
    "properties_file": "Properties/C13.v",
    "proof_files": ["Base/Prelude.v", "Base/Regex.v", "Proofs/Reference.v", "Proofs/RemoteClient.v",
                    "Proofs/RemoteSeek.v", "Proofs/RemoteRefine.v", "Proofs/Location.v", "Proofs/Paging.v", "Proofs/RemotePaged.v",
                    "Proofs/RefOps.v", "Proofs/RefURL.v", "Proofs/RemoteURL.v"],   # RefOps/RefURL: C20's URL theorems, composed in RemoteURL.v
    "model_files": ["Generated/GC20.v", "Generated/GC13.v", "Generated/GC15.v", "Model/Paging.v", "Model/Reference.v", "Model/RefOps.v", "Model/Registry.v",
                    "Model/RemoteClient.v", "Model/RemoteSpec.v", "Model/Location.v"],
    "extract": "XC13.v",
    "ml_main": "c13_main.ml",
    "harness": "c13",
    "case_to_replay": _c13_case,
    "post_model": _c13_vm_sample,
    "also_translate": ["C20", "C15"],   # Model/Reference.v (C20) and Model/Paging.v (C15) are imported
    "timeout_thorough": 3600,
    "assumptions": [
        "the hash function is a parameter H of the models (SHA-256 in the harness); the refinement theorem only needs that H yields well-formed digests (no collision-freeness): the body digest itself is checked by the consumer (C05); only sha256 digests are generated",
        "mime.ParseMediaType is a parameter parse_mt : str -> option str (None = error); refinement assumes it is the identity on the media types the caller uses and on application/octet-stream -- media types mime would rewrite (upper case, parameters) are outside the theorems and the generator (audit F9/F11: generateBlobDescriptor ignores mime's error, so a Content-Type like 'text/plain; a' yields 'text/plain' in the code and octet-stream in the model; not generated)",
        "JSON decoding of a manifest's subject is ONE parameter subject_of of the bytes (None = undecodable) standing for the four decoders of push/delete; manifests that decode for Delete but not for the typed decoders of Push are not generated; the history-level refinement theorem covers decodable manifests whose subject, if any, is pushed to a registry with the Referrers API (OCI-Subject), and Predecessors over that API (single page; pagination: composition with C15)",
        "referrers TAG schema (registry without the Referrers API; sequential -- concurrency is C14): referrersFromIndex, updateReferrersIndex, applyReferrerChanges (at most one change), generateIndex (gen_index renders the exact JSON bytes), decodeJSON (reads exactly desc.Size bytes and verifies the digest: decode_json_verifies, configured by the translator's decodeJSON_calls), the Predecessors fallback on ErrUnsupported, SkipReferrersGC (parameter skip_gc), the deletion of the old index and deleteWithIndexing's 'finish the deletion when only the clean-up of the dangling index failed' branch (update_referrers_index_x; found missing in the model in the second extension round: the generator reaches it ~once per 2000 histories, a regression case is in the corpus) are executable Gallina, compared on every request/response and judged by the oracle (generated in every profile, incl. single-field corruptions of the GET/HEAD of the referrers tag). JSON DEcoding of an index is a parameter index_of; the theorems ask index_of (gen_index l) = Some l only for the two indexes involved (the one read, the one written) -- for ALL lists it would be unsatisfiable because gen_index does not escape quotes -- and subject_of (gen_index l) = Some None; satisfiable: Example C13_push_subject_satisfiable discharges every hypothesis by computation (the OCaml driver parses the generated format with a regex; the vm_compute sample uses an independent Python rendering). Theorems: function level (updateReferrersIndex then read), every SEQUENCE of referrer changes of one subject (C13_tag_schema_changes: refines applyReferrerChanges step by step under per-step side conditions changes_ok: change effective, index decodes, fits the limit, no digest collision old/new index unless SkipReferrersGC) OPERATION level (Push/Delete of a manifest with subject, then Predecessors; any registry state satisfying minv, unique tag keys, no digest collision between the manifest and the indexes) and HISTORY level for one subject (C13_tag_schema_history: every sequence of Push/Delete of manifests with subject sj and Predecessors(sj) run by run_ops: Push/Delete succeed, each Predecessors lists the index of that moment, the referrers tag ends at what applyReferrerChanges yields; ts_hist_ok checks the local side conditions of each operation in the state it meets, like wf_hist; satisfiable: C13_tag_schema_history_satisfiable) -- histories that MIX subjects or interleave other operations with subject-carrying manifests on a registry without the API are not covered, and these theorems are NOT part of the refinement theorem against the store specification (wf_hist still confines subjects to registries with the API); artifactType/annotations of index entries are not modelled (not generated)",
        "MaxMetadataBytes is a parameter limit (default regenerated from utils.go): limitSize on pushed/deleted indexable manifests and the bound on the body hashed by generateDescriptor are modelled; the refinement theorem assumes manifests no larger than the limit (larger ones are refused, after fix ed36700 never truncated); the byte size of a generated referrers index is modelled (len (gen_index l) against the limit) but near-limit histories are generated without subjects",
        "Repository.ParseReference is the C20 model repo_parse (proved in C20); the correspondence uses references without '/' so that net/url registry validation is not involved; fully qualified references are C20's subject",
        "op_ok / wf_hist: descriptors carry a VALID digest and a media type and are accurate for what the store holds. The client does not validate target.Digest itself: Fetch(desc{Digest: '../x'}) emits a non-spec URL -- a caller inconsistency outside the property's quantifier, not generated (audit F5)",
        "`allowed` is a grammar over ABSTRACT requests (method, repository, endpoint, reference, query parameters, Content-Type/Length, Range); URL building (url.go) is modelled as request_url over C20's URL builders (scheme, host, /v2/<repo>/<kind>/<ref>, ?mount=&from= verbatim, ?digest= and ?n= through url.Values.Encode with ':' escaped) and compared on EVERY request (u= field: first 6 bytes of the SHA-256 of the URL string) in addition to the oracle's endpoint table SpecCheck on the raw http.Request; C13_request_url_exact composes it with C20_url_exact under C20's single net/url hypothesis reg_clean; artifactType filtering of referrers is not generated; Accept is not constrained; `n` on /referrers (ReferrerListPageSize > 0, an oras-go extension the distribution spec does not define) is tolerated by SpecCheck and counted",
        "loc_ok / no_status_corruption: a registry that answers a POST with another 2xx than the truth (201 for 202 or vice versa) makes the client follow it (upload to the Location it was given): a lying registry, not a contradiction the client could detect -- excluded from the theorem, generated, not judged",
        "step 2 of the upload (Model/Location.v): Location following, the ':443' repair and the digest query are modelled on plain URLs (no user info, no IPv6 literal, unreserved characters, no dot segments, distinct query keys) as string manipulation and compared with the real PUT URL; other Location forms print UNJUDGED and are judged only by the net/url-based oracle; in the history model the Location stays abstract (repository, session)",
        "Predecessors over a PAGINATING registry: composition with C15 (Model/Paging.v page loop, its hypotheses on Link rendering/resolution and document sizes are inherited); artifact type of a manifest is a parameter atype",
        "Seek: the reader is modelled against ANY server answering its Range requests (request shape/allowed, accepted 206 consistent in status and Content-Length) and, composed with the registry model of any range-capable profile, proved equal to an in-memory reader; offsets use Go's int64 arithmetic (wrap64); an invalid whence is not representable; the digest header of a 206 is not verified by the code (known finding seek-206-digest-unverified)",
        "Repository options: SkipReferrersGC and ReferrerListPageSize are model parameters (skip_gc; the ?n= of request_url), MaxMetadataBytes is `limit`; TagListPageSize and HandleWarning are rotated by the generator and must not change any modelled observable; Warning headers: oracle only",
        "response bodies: how a body hands out its bytes (short reads; the last bytes together with io.EOF or before it) is a parameter `modes` (per body) of the readSeekCloser model and of C13_seek; the fake registry rotates these behaviours over all its bodies; caller-side content readers rotate over *bytes.Reader, io.NopCloser and an opaque chunking reader whenever the descriptor's size is accurate",
        "one deterministic registry state machine per capability profile (32 profiles), starting EMPTY (no pre-existing foreign content), one sibling repository as mount source (mount from a third/non-existent/same repository is not generated); registries that validate manifest contents or convert media types on Accept are outside; the error code of an error response is observable only for 404 NAME_UNKNOWN (errutil's other codes and messages are not compared)",
        "the T layer regenerates constants and tables (header names, zeroDigest, default manifest media types, the two indexing switch lists, defaultMaxMetadataBytes), three call sequences (decodeJSON_calls: limitSize, content.ReadAll, json.Unmarshal -- a decodeJSON that decodes from the stream breaks the proof decode_json_verifies_true; referrersFromIndex_calls; calculateDigest_calls) + AST anchors on every modelled function incl. the tag-schema functions and utils.go; generateDescriptor / verifyContentDigest / generateBlobDescriptor are hand-written models tied by the correspondence (DESIGN's generated decision functions were not built; audit F10)",
        "net/http transport, redirects, chunked upload, the Authorization re-use of the upload PUT and the auth client are not modelled: the client is driven through remote.Client (no sockets)",
        "C13_requests_allowed needs H to yield well-formed digests (forall c, valid_digest (H c) = true): the DELETE of the old referrers index is addressed by the digest the client computed",
        "C13_refines_store_partial excludes Resolve/FetchReference of a TAG through a HEAD request against a registry that sends no Docker-Content-Digest (known finding head-tag-no-digest-header; tight: C13_resolve_tag_needs_header)",
    ],
    "level_text": "Coq theorems: (1) client o registry refines a content store with tags for every history of Push/Fetch/Exists/Delete/Resolve/FetchReference/Tag/PushReference/Mount/blob Resolve/FetchReference, every capability profile, ManifestMediaTypes option and referrers state (induction over the history with a registry invariant); (2) every request emitted against ANY server is in the request grammar `allowed`; (3) against ANY server a successful call implies a response consistent with the request (digest header, Content-Length, Content-Type, status, Location), plus the single-field-corruption form for Fetch; (4) readSeekCloser refines an in-memory reader for every Read/Seek script and every body behaviour (chunking, data with EOF; per body) and emits Range bytes=off-(size-1) exactly when the offset changes inside the blob; (5) Predecessors over the Referrers API returns exactly the stored manifests with that subject (inside the refinement theorem, for any registry state, and -- composed with C15 -- for any legal pagination); (6) the PUT of a two-step upload follows the Location (authority, path, query + digest) with the documented :443 repair only; (7) the digest-header hypothesis of (1) is tight in every registry state and all 32 profiles are covered (in-Coq computation); (8) referrers tag schema against a registry without the API, in any registry state: Push of a manifest with subject succeeds and Predecessors then lists old referrers ++ [pushed]; Delete removes the referrer from the index, then the manifest; every sequence of index updates of one subject, and every history of Push/Delete operations of manifests with one subject (run_ops), leaves the referrers tag at what applyReferrerChanges yields step by step and Predecessors lists it; the index a Referrers/Predecessors call accepts is the body whose digest and length the response announced (single-field corruption theorems for the referrers-tag GET); (9) the URL of every request of the grammar is exactly scheme://host/v2/<repository>/<kind>/<reference> under RFC 3986 splitting (composition with C20_url_exact). Tied to the code by translator-regenerated constants/tables, a differential run of the extracted models against remote.Repository over a fake registry whose complete request/response log is replayed through the extracted Registry.v, and an independent oracle",
    "level_note": "after the audit: three defects fixed in the code (truncated manifest over MaxMetadataBytes, FetchReference ignoring the GET digest header on the HEAD path, Seek accepting a 206 of the wrong length) + blob-upload digest check; two known findings (head-tag-no-digest-header, seek-206-digest-unverified). The last sentence of the property is proved as 'success implies a consistent response' for every operation incl. Seek; URL construction is modelled and compared per request (C13_request_url_exact); Warning pass-through is oracle-only. The history-level refinement theorem is _partial: excludes resolving a tag by HEAD without Docker-Content-Digest (known finding, refuted witness proved), manifests with subjects on registries without the Referrers API (there: C13_tag_schema_history for histories of Push/Delete of manifests with ONE subject, built on the operation-level theorems C13_push_subject_then_predecessors / C13_delete_subject_then_predecessors; mixed subjects / interleaving with other operations and the tie to spec_run are not proved; concurrency C14), pagination (C15), inaccurate caller descriptors; both known findings have _refuted witnesses (C13_refines_store_refuted, C13_corruption_rejected_seek_digest_refuted); net/http, mime, JSON are parameters / not modelled; net/url only for plain URLs",
    "technique": "machine-checked proof in Coq (refinement by induction over histories with a registry invariant; any-server lemmas for request grammar and response consistency; seek state-machine refinement) + translator-regenerated tables + model/implementation correspondence on full request/response traces",
    "explanation": "theorems over all histories/profiles/servers about Model/Registry.v + Model/RemoteClient.v; the extracted models are run on the same generated histories (rotating profiles, PlainHTTP, ManifestMediaTypes, referrers state, one corrupted response field, Read/Seek scripts) as registry/remote against harness/fakereg13 and compared on results and complete request/response logs; independent oracle = Go ground-truth store, distribution-spec endpoint table, must-fail table for contradicting corruptions, bytes.Reader for seeks",
}
