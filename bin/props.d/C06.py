"""C06 configuration (loaded by bin/props.py)."""


def _c06_case(c):
    # the trailing token "#<store>:<mode>:<hseed>:<nops>[:<threads>]" re-creates the history
    for t in c.split(" "):
        if t.startswith("#"):
            p = t[1:].split(":")
            d = {"store": p[0], "mode": p[1], "hseed": p[2], "nops": p[3]}
            if len(p) > 4:
                d["threads"] = p[4]
            return d
    return {"raw": c}


CONFIG = {
    "properties_file": "Properties/C06.v",
    "proof_files": ["Base/Prelude.v", "Proofs/Stores.v", "Proofs/StoresConc.v"],
    "model_files": ["Generated/GC06.v", "Model/Stores.v", "Model/StoresConc.v"],
    "extract": "XC06.v",
    "ml_main": "c06_main.ml",
    "harness": "c06",
    "case_to_replay": _c06_case,
    "timeout_quick": 600,
    "assumptions": [],
    "level_text": "",
    "level_note": "",
    "technique": "machine-checked proof in Coq (refinement of the concrete store state machines to a content map + tag map, induction over histories) + model/implementation correspondence on random histories + independent reference oracle",
    "explanation": "",
}
