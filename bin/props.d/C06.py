"""C06 configuration (loaded by bin/props.py)."""


def _c06_case(c):
    # the trailing token "#<store>:<mode>:<hseed>:<nops>[:<threads>]" re-creates the history
    for t in c.split(" "):
        if t.startswith("#"):
            p = t[1:].split(":")
            d = {"store": p[0], "mode": p[1], "hseed": p[2], "nops": p[3]}
            if len(p) > 4:
                d["threads"] = p[4]
            return d
    return {"raw": c}


CONFIG = {
    "properties_file": "Properties/C06.v",
    "proof_files": ["Base/Prelude.v", "Proofs/Stores.v", "Proofs/StoresConc.v", "Proofs/StoresConcOci.v"],
    "model_files": ["Generated/GC06.v", "Model/Stores.v", "Model/StoresConc.v", "Model/StoresConcOci.v"],
    "extract": "XC06.v",
    "ml_main": "c06_main.ml",
    "harness": "c06",
    "case_to_replay": _c06_case,
    "timeout_quick": 600,
    "timeout_search": 420,
    "assumptions": [
        "SHA-256 collision freedom on the universe: a digest id stands for one byte string (the harness numbers digests of real bytes); verification (content.ReadAll / ioutil.CopyBuffer + VerifyReader) is modelled as 'hash id and length equal the descriptor's' (C05 owns the verifier)",
        "encoding/json + content.Successors decoding are external: a blob carries the successor keys the generator's ground truth assigns to its bytes; manifests are well-formed (a Push whose bytes do not decode under a manifest media type stores the blob and then fails in graph.Index: outside the quantifier)",
        "OCI theorems C06_refines_oci / C06_failed_noop_oci assume a universe function U (digest -> media type, size) with every descriptor of the history canonical: Tag/Delete/Push with a descriptor whose media type or size differs from the stored one are caller inconsistencies (DESIGN section 6); satisfiable: Example C06_ex_canon",
        "OCI: AutoGC off, GC never called (C09 owns F1-F4); index.json / saveIndex persistence not modelled (C08, C10); invalid digest strings are not generated (blobPath -> ErrInvalidDigest)",
        "file store: a path is identified with the clean relative name it came from (aliasing names, traversal, symlinks: C11); pushDir/unpack, Add, restoreDuplicates with titled successors, Close, fallback size limit, ForceCAS/SkipUnpack/PreservePermissions are not modelled; annotation-set ids are numbered so that id/8 is the title",
        "concurrency theorem: sync.Map Load/LoadOrStore, the resolver RWMutex section and the graph lock section are the atomic steps (Go memory model / scheduler: modelled, not verified); proved for the memory store and (content map, names, Predecessors; Delete exclusive; collision-free universe B) for the OCI store; file store concurrency is exercised by the harness only (quiescent-state search against the extracted sequential model)",
        "Predecessors results are compared as sets projected to descriptor.FromOCI (media type, digest, size); Tags compared sorted",
    ],
    "level_text": "Coq theorems over all operation histories: the memory store (cas.Memory + resolver.Memory{index,tags} + graph.Memory{nodes,predecessors,successors}) and the OCI layout store (blobs by digest + implicit tag-by-digest + Resolve/resolveBlob fallback + Untag + Delete without AutoGC + Tags) refine an abstract content map + tag map (equal outputs, equal maps, Predecessors = stored manifests whose successor list contains the node); a refused or failed operation leaves the whole concrete state unchanged; Fetch returns exactly the pushed bytes, re-push is already-exists and a no-op, Resolve returns the most recent Tag, absent content is not-found, Delete clears content and names; the Delete loop is independent of Go's map iteration order; file store: no Fetch returns bytes not matching the digest, failed operations are no-ops on the repaired code (refuted with a witness on the code as found), duplicate-name; every interleaving of the atomic steps of the memory store and of the OCI store (Delete exclusive) reaches at quiescence the state of a sequential order that keeps program order. Tied to the code by differential runs of random histories (three store kinds, option matrix, concurrent goroutines with a serialisability search on the extracted model) and an independent reference oracle",
    "level_note": "OCI refinement is proved for canonical histories (one media type/size per digest); OCI quiescent serialisability is proved for content map + names + Predecessors (digest-string resolver entries not compared: partial); file-store concurrency is harness-only; file store refinement is by invariant + clause theorems, not by a separate abstract spec; two file-store behaviours that contradict the statement are recorded as known findings with _refuted witnesses (unnamed re-push of content present through a named file is accepted; LimitedStorage cuts trailing data)",
    "technique": "machine-checked proof in Coq (refinement of the concrete store state machines to a content map + tag map, invariants by induction over histories, LTS invariant over all interleavings for the memory store) + translator-regenerated media-type tables + model/implementation correspondence on random histories + independent reference oracle",
    "explanation": "theorems quantify over every finite history (and, for the memory store, every schedule of atomic steps); the harness replays random histories over small universes of real blobs/manifests/references on memory.Store, oci.Store and file.Store (IgnoreNoName/DisableOverwrite matrix), compares every result with the extracted model, judges every step against its own content/tag maps and the DAG generator's ground truth, reads the whole state back around failed operations, and for concurrent histories searches a sequential order (respecting real time) of the same operations whose final observable state matches",
}
