"""C06 configuration (loaded by bin/props.py)."""


def _c06_case(c):
    # the trailing token "#<store>:<mode>:<hseed>:<nops>[:<threads>]" re-creates the history
    for t in c.split(" "):
        if t.startswith("#"):
            p = t[1:].split(":")
            d = {"store": p[0], "mode": p[1], "hseed": p[2], "nops": p[3]}
            if len(p) > 4:
                d["threads"] = p[4]
            return d
    return {"raw": c}


# ---- in-Coq re-evaluation of a sample of sequential cases (thorough tier): cross-checks the extraction ----
_VM_PRELUDE = """From Oras Require Import Base.Prelude Model.Stores.
Definition sub_k (a c : list gkey) : bool := forallb (fun x => mem gkey_eqb x c) a.
Definition sub_r (a c : list ref) : bool := forallb (fun x => mem ref_eqb x c) a.
Definition desc_eqb (a c : desc) : bool :=
  (d_mt a =? d_mt c) && (d_dig a =? d_dig c) && (d_size a =? d_size c) && (d_ann a =? d_ann c).
Definition err_eqb (a c : err) : bool :=
  match a, c with
  | EAlreadyExists, EAlreadyExists | ENotFound, ENotFound | EMissingRef, EMissingRef
  | EInvalidRef, EInvalidRef | EMismatch, EMismatch | EUnsupported, EUnsupported => true
  | _, _ => false end.
Definition out_matches (a c : out) : bool :=
  match a, c with
  | OOk, OOk => true
  | OErr x, OErr y => err_eqb x y
  | OBytes h l, OBytes h' l' => (h =? h') && (l =? l')
  | OBool x, OBool y => Bool.eqb x y
  | ODesc x, ODesc y => desc_eqb x y
  | OPreds x, OPreds y => sub_k x y && sub_k y x
  | OTags x, OTags y => sub_r x y && sub_r y x
  | _, _ => false end.
Definition fout_matches (a c : fout) : bool :=
  match a, c with
  | FO x, FO y => out_matches x y
  | FE FDuplicateName, FE FDuplicateName | FE FOverwrite, FE FOverwrite | FE FTraversal, FE FTraversal => true
  | _, _ => false end.
Fixpoint all2 {A} (f : A -> A -> bool) (l1 l2 : list A) : bool :=
  match l1, l2 with
  | [], [] => true
  | x :: t1, y :: t2 => f x y && all2 f t1 t2
  | _, _ => false end.
"""


def _vm_key(t):
    a, b, c = t.split("@")[0].split(",")
    return "(%s, %s, %s)" % (a, b, c)


def _vm_links(l):
    if l in ("-", ""):
        return "[]"
    return "[" + "; ".join(_vm_key(k) for k in l.split("+")) + "]"


def _vm_titled(l):
    if l in ("-", ""):
        return "[]"
    return "[" + "; ".join("(%s, %s)" % (_vm_key(k), k.split("@")[1]) for k in l.split("+") if "@" in k) + "]"


def _vm_desc(t):
    return "(mkDesc %s %s %s %s)" % tuple(t.split(","))


def _vm_ref(t):
    if t == "e":
        return "REmpty"
    return "(%s %s)" % ("RName" if t[0] == "n" else "RDig", t[1:])


def _vm_blob(t):
    main, _, pre = t.partition("~")
    p = main.split(",", 2)
    links, tl = _vm_links(p[2]), _vm_titled(p[2])
    if pre:
        q = pre.split(",", 1)
        ph, pl, ptl = q[0], _vm_links(q[1]), _vm_titled(q[1])
    else:
        ph, pl, ptl = p[0], links, tl
    return "(mkBlobT %s %s %s %s %s %s %s)" % (p[0], p[1], links, ph, pl, tl, ptl)


def _vm_op(t):
    p = t.split("/")
    k = p[0]
    if k == "P":
        return "Push %s %s" % (_vm_desc(p[1]), _vm_blob(p[2]))
    if k in "FEQD":
        return "%s %s" % ({"F": "Fetch", "E": "Exists", "Q": "Preds", "D": "Delete"}[k], _vm_desc(p[1]))
    if k == "T":
        return "Tag %s %s" % (_vm_desc(p[1]), _vm_ref(p[2]))
    if k in "RU":
        return "%s %s" % ({"R": "Resolve", "U": "Untag"}[k], _vm_ref(p[1]))
    return "Tags"


_VM_ERR = {"exists": "EAlreadyExists", "notfound": "ENotFound", "missingref": "EMissingRef",
           "invalidref": "EInvalidRef", "mismatch": "EMismatch", "unsupported": "EUnsupported"}


def _vm_out(t, filek):
    if t == "err:dupname":
        return "FE FDuplicateName"
    if t == "err:overwrite":
        return "FE FOverwrite"
    if t == "err:traversal":
        return "FE FTraversal"
    if t == "ok":
        o = "OOk"
    elif t.startswith("err:"):
        o = "OErr " + _VM_ERR[t[4:]]
    elif t.startswith("B:"):
        o = "OBytes %s %s" % tuple(t[2:].split(","))
    elif t.startswith("X:"):
        o = "OBool " + ("true" if t[2:] == "1" else "false")
    elif t.startswith("D:"):
        o = "ODesc " + _vm_desc(t[2:])
    elif t.startswith("S:"):
        o = "OPreds [" + "; ".join(_vm_key(k) for k in t[2:].split(";") if k) + "]"
    elif t.startswith("L:"):
        o = "OTags [" + "; ".join(_vm_ref(k) for k in t[2:].split(";") if k) + "]"
    else:
        raise ValueError(t)
    return ("FO (%s)" % o) if filek else o


def _c06_vm_sample(d, tier, coq, build, want=120):
    import os, subprocess, collections
    if tier != "thorough":
        return []
    outs = {}
    with open(os.path.join(d, "model.txt")) as f:
        for l in f:
            i, _, o = l.rstrip("\n").partition(" ")
            outs[i] = o
    got = collections.Counter()
    goals = []
    with open(os.path.join(d, "cases.txt")) as f:
        for n, l in enumerate(f):
            i, _, c = l.rstrip("\n").partition(" ")
            t = [x for x in c.split(" ") if not x.startswith("#")]
            if len(t) < 3 or t[0] != "seq" or i not in outs or " " in outs[i] or n % 97 != 0:
                continue
            kind = t[1]
            if got[kind] >= want // 4:
                continue
            filek = kind.startswith("file")
            try:
                ops = "[" + "; ".join(_vm_op(x) for x in t[2:]) + "]"
                exp = "[" + "; ".join(_vm_out(x, filek) for x in outs[i].split("|")) + "]"
            except Exception:
                continue
            if kind == "mem":
                g = "all2 out_matches (snd (run mem_step mem_init %s)) %s = true" % (ops, exp)
            elif kind == "oci":
                g = "all2 out_matches (snd (run oci_step oci_init %s)) %s = true" % (ops, exp)
            else:
                g = "all2 fout_matches (snd (runf (file_step true %s %s) file_init %s)) %s = true" % (
                    "true" if kind[4] == "1" else "false", "true" if kind[5] == "1" else "false", ops, exp)
            got[kind] += 1
            goals.append((i, g))
    vdir = os.path.join(build, "vm")
    os.makedirs(vdir, exist_ok=True)
    vf = os.path.join(vdir, "C06_cases.v")
    with open(vf, "w") as f:
        f.write(_VM_PRELUDE)
        for i, g in goals:
            f.write("\n(* %s *)\nGoal %s.\nProof. vm_compute. reflexivity. Qed.\n" % (i, g))
    p = subprocess.run(["coqc", "-R", coq, "Oras", "-w", "-notation-overridden", vf], cwd=vdir, timeout=1500,
                       stdout=subprocess.PIPE, stderr=subprocess.STDOUT, text=True)
    with open(os.path.join(d, "vm_sample.txt"), "w") as f:
        f.write("%d goals %s rc=%d\n%s" % (len(goals), dict(got), p.returncode, p.stdout[-3000:]))
    if p.returncode != 0:
        return ["vm_compute re-evaluation of %d sampled histories inside Coq disagrees with the extracted runner (or does not type-check): %s"
                % (len(goals), p.stdout[-1200:])]
    if len(goals) < want // 3:
        return ["vm_compute sample too small: %d goals" % len(goals)]
    return []



CONFIG = {
    "properties_file": "Properties/C06.v",
    "proof_files": ["Base/Prelude.v", "Proofs/Stores.v", "Proofs/StoresConc.v", "Proofs/StoresConcOci.v", "Proofs/StoresConcOci2.v", "Proofs/StoresConcFile.v", "Proofs/StoresFile.v", "Proofs/StoresConcFileGraph.v", "Proofs/StoresConcReads.v", "Proofs/StoresFileSpec.v", "Proofs/StoresFileLimit.v"],
    "model_files": ["Generated/GC06.v", "Model/Stores.v", "Model/StoresFileSpec.v", "Model/StoresFileLimit.v", "Model/StoresConc.v", "Model/StoresConcOci.v", "Model/StoresConcFile.v"],
    "extract": "XC06.v",
    "ml_main": "c06_main.ml",
    "harness": "c06",
    "case_to_replay": _c06_case,
    "post_model": _c06_vm_sample,
    "timeout_quick": 600,
    "timeout_search": 420,
    "assumptions": [
        "SHA-256 collision freedom on the universe: a digest id stands for one byte string (the harness numbers digests of real bytes); verification (content.ReadAll / ioutil.CopyBuffer + VerifyReader) is modelled as 'hash id and length equal the descriptor's' (C05 owns the verifier)",
        "encoding/json + content.Successors decoding are external: a blob carries the successor keys the generator's ground truth assigns to its bytes; manifests are well-formed (a Push whose bytes do not decode under a manifest media type stores the blob and then fails in graph.Index: outside the quantifier)",
        "OCI theorems C06_refines_oci / C06_failed_noop_oci assume a universe function U (digest -> media type, size) with every descriptor of the history canonical: Tag/Delete/Push with a descriptor whose media type or size differs from the stored one are caller inconsistencies (DESIGN section 6); satisfiable: Example C06_ex_canon",
        "OCI Tag: refusal of another content's digest string as reference and the graph.Index step on manifest descriptors are modelled (sequential and as an atomic step of the interleaving model); a descriptor with a manifest media type on bytes that do not decode is outside the quantifier (well-formed manifests) and not generated; non-UTF-8 references are not generated",
        "OCI: AutoGC off, GC never called (C09 owns F1-F4); index.json / saveIndex persistence not modelled (C08, C10); invalid digest strings are not generated (blobPath -> ErrInvalidDigest); Store.delete's re-listing of dangling manifests without a digest entry (754da6c) is not modelled: on a store built by Push every stored manifest has its digest entry (invariant qdig of C06_quiescent_serialisable_oci_full), so the loop is a no-op there",
        "file store: a path is identified with the clean relative name it came from except one aliasing name and one traversing name of the universe (symlinks, real path resolution: C11); restoreDuplicates / restoreDuplicatesOfSkipped with titled successors are modelled sequentially (file_restore); the fallback push limit (NewWithFallbackLimit -> content.LimitedStorage.Push refuses expected.Size > limit before anything is read) is modelled as file_step_lim (Model/StoresFileLimit.v) and run as store kind fileL0 with limit 400; the fixed 4 MiB guard of restoreDuplicatesOfSkipped (IgnoreNoName) is not reached by the generated sizes; pushDir/unpack, Add, Close, ForceCAS/SkipUnpack/PreservePermissions are not modelled; annotation-set ids are numbered so that id/8 is the title",
        "concurrency theorem: sync.Map Load/LoadOrStore, the resolver RWMutex section and the graph lock section are the atomic steps (Go memory model / scheduler: modelled, not verified); proved for the memory store and (content map, all Resolve answers, Predecessors; Delete exclusive; collision-free universe B) for the OCI store; for the file store the per-name lock section of a named push is one atomic step (the window between digestToPath.Store and exists := true, in which readers of that name block on the status lock, is not modelled), store and graph.Index are separate steps, content is untitled and names do not alias; C06_reads_linearisable_* treat Fetch/Exists/Resolve as one atomic read (the real file-store Fetch reads name status, digestToPath and the file one after the other -- all monotone without Delete)",
        "order of effects inside the modelled functions (store before index before restore, stat before ingest before rename, untag before graph.Remove before storage.Delete, Load/ReadAll/LoadOrStore and no plain Store, name status before digestToPath before fallback ...): re-read from the Go sources on every run by translator kind c06_callseq (19 functions) and checked by C06_call_order_from_source (40 order facts); the guards of the limit refusal (`expected.Size > ls.PushLimit`, fallback reached for `name == \"\"` only) are regenerated by translator kind callguards and checked by C06_limit_guards_from_source; the bodies of 61 functions are anchored (any edit fails layer T until re-baselined)",
        "Predecessors results are compared as sets projected to descriptor.FromOCI (media type, digest, size); Tags compared sorted; after every sequential history on the OCI and file stores the regular files on disk (blob files / files below the working directory: path, digest of the bytes, length; left-over ingest files) are compared with the model's o_blobs / f_disk (not after a second name overwrote a file: known finding file-name-alias-overwrite)",
    ],
    "level_text": "Coq theorems over all operation histories: the memory store (cas.Memory + resolver.Memory{index,tags} + graph.Memory{nodes,predecessors,successors}) and the OCI layout store (blobs by digest + implicit tag-by-digest + Resolve/resolveBlob fallback + Untag + Delete without AutoGC + Tags) refine an abstract content map + tag map (equal outputs, equal maps, Predecessors = stored manifests whose successor list contains the node); a refused or failed operation leaves the whole concrete state unchanged; Fetch returns exactly the pushed bytes, re-push is already-exists and a no-op, Resolve returns the most recent Tag, absent content is not-found, Delete clears content and names; the Delete loop is independent of Go's map iteration order; file store: no Fetch returns bytes not matching the digest, failed operations are no-ops on the repaired code (refuted with a witness on the code as found), duplicate-name; every interleaving of the atomic steps of the memory store, of the OCI store (Delete exclusive) and of the file store (untitled content, no aliasing name) reaches at quiescence the state -- content, tags and Predecessors -- of a sequential order that keeps program order, and at EVERY reachable configuration Fetch/Exists/Resolve (and the names OCI Tags lists: C06_tags_linearisable_oci) answer like the sequential execution of the commit log (C06_reads_linearisable_memory/_oci/_file); the accept/refuse decision of a Push is the sequential one at every reachable configuration of the memory and file stores (C06_push_decision_linearisable_memory/_file; refuted for OCI); presence in the file store is monotone for every history and option setting (C06_presence_monotone_file); file store with a fallback push limit: exactly the oversized unnamed pushes are refused and the refusal is a no-op (C06_limit_refusal_iff_file, C06_limit_refusal_noop_file), nothing above the limit is ever in the fallback storage for EVERY history and option setting (C06_limit_bounds_fallback_file), refinement and fetch-matches carry over (C06_refines_file_limit, C06_fetch_matches_digest_file_limit), below the limit it is unobservable (C06_limit_unobservable_below_file), and for every history the limited store is the unlimited one run on the history without its oversized unnamed pushes (C06_limit_is_filter_file); the file store refines an abstract content-map specification on every history without an aliasing name (C06_refines_file: equal outputs step by step; restoreDuplicates included) and its Predecessors are exactly the indexed nodes whose bytes list the node (C06_predecessors_exact_file). Tied to the code by differential runs of random histories (three store kinds, option matrix, concurrent goroutines with a serialisability search on the extracted model) and an independent reference oracle",
    "level_note": "OCI sequential theorems hold for histories that push and delete content under one descriptor per digest (Fetch/Exists/Tag/Predecessors may use any descriptor of the digest, e.g. the octet-stream one Resolve(<digest>) returns); deleting with a descriptor of another media type leaves a stale graph node (not observable through Predecessors) and is outside the theorems but generated. File store: clause theorems (fetch returns pushed/matches digest, duplicate-name, unnamed re-push refused, resolve-latest, absent-is-not-found, failed-noop) hold -- the first and the last two of them without the aliasing name (two names for one path) and, for failed-noop and the concurrency theorem, without titled successors; the file-store refinement (C06_refines_file) and the Predecessors theorems (C06_predecessors_exact_file, C06_push_ok_indexed_file, C06_quiescent_serialisable_file_graph) assume the repaired pushFile, no aliasing name and (Predecessors) collision-free bytes B -- Examples C06_ex_file_graph_wf / C06_ex_file_graph_conc_good show the hypotheses satisfiable; with IgnoreNoName an unnamed Push returns nil and discards the content, so 'Fetch returns the pushed bytes' does not apply to it (oracle clause push-ignored). Five file-store behaviours and one OCI behaviour that contradict the statement are known findings, each with a _refuted witness on the model and a dedicated oracle clause (unnamed re-push of content present through a named file; LimitedStorage cuts trailing data; second name for a path; restoreDuplicates failing after the store; titled restore under concurrency; racing OCI pushes all succeed). Known finding file-conc-titled-restore-not-serialisable (new in the extension round): file.Store.Push = store ; graph.Index ; restoreDuplicates is not atomic, so with a titled successor a concurrent duplicate-name push followed by the layer push lets the first push restore a file no sequential order creates (witness C06_quiescent_serialisable_file_titled_refuted; reported by a directed two-goroutine scenario, replay corpus/C06/file-conc-titled-restore-not-serialisable.json) -- the random concurrent streams and the concurrency theorems use untitled content. Concurrency: in the serialisability search the outputs of concurrent operations are constrained where one atomic step (or a read of monotone maps) decides them -- memory: all but Predecessors; file: Push, Fetch, Exists, Resolve; OCI: Fetch, Exists, Resolve by name (OCI Push is not: known finding oci-racing-pushes-all-succeed, witness C06_repush_refused_oci_racing_refuted; OCI Resolve by digest may see a manifest blob before its digest tag); every store operation runs under a 25 s watchdog (a wedge is an ORACLE FAIL 'wedged' with the history in flight). Not generated: oci.ReadOnlyStore (NewFromFS/NewFromTar), GC/AutoGC (C09), index.json contents (C08), file ForceCAS/SkipUnpack/pushDir/AllowPathTraversalOnWrite/NewWithFallbackStorage with a foreign storage, concurrent histories on the limited store (sequential only: the limit check reads no shared state), sizes above the 4 MiB default limit or the 1 MiB copy buffer, invalid digests, Close.",
    "technique": "machine-checked proof in Coq (refinement of the concrete store state machines to a content map + tag map, invariants by induction over histories, LTS invariants over all interleavings for the memory, OCI and file stores) + translator-regenerated media-type tables and call sequences + model/implementation correspondence on random histories + independent reference oracle",
    "explanation": "theorems quantify over every finite history (and, for each of the three stores, every schedule of atomic steps); the harness replays random histories over small universes of real blobs/manifests/references on memory.Store, oci.Store and file.Store (IgnoreNoName/DisableOverwrite matrix), compares every result with the extracted model, judges every step against its own content/tag maps and the DAG generator's ground truth, reads the whole state back around failed operations, compares the files on disk with the model's, and for concurrent histories searches a sequential order (respecting real time) of the same operations whose constrained outputs, final observable state and files on disk match",
}
