"""C09 configuration (loaded by bin/props.py)."""


def _c09_case(c):
    # case line: s<caseseed> n<N> <nodes> : <ops>; the generator is re-run from the per-case seed
    p = c.split(" ")
    if p and p[0].startswith("s") and p[0][1:].isdigit() and p[0] != "s0":
        return {"caseseed": p[0][1:]}
    return {"raw": c}


CONFIG = {
    "properties_file": "Properties/C09.v",
    "proof_files": ["Base/Prelude.v", "Base/Regex.v", "Proofs/OciGC.v"],
    "model_files": ["Generated/GC09.v", "Model/OciGC.v"],
    "extract": "XC09.v",
    "ml_main": "c09_main.ml",
    "harness": "c09",
    "case_to_replay": _c09_case,
    "timeout_quick": 600,
    "assumptions": [
        "content addressing: successors (and the subject, which content.Successors lists first) of a node have smaller generator numbers, i.e. the stored DAG is acyclic (hypotheses acyclic / subject_listed of the theorems; satisfiable: C09_hyps_satisfiable)",
        "descriptor identity = digest identity (no two media types for the same bytes in one store); callers pass the descriptor the content was pushed with",
        "subjects are manifests (OCI referrers); registry.Referrers is undefined for other subjects",
        "graph.Memory is represented by its node set, predecessors[s] = {p in nodes | s in succ p} (property C07); re-checked on every case by comparing Predecessors of every node after every operation",
        "the case lists of isKnownAlgorithm and descriptor.IsManifest are regenerated from the Go source on every run (Generated/GC09.v); that digest.SHA256/SHA512/SHA384 name the directories sha256/sha512/sha384 and which media-type constant belongs to which generator kind is stated by hand in Model/OciGC.v",
        "encoding/json, sha256, the file system (os.ReadDir/os.Remove/os.WriteFile) and go-digest Validate are not modelled: stray-file kinds (known algorithm directory, valid digest name) are inputs of the model",
        "which digest-only references of live descriptors GC keeps (only tagged/kept referrers, or every one whose descriptor stays in the graph: repair of C08) is probed on the store at start-up and passed to the model and the reference (parameter kl of the theorems, which hold for both); digest-only references are not compared; index.json is not read after GC (F2 belongs to C08/C10)",
        "leaf descriptors that IndexAll records without their content being stored (foreign layers, unpushed blobs) are not graph nodes of the model; after the repair they are unobservable through Delete/GC/Predecessors",
        "sequential histories only (Delete and GC hold the store's exclusive lock)",
    ],
    "level_text": "Coq theorems for all DAGs, histories and Go map iteration orders: GC of the repaired code terminates and keeps exactly the least live set (tag closure + digest-indexed referrer chains), leaving tags and live predecessor relations intact; Delete with AutoGC terminates, returns Ok and removes exactly the least cascade set (untagged referrers of removed manifests, untagged nodes that lost their last predecessor), never a tagged node or another node's tag; plain Delete removes exactly the target; refutation witnesses for the pre-repair code (F1 hang, F3, F4, F13). Tied to content/oci by a differential run of the extracted model against a real oci.Store after every operation and by an independent mark-and-sweep / fixed-point oracle",
    "level_note": "the clause 'never a node a surviving node still links to' is proved for the dangling rule only; for referrers it is a known finding (delete-referrer-still-linked, witness C09_delete_surviving_pred_refuted); the pre-repair stale tag set of resolver.Memory and the phantom-leaf abort are found by the oracle, not modelled; file system, JSON and hashing are not modelled",
    "technique": "machine-checked proof in Coq (invariants of the delete queue and of the GC passes, least-fixed-point exactness, order independence) + model/implementation correspondence + independent oracle",
    "explanation": "theorems over all acyclic universes, states, targets and iteration orders about the executable model of Store.Delete/delete/isTagged/gcIndex/GC; the extracted model and a real oci.Store are run on the same random histories (DAGs with referrer chains, indexes, shared blobs, missing blobs, foreign layers, stray files; moved tags, tagged referrers, AutoGC on/off, GC at any point) and compared after every operation; an independent reference (generator edges + own tagging history) evaluates the property on the real store; Delete and GC run under a 20 s watchdog",
}
