"""C09 configuration (loaded by bin/props.py)."""


def _c09_case(c):
    # case line: s<caseseed> n<N> <nodes> : <ops>; the generator is re-run from the per-case seed
    p = c.split(" ")
    if p and p[0].startswith("s") and p[0][1:].isdigit() and p[0] != "s0":
        return {"caseseed": p[0][1:]}
    return {"raw": c}


CONFIG = {
    "properties_file": "Properties/C09.v",
    "proof_files": ["Proofs/OciGC.v"],
    "model_files": ["Generated/GC09.v", "Model/OciGC.v"],
    "extract": "XC09.v",
    "ml_main": "c09_main.ml",
    "harness": "c09",
    "case_to_replay": _c09_case,
    "timeout_quick": 600,
    "assumptions": [],
    "level_text": "",
    "level_note": "",
    "technique": "machine-checked proof in Coq + model/implementation correspondence + independent oracle",
    "explanation": "",
}
