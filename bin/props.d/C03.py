"""C03 configuration (loaded by bin/props.py)."""
import base64 as _b64
import json as _json


def _c03_case(c):
    # every FR/FP model line ends with '#<base64 of the JSON replay case>'
    toks = c.split(" ")
    for t in reversed(toks):
        if t.startswith("#"):
            return _json.loads(_b64.b64decode(t[1:]).decode())
    if toks and toks[0] == "XC" and len(toks) == 6:
        return {"wrapper": [toks[1] == "1", toks[2] == "1", toks[3] == "1", unhex(toks[4]), unhex(toks[5])]}
    return {"raw": c}


CONFIG = {
    "properties_file": "Properties/C03.v",
    "proof_files": ["Base/Prelude.v", "Proofs/FindRoots.v"],
    "model_files": ["Generated/GC03.v", "Model/FindRoots.v"],
    "extract": "XC03.v",
    "ml_main": "c03_main.ml",
    "harness": "c03",
    "case_to_replay": _c03_case,
    "timeout_quick": 600,
    "assumptions": [],
    "level_text": "",
    "level_note": "",
    "technique": "machine-checked proof in Coq (loop invariants of the stack DFS, for every served predecessor order) + model/implementation correspondence + independent oracle",
    "explanation": "",
}
