"""C03 configuration (loaded by bin/props.py)."""
import base64 as _b64
import json as _json
import zlib as _zlib


def _c03_case(c):
    # every FR/FP model line ends with '#<base64 of the zlib-compressed JSON replay case>'
    toks = c.split(" ")
    for t in reversed(toks):
        if t.startswith("#"):
            return _json.loads(_zlib.decompress(_b64.b64decode(t[1:])).decode())
    if toks and toks[0] == "XC" and len(toks) == 6:
        return {"wrapper": [toks[1] == "1", toks[2] == "1", toks[3] == "1", unhex(toks[4]), unhex(toks[5])]}
    return {"raw": c}


CONFIG = {
    "properties_file": "Properties/C03.v",
    "proof_files": ["Base/Prelude.v", "Proofs/FindRoots.v"],
    "model_files": ["Generated/GC03.v", "Model/FindRoots.v"],
    "extract": "XC03.v",
    "ml_main": "c03_main.ml",
    "harness": "c03",
    "case_to_replay": _c03_case,
    "timeout_quick": 600,
    "assumptions": [
        "copy_closure_C01 / copy_only_C01 (Section hypotheses of C03_extended_closure, C03_depth_own_graph, C03_depth_nothing_outside): the copy phase (copyGraph per root with shared tracker/proxy/limiter) delivers each root's graph byte-identical and writes nothing else; this is C01's theorem, to be connected after merging. The oracle checks the end-to-end statement on the real ExtendedCopy/ExtendedCopyGraph.",
        "acyclic_source: the source's predecessor relation is acyclic (content addressing: a predecessor embeds the digest of its successor); pred_is_inverse_link: Predecessors is the inverse of content.Successors on the source (C07's subject; the harness checks it against the generator's edge list on every case)",
        "served_ok (C03_filter_exact): a served descriptor may lack artifactType/annotations, but what it carries is the manifest's; a ReferrerLister source (remote repository: Referrers API response / referrers-tag index) serves complete referrer descriptors (artifactType = effective type, annotations = the manifest's) as the distribution spec requires -- the first filter does not fetch there. The harness registry serves such descriptors; generators keep descriptors consistent",
        "regular expressions are their MatchString function (str -> bool), quantified over; Go regexp is evaluated by the harness into the truth table the model receives",
        "encoding/json decoding of artifactType / config.mediaType / annotations is modelled as field selection (s_mat, s_mcfg, s_mann)",
        "for a remote repository the source's predecessor relation is the referrers (subject) relation only (Repository.Predecessors = Referrers); HTTP, pagination (Link) and the tag-schema fallback are exercised through an in-memory registry, not modelled; errors of Predecessors/Fetch are not modelled (findRoots returns them unchanged)",
        "media type case lists of FilterArtifactType / FilterAnnotation / fetchArtifactType are regenerated from extendedcopy.go (Generated/GC03.v); the value fetchArtifactType returns per case is hand-modelled and tied by correspondence",
    ],
    "level_text": "Coq theorems for every source graph, served predecessor order, start node, Depth and filter stack about a model of findRoots (stack DFS, visited set, depth-tagged frames), FilterArtifactType/FilterAnnotation (fetch-on-missing-field) and the ExtendedCopy wrapper: roots = tops of the upward closure and cover it (Depth<=0), two-sided depth bound, termination, filter exactness w.r.t. manifest content, end-to-end closure modulo C01's copy-closure hypothesis; tied to the code by hook-level differential runs (findRoots, opts.FindPredecessors, fetchArtifactType, ExtendedCopy) and an independent oracle on ExtendedCopy/ExtendedCopyGraph over memory, OCI (fresh and reopened), file and remote (Referrers API with pagination, referrers tag schema) sources",
    "level_note": "copy phase = hypothesis copy_closure_C01 (C01); remote sources through an in-memory read-only registry only; concurrency of the copy phase is exercised (Concurrency 0-4) but not modelled here; Docker manifests have no artifact type (effective type \"\")",
    "technique": "machine-checked proof in Coq (loop invariants of the stack DFS, for every served predecessor order) + model/implementation correspondence + independent oracle",
    "explanation": "loop-invariant proofs over the DFS of findRoots for every served order; filter exactness by induction over the filter stack; model vs implementation on findRoots (hook), opts.FindPredecessors and fetchArtifactType for random DAGs x source kinds x descriptor styles; oracle from the generator's inverse edge list and manifest fields on findRoots, ExtendedCopyGraph and ExtendedCopy",
}
