"""C03 configuration (loaded by bin/props.py)."""
import base64 as _b64
import json as _json
import zlib as _zlib


def _c03_case(c):
    # every FR/FP model line ends with '#<base64 of the zlib-compressed JSON replay case>'
    toks = c.split(" ")
    for t in reversed(toks):
        if t.startswith("#"):
            return _json.loads(_zlib.decompress(_b64.b64decode(t[1:])).decode())
    if toks and toks[0] == "XC" and len(toks) == 7:
        return {"wrapper": [toks[1] == "1", toks[2] == "1", toks[3] == "1", toks[4] == "1", unhex(toks[5]), unhex(toks[6])]}
    return {"raw": c}


# ---- in-Coq re-evaluation (vm_compute) of a sample of the correspondence cases: checks the
# extraction + OCaml driver against the Gallina model itself (thorough tier)

_VM_PRELUDE = """From Oras Require Import Base.Prelude Generated.GC03 Model.FindRoots.
Local Open Scope nat_scope.
Definition tbl (l : list (str * bool)) (s : str) : bool :=
  match find (fun p => str_eqb s (fst p)) l with Some p => snd p | None => false end.
Definition nthd {A} (l : list A) (d : A) (i : nat) : A := nth i l d.
Definition same_set (a c : list nat) : bool :=
  (forallb (fun x => mem x c) a && forallb (fun x => mem x a) c)%bool.
Definition roots_are (r : option (list desc)) (ids : list nat) : bool :=
  match r with Some l => same_set (map d_id l) ids | None => false end.
Definition log_is (r : option (list desc * list nat)) (ids calls : list nat) : bool :=
  match r with
  | Some (l, c) => (same_set (map d_id l) ids && if list_eq_dec Nat.eq_dec c calls then true else false)%bool
  | None => false
  end.
"""


def _vm_str(h):
    if h == "-":
        return "(@nil N)"
    bs = bytes.fromhex(h)
    if all(0x20 <= c <= 0x7e and c != 0x22 for c in bs):
        return '(b "%s")' % bs.decode("ascii")
    return "([%s]%%N)" % "; ".join(str(c) for c in bs)


def _vm_ann(t):
    if t == "~":
        return "(@None annots)"
    if t == "@":
        return "(Some (@nil (str * str)))"
    kv = [x.split("=") for x in t.split(";")]
    return "(Some [%s])" % "; ".join("(%s, %s)" % (_vm_str(k), _vm_str(v)) for k, v in kv)


def _vm_tbl(t):
    if t == "_":
        return "(tbl [])"
    ents = [x.split("=") for x in t.split(",")]
    return "(tbl [%s])" % "; ".join("(%s, %s)" % (_vm_str(k), "true" if v == "1" else "false") for k, v in ents)


def _vm_filters(k, toks):
    fs = []
    for _ in range(k):
        t = toks.pop(0)
        if t == "A0":
            fs.append("FArt None")
        elif t == "A":
            fs.append("FArt (Some %s)" % _vm_tbl(toks.pop(0)))
        elif t == "N0":
            fs.append("FAnn %s None" % _vm_str(toks.pop(0)))
        elif t == "N":
            key = toks.pop(0)
            fs.append("FAnn %s (Some %s)" % (_vm_str(key), _vm_tbl(toks.pop(0))))
        else:
            raise ValueError("filter " + t)
    return "[%s]" % "; ".join(fs)


_VM_KIND = {"I": "KImage", "D": "KDocker", "X": "KIndex", "L": "KDockerList", "A": "KArtifact", "O": "KOther"}


def _vm_desc(i, at, ann):
    return "(mkDesc %d %s %s)" % (int(i), _vm_str(at), _vm_ann(ann))


def _vm_source(n, toks, lister):
    kinds, mats, cfgs, anns, preds = [], [], [], [], []
    for _ in range(n):
        kd, mat, cfg, an, np_ = toks.pop(0), toks.pop(0), toks.pop(0), toks.pop(0), int(toks.pop(0))
        ps = []
        for _ in range(np_):
            ps.append(_vm_desc(toks.pop(0), toks.pop(0), toks.pop(0)))
        kinds.append(_VM_KIND[kd]); mats.append(_vm_str(mat)); cfgs.append(_vm_str(cfg)); anns.append(_vm_ann(an))
        preds.append("[%s]" % "; ".join(ps) if ps else "(@nil desc)")
    return ("(mkSource (@nthd (list desc) [%s] []) (@nthd mkind [%s] KOther) (@nthd str [%s] []) (@nthd str [%s] []) "
            "(@nthd (option annots) [%s] None) %s)" % ("; ".join(preds), "; ".join(kinds), "; ".join(mats),
                                                        "; ".join(cfgs), "; ".join(anns), "true" if lister == "1" else "false"))


def _vm_goal(case, out):
    toks = [t for t in case.split(" ") if t and not t.startswith("#")]
    kind = toks.pop(0)
    if kind == "FR":
        n, limit, start, lister, nf = int(toks.pop(0)), int(toks.pop(0)), int(toks.pop(0)), toks.pop(0), int(toks.pop(0))
        fs = _vm_filters(nf, toks)
        src = _vm_source(n, toks, lister)
        if lister == "c":
            return None  # caller-supplied FindPredecessors: checked by the runner only
        call = "find_roots_log (fuel_for S %d) S %s (%d)%%Z (mkDesc %d [] None)" % (n, fs, limit, start)
        if out == "FUEL":
            return "let S := %s in %s = None" % (src, call)
        if not out.startswith("OK "):
            return None
        parts = out.split(" ")
        ids = [] if parts[1] == "-" else [int(x) for x in parts[1].split(",")]
        calls = [] if len(parts) < 3 or parts[2] == "-" else [int(x) for x in parts[2].split(",")]
        return "let S := %s in log_is (%s) [%s] [%s] = true" % (src, call, "; ".join(map(str, ids)), "; ".join(map(str, calls)))
    if kind == "FP":
        n, x, lister, nf = int(toks.pop(0)), int(toks.pop(0)), toks.pop(0), int(toks.pop(0))
        fs = _vm_filters(nf, toks)
        src = _vm_source(n, toks, lister)
        if not out.startswith("P") or lister == "c":
            return None
        ds = []
        for t in out.split(" ")[1:]:
            i, at, an = t.split(":")
            ds.append(_vm_desc(i, at, an))
        return "let S := %s in find_preds S %s %d = %s" % (src, fs, x, "[%s]" % "; ".join(ds) if ds else "(@nil desc)")
    if kind == "AT":
        kd, mat, cfg = toks
        src = ("(mkSource (fun _ => []) (fun _ => %s) (fun _ => %s) (fun _ => %s) (fun _ => None) false)"
               % (_VM_KIND[kd], _vm_str(mat), _vm_str(cfg)))
        if not out.startswith("T "):
            return None
        return "fetch_artifact_type %s 0 = %s" % (src, _vm_str(out[2:]))
    return None


def _c03_vm_sample(d, tier, coq, build, want=280):
    import os, subprocess, collections
    if tier != "thorough" and not os.environ.get("VERIF_VM_SAMPLE"):
        return []
    outs = {}
    with open(os.path.join(d, "model.txt")) as f:
        for l in f:
            i, _, o = l.rstrip("\n").partition(" ")
            outs[i] = o
    quota = {"FR": 120, "FP": 120, "AT": 40}
    maxlen = 5000

    def strip(c):
        return " ".join(t for t in c.split(" ") if not t.startswith("#"))

    total = collections.Counter()
    with open(os.path.join(d, "cases.txt")) as f:
        for l in f:
            i, _, c = l.rstrip("\n").partition(" ")
            c = strip(c)
            if len(c) <= maxlen:
                total[c.split(" ", 1)[0]] += 1
    got, stride, goals = collections.Counter(), collections.Counter(), []
    with open(os.path.join(d, "cases.txt")) as f:
        for l in f:
            i, _, c = l.rstrip("\n").partition(" ")
            c = strip(c)
            k = c.split(" ", 1)[0]
            if k not in quota or got[k] >= quota[k] or len(c) > maxlen or i not in outs:
                continue
            stride[k] += 1
            if (stride[k] - 1) % max(1, total[k] // quota[k]) != 0:
                continue
            g = _vm_goal(c, outs[i])
            if g:
                got[k] += 1
                goals.append((i, g))
    vdir = os.path.join(build, "vm")
    os.makedirs(vdir, exist_ok=True)
    vf = os.path.join(vdir, "C03_cases.v")
    with open(vf, "w") as f:
        f.write(_VM_PRELUDE)
        for i, g in goals:
            f.write("\n(* %s *)\nGoal %s.\nProof. vm_compute. reflexivity. Qed.\n" % (i, g))
    p = subprocess.run(["coqc", "-R", coq, "Oras", "-w", "-notation-overridden", vf], cwd=vdir, timeout=1500,
                       stdout=subprocess.PIPE, stderr=subprocess.STDOUT, text=True)
    with open(os.path.join(d, "vm_sample.txt"), "w") as f:
        f.write("%d goals %s rc=%d\n%s" % (len(goals), dict(got), p.returncode, p.stdout[-3000:]))
    if p.returncode != 0:
        return ["vm_compute re-evaluation of %d sampled cases inside Coq disagrees with the extracted runner (or does not type-check): %s"
                % (len(goals), p.stdout[-1200:])]
    if len(goals) < want // 2:
        return ["vm_compute sample too small: %d goals" % len(goals)]
    return []


CONFIG = {
    "properties_file": "Properties/C03.v",
    "proof_files": ["Base/Prelude.v", "Proofs/FindRoots.v", "Proofs/FindRootsCopy.v", "Proofs/FindRootsMem.v", "Proofs/FindRootsAll.v"],
    "model_files": ["Generated/GC03.v", "Model/FindRoots.v"],
    "extract": "XC03.v",
    "ml_main": "c03_main.ml",
    "harness": "c03",
    "case_to_replay": _c03_case,
    "post_model": _c03_vm_sample,
    "timeout_quick": 600,
    "assumptions": [
        "copy phase: C03_extended_closure / C03_depth_own_graph / C03_depth_nothing_outside / C03_nothing_outside are stated over C01's transition system (Model/CopySpec.v): extended_copy_run = ONE accepted run in which every root found is dispatched (c_root + c_xroots: one syncutil.Go, shared tracker/proxy/limiter), returned success, link-closed initial destination; closure below every root and 'writes only below dispatched roots' are proved here from C01's invariants (Proofs/FindRootsCopy.v closure_all_roots, run_writes_below_roots) for any number of roots and every accepted interleaving. That the real ExtendedCopyGraph's visible events form an accepted trace of that system is checked by C01's/C02's correspondence, not here: harness/copyh records ExtendedCopyGraph / ExtendedCopy runs (modes x / X, instrumented stores, controlled schedules under testing/synctest, latencies) and feeds them to the CopySpec acceptor with c_root+c_xroots = the roots above the node (bin/check C01); the C03 oracle checks the end-to-end statement on the real ExtendedCopy/ExtendedCopyGraph with Concurrency 0-4 under native scheduling, empty and prefilled (link-closed) destinations. The *_gen forms keep the closure facts as Section hypotheses copy_closure_C01 / copy_only_C01; mt_consistent is C01's hypothesis for digest-keyed destinations",
        "acyclic_source / pred_is_inverse_link are hypotheses of the generic theorems only; for sources backed by graph.Memory (memory, OCI layout, file store) they are DISCHARGED by composition with C07 (Proofs/FindRootsMem.v, FindRootsAll.v: C03_roots_unlimited_memory_backed, C03_property_unlimited/_depth/_filtered_memory_backed). Left there: backed_by (the store serves graph.Memory's predecessor sets: the harness compares every served table with the generator's edge list on every case), links_agree (C07's content table and C01's g_succ are the same content.Successors), content_acyclic (content addressing), not_foreign (the given node and its ancestors are stored content), C01's mt_consistent and extended_copy_run",
        "served_ok (C03_filter_exact; needed: C03_filter_exact_refuted_embedded): pushing content to a memory/file store with a descriptor whose annotations/artifactType are not the manifest's is a caller inconsistency outside the property; a reloaded OCI layout serves plain predecessors since fix fda86b1 (audit F1, generated: embedded descriptors with their own fields). a served descriptor may lack artifactType/annotations, but what it carries is the manifest's; a ReferrerLister source (remote repository: Referrers API response / referrers-tag index) serves complete referrer descriptors (artifactType = effective type, annotations = the manifest's) as the distribution spec requires -- the first filter does not fetch there. The harness registry serves such descriptors; generators keep descriptors consistent",
        "a user-supplied opts.FindPredecessors set before the filter calls IS modelled (find_preds_custom: every filter takes the generic branch; C03_any_find_predecessors_unlimited/_depth hold for any function, C03_custom_filter_exact) and generated (two variants on local sources); failing source operations ARE modelled (find_roots_e: countdown over Predecessors / Referrers / the Fetch of a missing field; C03_errors_surface, C03_no_fault_agrees) and compared at the exact operation (FE cases, local and remote sources, also below a caller-supplied FindPredecessors: find_roots_custom_e / C03_errors_surface_custom; C03_errors_total: with the runner's fuel the outcome is a root set or an error; a registry answering 403 between two pages is exercised by the oracle only); regular expressions are their MatchString function (str -> bool), quantified over; Go regexp is evaluated by the harness into the truth table the model receives",
        "encoding/json decoding of artifactType / config.mediaType / annotations is modelled as field selection (s_mat, s_mcfg, s_mann)",
        "for a remote repository the source's predecessor relation is the referrers (subject) relation only (Repository.Predecessors = Referrers); HTTP, pagination and the tag-schema fallback are exercised through an in-memory registry, not modelled (C15 models the page loop): the client's ReferrerListPageSize (unset / smaller / equal / larger), the registry's page cap, short pages with Link and server-side vs client-side artifactType filtering are drawn independently; a predecessor the source does not serve is reported (predecessors-missing); errors of Predecessors/Fetch are not modelled (findRoots returns them unchanged)",
        "regenerated from extendedcopy.go on every run (Generated/GC03.v) and EXECUTED by the extracted runner: the media type case lists of FilterArtifactType / FilterAnnotation / fetchArtifactType (mtswitch), the guarded return rules of fetchArtifactType per case (c03fetchrules, interpreted by fetch_artifact_type), the depth arithmetic of findRoots (c03findroots: start depth, stop condition, pushed depth), the keep closures and fetch guards of both filters (c03filterkeep); C03_runner_is_model / C03_runner_filters_are_model / fetch_artifact_type_table prove them equal to the functions the theorems speak about, so an edit of these pieces breaks layer T or P. Hand-written and tied by correspondence + AST anchors only: the loop skeleton of findRoots (pop, visited, push order), the ReferrerLister branch, fetchAnnotations",
    ],
    "level_text": "(second extension round: C03_direct_predecessors_covered -- for any Depth every followed direct predecessor of the given node lies under a root, so Depth >= 1 never loses a direct referrer; error model below a caller-supplied FindPredecessors; exhaustive small-scope stream with filters) (extension round: failing source operations, caller-supplied FindPredecessors, call sequence, composition with C07 + C01 into the property's own sentences for graph.Memory-backed sources, order independence of the root set) Coq theorems for every source graph, served predecessor order, start node, Depth and filter stack about a model of findRoots (stack DFS, visited set, depth-tagged frames), FilterArtifactType/FilterAnnotation (fetch-on-missing-field) and the ExtendedCopy wrapper: roots = tops of the upward closure and cover it (Depth<=0), two-sided depth bound, termination, filter exactness w.r.t. manifest content, end-to-end closure modulo C01's copy-closure hypothesis; tied to the code by hook-level differential runs (findRoots, opts.FindPredecessors, fetchArtifactType, ExtendedCopy) and an independent oracle on ExtendedCopy/ExtendedCopyGraph over memory, OCI (fresh and reopened), file and remote (Referrers API with pagination, referrers tag schema) sources",
    "level_note": "oracle-only clauses: byte identity (the theorems speak of node membership, C01's has); the tag of ExtendedCopy in substance (C03_tagged / C03_error_origin are statements about the wrapper model Resolve / FindPredecessors / copy / Tag; its correspondence reads the destination's references and the CopyError op/origin of the first failing step; the Tag call is outside C01's transition system); the given node must be stored in the source: a foreign (non-distributable) layer as start node is outside the quantifier (never stored, pred_is_inverse_link is over foreign-cut links) and is not generated; errors of the root-finding phase are modelled (find_roots_e) and compared; errors of the copy phase are C02's -- the harness injects one failing source operation / registry request per fault case into ExtendedCopyGraph and demands error-or-full-closure; a finding made with Raw (store map order) reads may need several replays with Depth > 0; copy phase = hypothesis copy_closure_C01 (C01); remote sources through an in-memory read-only registry only; concurrency of the copy phase is exercised (Concurrency 0-4) but not modelled here; Docker manifests have no artifact type (effective type \"\")",
    "technique": "machine-checked proof in Coq (loop invariants of the stack DFS, for every served predecessor order) + model/implementation correspondence + independent oracle",
    "explanation": "small-scope exhaustive stream: every predecessor graph on <= 4 nodes (5 in thorough, sampled orders) x every served order x start x Depth 0..3 on a stub source; compared observables: root set, call sequence of FindPredecessors, opts.FindPredecessors output (ids, filled artifactType, annotations), fetchArtifactType, outcome under the k-th failing operation, ExtendedCopy wrapper tags; coverage floors per source kind / stream (harness exit 4 = layer R); every findRoots and copy call under a re-confirmed watchdog (a call that ignores cancellation is abandoned and reported). (thorough: sampled cases re-evaluated inside Coq with vm_compute against the extracted runner) loop-invariant proofs over the DFS of findRoots for every served order; filter exactness by induction over the filter stack; model vs implementation on findRoots (hook), opts.FindPredecessors and fetchArtifactType for random DAGs x source kinds x descriptor styles; oracle from the generator's inverse edge list and manifest fields on findRoots, ExtendedCopyGraph and ExtendedCopy",
}
