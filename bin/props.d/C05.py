"""C05 configuration (loaded by bin/props.py; `unhex` is provided)."""


def _c05_case(c):
    # the model line is "<op> <hashes> <rest>"; a replay carries "<op> <rest>"
    p = c.split(" ", 2)
    if len(p) == 3:
        return {"line": p[0] + " " + p[2]}
    return {"raw": c}


CONFIG = {
    "properties_file": "Properties/C05.v",
    "proof_files": ["Base/Prelude.v", "Proofs/Verify.v", "Proofs/VerifyComplete.v", "Proofs/VerifyProxy.v", "Proofs/VerifyFuel.v", "Proofs/VerifyConc.v"],
    "model_files": ["Generated/GC05.v", "Model/Verify.v"],
    "extract": "XC05.v",
    "ml_main": "c05_main.ml",
    "harness": "c05",
    "case_to_replay": _c05_case,
    "assumptions": [
        "the digest function is a parameter H : algorithm -> bytes -> encoded digest of every theorem, with NO assumption (no collision freedom is used); the correspondence supplies the SHA-2 values (crypto/sha256, crypto/sha512 of the Go standard library) to the extracted model as a table",
        "go-digest v1.0.0 Digest.Validate / Verifier (pinned dependency) hand-modelled: sha256/sha384/sha512 registered, lower-case hex of the exact length; Verified() = (digest == alg:hex(hash))",
        "io.LimitedReader, io.TeeReader, io.ReadFull (io.ReadAtLeast) and io.CopyBuffer of the Go standard library hand-modelled statement by statement; the destination writer never fails (disk-full / write errors are not modelled)",
        "os.File.ReadFrom falls back to io.Copy with a 32 KiB buffer for a *VerifyReader source (go1.26.8, linux); the theorems hold for every buffer size",
        "file system: os.CreateTemp names are unique, os.Rename is atomic and replaces the target (process runs as root, so a read-only target is replaced rather than refused); blobs/<alg>/<encoded> is injective in the digest string",
        "file.Store: only plain file names (no path traversal, no unpack annotation, non-manifest media types); two different names never resolve to the same path",
        "concurrent pushes: the micro-step transition system of Model/Verify.v (cstep) is tied to the code by outcome membership: for races of 2-3 goroutines on one OCI layout the observed per-goroutine results + final blobs/ listing + ingest/ count must be one of the terminal outcomes of the exhaustive interleaving of the model (explore, proved to produce runs of the system only; Writes are explored unsplit because they touch only the thread's own ingest file -- this reduction is argued, not proved); individual file-system micro-steps are not observed (no syscall tracing); larger races and memory/limited stores are covered by the concurrent oracle only",
        "cas.Proxy is modelled for a cas.Memory cache (NewProxy / NewProxyWithLimit), a caller that issues any sequence of Read sizes and then Close, StopCaching on/off; the io.Pipe is synchronous, which makes the session deterministic (a Write returns the prefix the push consumed + the push error, the drain loop after a successful push consumes the rest); a caller that never calls Close, Proxy over other cache implementations and Proxy.Exists are not modelled",
    ],
    "level_text": "Coq theorems for every reader behaviour (arbitrary chunking, 0-byte reads, error at any offset, data with EOF), every descriptor and every digest function: ReadAll / any use of VerifyReader / CopyBuffer (any buffer size) succeed only with exactly the descriptor's bytes and an exhausted reader; malformed or unsupported digest, negative size, short reader, wrong first-Size bytes and trailing bytes are always errors; Push on memory, limited, OCI and file stores stores exactly those bytes or leaves Exists/Fetch/blobs unchanged; after any push history everything visible matches; any interleaving of concurrent OCI pushes keeps every blob verified; pre-fix negative-size acceptance kept as a refuted witness. Model tied to the code by differential runs (scripted readers x descriptors x push histories on the real stores, listing blobs/ and ingest/) and an independent SHA-2 oracle incl. goroutine races and the caching proxy",
    "level_note": "digest function abstract (no SHA-2 model); Go io helpers and go-digest validation hand-modelled (tied by correspondence, AST hashes of the mirrored functions recorded); write errors of the destination and path traversal/unpack in file.Store are not modelled; cas.Proxy is modelled for memory caches and closing callers; the concurrent transition system is tied by outcome-set membership of small races (not by per-syscall traces)",
    "technique": "machine-checked proof in Coq (invariants of the VerifyReader state machine over all reader scripts, store invariants over all push histories, transition-system invariant over all interleavings) + translator-regenerated constants/AST anchors + model/implementation correspondence",
    "explanation": "theorems about an executable model of content/reader.go, internal/ioutil/io.go, cas.Memory, LimitedStorage, oci.Storage.Push and file.Store.push whose reader is an arbitrary script; the extracted model and the real code are run on the same generated scripts/descriptors/push histories and their results, Exists/FetchAll observations and directory listings are diffed; an independent oracle recomputes SHA-2 and checks the property statement directly (also under goroutine races and through the caching proxy)",
}
