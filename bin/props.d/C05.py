"""C05 configuration (loaded by bin/props.py; `unhex` is provided)."""


def _c05_case(c):
    # the model line is "<op> <hashes> <rest>"; a replay carries "<op> <rest>"
    p = c.split(" ", 2)
    if len(p) == 3:
        return {"line": p[0] + " " + p[2]}
    return {"raw": c}



# ---------------------------------------------------------------------------
# Thorough tier: a sample of the correspondence cases is re-evaluated INSIDE Coq with
# vm_compute and compared with what the extracted OCaml runner printed (model.txt).
# This cross-checks the extraction and the OCaml driver, not the implementation.

_VM_ERR = {"WRITE": "Some EWrite", "SHORT_WRITE": "Some EShortWrite", "TRAVERSAL": "Some ETraversal", "OVERWRITE": "Some EOverwrite", "OK": "None", "EOF": "Some EEof", "INJECTED": "Some EInjected", "UNEXPECTED_EOF": "Some EUnexpEof",
           "BAD_DIGEST": "Some EBadDigest", "TRAILING": "Some ETrailing", "MISMATCH": "Some EMismatch",
           "EARLY": "Some EEarly", "INVALID_SIZE": "Some EInvalidSize", "EXISTS": "Some EExists",
           "TOO_BIG": "Some ETooBig", "NOT_FOUND": "Some ENotFound", "DUP_NAME": "Some EDupName", "FUEL": "Some EFuel"}

_VM_PRELUDE = """From Oras Require Import Base.Prelude Generated.GC05 Model.Verify.
Definition vm_fnv (s : str) : N := fold_left (fun h c => (N.lxor h c * 16777619) mod 4294967296) s 2166136261.
Definition vm_djb (s : str) : N := fold_left (fun h c => (h * 31 + c + 7) mod 4294967296) s 5381.
Definition vm_h (tbl : list (str * N * N * N * str)) (alg data : str) : str :=
  match find (fun e => match e with (a, l, f, d, _) =>
                 str_eqb a alg && (l =? N.of_nat (length data)) && (f =? vm_fnv data) && (d =? vm_djb data) end) tbl with
  | Some (_, _, _, _, hx) => hx
  | None => [63]
  end.
Definition vm_fuel (evs : list ev) : nat := S (S (S (ev_weight evs))).
Definition vm_delivered (evs : list ev) (v : vrd) : nat := (length (stream evs) - length (stream (b_evs (v_base v))))%nat.
"""


def _vm_str(h):
    if h == "-" or h == "":
        return "(@nil N)"
    return "[" + "; ".join(str(x) for x in bytes.fromhex(h)) + "]"


def _vm_script(tok):
    if tok == "-":
        return "(@nil ev)"
    out = []
    for t in tok.split(","):
        out.append("Zero" if t == "Z" else "Fail" if t == "F" else "Eof" if t == "E" else "Data %s" % _vm_str(t[1:]))
    return "[" + "; ".join(out) + "]"


def _vm_tbl(tok):
    if tok == "-":
        return "(@nil (str * N * N * N * str))"
    out = []
    for e in tok.split(","):
        a, l, f, d, hx = e.split(":")
        out.append("(%s, %s, %s, %s, %s)" % (_vm_str(a), l, f, d, _vm_str(hx)))
    return "[" + "; ".join(out) + "]"


def _vm_z(t):
    return "(%d)%%Z" % int(t)


def _vm_lim(t):
    return "None" if t == "-" else "(Some %s)" % _vm_z(t)


def _vm_bool(t):
    return "true" if t == "1" else "false"


def _vm_goal(case, out):
    p = case.split(" ")
    o = out.split(" ")
    if p[0] == "RA":
        _, hs, dg, sz, comb, lim, sc = p
        call = "read_all (vm_h %s) %s true (vm_fuel evs) (mkBase evs %s) %s %s" % (_vm_tbl(hs), _vm_bool(comb), _vm_lim(lim), _vm_str(dg), _vm_z(sz))
        if o[0] == "OK":
            ln, fv = o[2].split(":")
            return ("let evs := %s in let '((e, buf), v) := %s in (e, vm_delivered evs v, length buf, vm_fnv buf)\n  = (None, %s%%nat, %s%%nat, %s)"
                    % (_vm_script(sc), call, o[1], ln, fv))
        return "let evs := %s in let '((e, buf), v) := %s in (e, vm_delivered evs v) = (%s, %s%%nat)" % (_vm_script(sc), call, _VM_ERR[o[0]], o[1])
    if p[0] == "CB":
        _, hs, bufsz, dg, sz, comb, lim, sc = p
        call = "copy_buffer (vm_h %s) %s true (vm_fuel evs) (mkBase evs %s) %s%%nat %s %s" % (_vm_tbl(hs), _vm_bool(comb), _vm_lim(lim), bufsz, _vm_str(dg), _vm_z(sz))
        ln, fv = o[2][1:].split(":")
        return ("let evs := %s in let '((e, out), v) := %s in (e, vm_delivered evs v, length out, vm_fnv out)\n  = (%s, %s%%nat, %s%%nat, %s)"
                % (_vm_script(sc), call, _VM_ERR[o[0]], o[1], ln, fv))
    if p[0] == "CW":
        _, hs, bufsz, dg, sz, comb, lim, sc, wmode, wat = p
        call = ("copy_buffer_w (vm_h %s) %s true (vm_fuel evs) (mkBase evs %s) %s%%nat %s %s (mkW (Some %s) %s%%nat)"
                % (_vm_tbl(hs), _vm_bool(comb), _vm_lim(lim), bufsz, _vm_str(dg), _vm_z(sz), "WShort" if wmode == "short" else "WFail", wat))
        ln, fv = o[2][1:].split(":")
        return ("let evs := %s in let '(((e, out), v), _) := %s in (e, vm_delivered evs v, length out, vm_fnv out)\n  = (%s, %s%%nat, %s%%nat, %s)"
                % (_vm_script(sc), call, _VM_ERR[o[0]], o[1], ln, fv))
    if p[0] == "PF":
        hs, kind, n = p[1], p[2], int(p[3])
        f = p[4:]
        limit = "None" if kind == "mem" else "(Some %s)" % _vm_z(kind[3:])
        lets, closes, reads = [], [], []
        m = "(@nil (desc * str))"
        steps = " ".join(o).split(" | ")
        for i in range(n):
            stop, mt, dg, sz, comb, sc, ks = f[7 * i:7 * i + 7]
            kl = "(@nil nat)" if ks == "-" else "[" + "; ".join(k + "%nat" for k in ks.split(",")) + "]"
            lets.append("let '((rs%d, c%d), m%d) := proxy_fetch (vm_h tbl) %s %s %s (mkDesc %s %s %s) %s %s %s in"
                        % (i, i, i, limit, _vm_bool(stop), m, _vm_str(mt), _vm_str(dg), _vm_z(sz), _vm_bool(comb), _vm_script(sc), kl))
            m = "m%d" % i
            toks = steps[i].split(" ")
            rd = [t for t in toks if t.startswith("r=")]
            cl = [t for t in toks if t.startswith("c=")][0][2:]
            closes.append(_VM_ERR[cl])
            reads.append("[" + "; ".join("(%s%%nat, %s)" % (t[2:].split("/")[0].split(":")[0], _VM_ERR[t.split("/")[1]]) for t in rd) + "]"
                         if rd else "(@nil (nat * option rerr))")
        b = steps[n].strip()[2:] if len(steps) > n else "-"
        cnt = 0 if b == "-" else b.count(";") + 1
        return ("let tbl := %s in %s\n  ([%s], [%s], length %s)\n  = ([%s], [%s], %d%%nat)"
                % (_vm_tbl(hs), "\n  ".join(lets),
                   "; ".join("map (fun r => (length (fst r), snd r)) rs%d" % i for i in range(n)),
                   "; ".join("c%d" % i for i in range(n)), m,
                   "; ".join(reads), "; ".join(closes), cnt))
    if p[0] == "ST" and p[2].startswith("file"):
        hs, kind, n = p[1], p[2], int(p[3])
        f = p[4:]
        opts = {"fileD": "(mkOpts true false (Some defaultFallbackPushSizeLimit))", "fileI": "(mkOpts false true (Some defaultFallbackPushSizeLimit))",
                "fileF": "(mkOpts false false None)"}.get(kind, "default_opts")
        lets, res = [], []
        st = "(mkFs [] [] [] [])"
        for i in range(n):
            name, mt, dg, sz, comb, sc = f[6 * i:6 * i + 6]
            nm = name.split(":")[0]
            lets.append("let evs%d := %s in let '(e%d, s%d) := file_push_opt (vm_h tbl) %s true %s (vm_fuel evs%d) %s %s (mkDesc %s %s %s) evs%d in"
                        % (i, _vm_script(sc), i, i, _vm_bool(comb), opts, i, st, _vm_str(nm), _vm_str(mt), _vm_str(dg), _vm_z(sz), i))
            st = "s%d" % i
            res.append(_VM_ERR[o[3 * i]])
        b = [t for t in o if t.startswith("B=")][0][2:]
        cnt = 0 if b == "-" else b.count(";") + 1
        return ("let tbl := %s in %s\n  ([%s], length (f_files %s)) = ([%s], %d%%nat)"
                % (_vm_tbl(hs), "\n  ".join(lets), "; ".join("e%d" % i for i in range(n)), st, "; ".join(res), cnt))
    if p[0] == "ST" and p[2] in ("mem", "oci"):
        hs, kind, n = p[1], p[2], int(p[3])
        f = p[4:]
        lets, res = [], []
        st = "(@nil (%s * str))" % ("desc" if kind == "mem" else "str")
        for i in range(n):
            name, mt, dg, sz, comb, sc = f[6 * i:6 * i + 6]
            push = "mem_push" if kind == "mem" else "oci_push"
            lets.append("let evs%d := %s in let '(e%d, s%d) := %s (vm_h tbl) %s true (vm_fuel evs%d) %s (mkDesc %s %s %s) (mkBase evs%d None) in"
                        % (i, _vm_script(sc), i, i, push, _vm_bool(comb), i, st, _vm_str(mt), _vm_str(dg), _vm_z(sz), i))
            st = "s%d" % i
            res.append(_VM_ERR[o[3 * i]])
        b = [t for t in o if t.startswith("B=")][0][2:]
        cnt = 0 if b == "-" else b.count(";") + 1
        return ("let tbl := %s in %s\n  ([%s], length %s) = ([%s], %d%%nat)"
                % (_vm_tbl(hs), "\n  ".join(lets), "; ".join("e%d" % i for i in range(n)), st, "; ".join(res), cnt))
    return None


def _c05_vm_sample(d, tier, coq, build, want=240):
    import os, subprocess, collections
    outs = {}
    with open(os.path.join(d, "model.txt")) as f:
        for l in f:
            i, _, o = l.rstrip("\n").partition(" ")
            outs[i] = o
    # floor: the model must have judged most of the run (a driver that answers UNJUDGED
    # everywhere would otherwise pass silently)
    judged = sum(1 for o in outs.values() if not o.startswith("UNJUDGED"))
    if len(outs) >= 1000 and judged * 2 < len(outs):
        return ["the model judged only %d of %d cases" % (judged, len(outs))]
    if len(outs) < 1000:
        return []  # replay / corpus runs
    if tier == "thorough":
        quota = {"RA": 80, "CB": 80, "ST": 70, "STF": 50, "CW": 40, "PF": 40}
    else:
        quota, want = {"RA": 15, "CB": 15, "ST": 15, "STF": 10, "CW": 8, "PF": 8}, 50
    total, got, stride = collections.Counter(), collections.Counter(), collections.Counter()

    def eligible(c):
        k = c.split(" ", 1)[0]
        if k not in quota or len(c) > 2500:
            return None
        if k == "ST":
            kd = c.split(" ")[2]
            if kd.startswith("file"):
                return "STF"
            if kd not in ("mem", "oci"):
                return None
        return k
    with open(os.path.join(d, "cases.txt")) as f:
        for l in f:
            k = eligible(l.rstrip("\n").partition(" ")[2])
            if k:
                total[k] += 1
    goals = []
    with open(os.path.join(d, "cases.txt")) as f:
        for l in f:
            i, _, c = l.rstrip("\n").partition(" ")
            k = eligible(c)
            if not k or got[k] >= quota[k] or i not in outs:
                continue
            stride[k] += 1
            if (stride[k] - 1) % max(1, total[k] // quota[k]) != 0:
                continue
            g = _vm_goal(c, outs[i])
            if g:
                got[k] += 1
                goals.append((i, g))
    vdir = os.path.join(build, "vm")
    os.makedirs(vdir, exist_ok=True)
    vf = os.path.join(vdir, "C05_cases.v")
    with open(vf, "w") as f:
        f.write(_VM_PRELUDE)
        for i, g in goals:
            f.write("\n(* %s *)\nGoal %s.\nProof. vm_compute. reflexivity. Qed.\n" % (i, g))
    p = subprocess.run(["coqc", "-R", coq, "Oras", "-w", "-notation-overridden", vf], cwd=vdir, timeout=1500,
                       stdout=subprocess.PIPE, stderr=subprocess.STDOUT, text=True)
    with open(os.path.join(d, "vm_sample.txt"), "w") as f:
        f.write("%d goals %s rc=%d\n%s" % (len(goals), dict(got), p.returncode, p.stdout[-3000:]))
    if p.returncode != 0:
        return ["vm_compute re-evaluation of %d sampled cases inside Coq disagrees with the extracted runner (or does not type-check): %s"
                % (len(goals), p.stdout[-1200:])]
    if len(goals) < want // 2:
        return ["vm_compute sample too small: %d goals" % len(goals)]
    return []


CONFIG = {
    "properties_file": "Properties/C05.v",
    "proof_files": ["Base/Prelude.v", "Proofs/Verify.v", "Proofs/VerifyComplete.v", "Proofs/VerifyProxy.v", "Proofs/VerifyFuel.v", "Proofs/VerifyConc.v", "Proofs/VerifyTop.v", "Proofs/VerifyWriter.v", "Proofs/VerifyNames.v", "Proofs/VerifyFileConc.v", "Proofs/VerifyOpts.v", "Proofs/VerifyFacts.v", "Proofs/VerifyChunk.v", "Proofs/VerifyEof.v", "Proofs/VerifyAny.v"],
    "model_files": ["Generated/GC05.v", "Model/Verify.v", "Model/VerifyAny.v"],
    "extract": "XC05.v",
    "ml_main": "c05_main.ml",
    "harness": "c05",
    "case_to_replay": _c05_case,
    "post_model": _c05_vm_sample,
    "assumptions": [
        "every reader behaviour: the correspondence cases hand the code scripted readers (optionally inside one io.LimitReader, and - reader behaviour nested-verify-reader - inside a content.VerifyReader for the same digest built with the stream's true length); the theorems C05_verify_any_reader / C05_verify_reader_closure / C05_nested_verify_reader quantify over ANY reader state machine obeying the io.Reader contract (at most len(p) bytes per Read), C05_any_reader_instance_is_model ties the generic definitions to the scripted-reader model that is run against the code; a reader that returns more than len(p) bytes is outside the quantifier (it panics io.LimitedReader's callers)",
        "the digest function is a parameter H : algorithm -> bytes -> encoded digest of every theorem, with NO assumption (no collision freedom is used); the correspondence supplies the SHA-2 values (crypto/sha256, crypto/sha512 of the Go standard library) to the extracted model as a table",
        "go-digest (pinned dependency): the algorithm table (names, encoded lengths, lower-case hex) is regenerated by the translator from its algorithm.go (kind c05_digest_algs); Digest.Validate's control flow and Verified() = (digest == alg:hex(hash)) are hand-modelled; all three algorithms are available because the harness links crypto/sha256 and crypto/sha512",
        "io.LimitedReader, io.TeeReader, io.ReadFull (io.ReadAtLeast) and io.CopyBuffer (incl. its write-error / io.ErrShortWrite handling: copy_loop_w) of the Go standard library are hand-modelled statement by statement and tied by the correspondence; os.File.ReadFrom falls back to io.Copy with a 32 KiB buffer for a *VerifyReader source (go1.26.8, linux) -- irrelevant: the theorems hold for every buffer size and C05_copybuffer_bufsz_independent proves the result is the same for all of them",
        "reader scripts quantify over arbitrary chunking, 0-byte reads, any number of injected errors, data+EOF / data+error in one call, and readers for which io.EOF is not final (an Eof event answers (0, EOF) once and the script goes on); the clauses 'the whole reader equals the result', 'trailing bytes are an error', 'a failing reader is rejected' and the completeness theorems are stated for scripts without such a mid-script EOF (neof = 0); for every script C05_accepts_exactly_upto_eof / C05_trailing_before_eof_rejected say the same about the bytes before the first EOF (what lies behind an EOF is never read)",
        "descriptor sizes above 2^30 are outside the CORRESPONDENCE (the extracted model counts in Peano numbers) but inside theorems and oracle: Size 1<<62 / MaxInt64 are generated for ReadAll and the memory / limited / OCI / file stores under recover() (oracle: an error, no panic); they are not generated for the caching proxy, whose push goroutine cannot be guarded by the harness",
        "file system: os.CreateTemp names are unique, os.Rename is atomic and replaces the target (process runs as root), blobs/<alg>/<encoded> is injective in the digest string; disk faults of oci.Storage / file.Store (ENOSPC, a failing Close) are not injected -- note: file.Store.saveFile records digestToPath before the deferred Close, which a Close error would leave behind (not observable by this check)",
        "file.Store: resolveWritePath is modelled for relative slash-separated names (lexical filepath.Clean, refusal of names that leave the working directory; absolute names are generated only outside the working directory and refused) and compared with filepath.Clean on every generated name; symbolic links in the working directory, AllowPathTraversalOnWrite, the unpack annotation (pushDir) and manifest media types (restoreDuplicates, graph indexing) are not generated; names that alias one path ARE generated and modelled: there the property fails (known finding file-alias-clobbers-visible; C05_push_file_names assumes no_alias, C05_push_file_alias_refuted is the witness, C05_push_file_disable_overwrite needs no such hypothesis)",
        "store options and wrappers: DisableOverwrite, IgnoreNoName (documented discard: Push returns nil without reading), NewWithFallbackStorage(unlimited cas.Memory) are modelled (file_push_opt) and judged by the correspondence; ForceCAS only matters for manifests; the public oci.Store / memory.Store are judged against the oci.Storage / cas.Memory models (for non-manifest media types their Push adds only graph/index bookkeeping)",
        "cas.Proxy is modelled for a cas.Memory cache (NewProxy / NewProxyWithLimit), a caller that issues any sequence of Read sizes and then Close, StopCaching on/off; the io.Pipe is synchronous, which makes the session deterministic (a Write returns the prefix the push consumed + the push error, the drain loop after a successful push consumes the rest) -- this determinism is argued, the pipe itself is not a transition system; a caller that never calls Close (its observation would race with the push goroutine), Proxy over other cache implementations and Proxy.Exists are not modelled",
        "concurrency: three transition systems with invariant theorems over every schedule -- oci.Storage pushes (cstep: Stat / CreateTemp / Write / Remove / Rename), cas.Memory / LimitedStorage pushes (mstep: Load / ReadAll / LoadOrStore), named file.Store pushes (fstep: name lock, duplicate check, resolveWritePath, Create, CopyBuffer, record-or-remove; digestToPath.Store and status.exists are one step); their exhaustive explorers are proved sound and complete, and for the OCI system splitting the Writes is proved not to add outcomes (C05_split_writes_explored) and the explorer's fuel 4n+2 is proved sufficient (C05_explorer_fuel) and races of 2-3 goroutines must end in one of the explored outcomes; larger races, oci.Store races and the 'at every instant' clause are observed by a polling goroutine (Fetch and a walk of blobs/), i.e. by sampling; no per-syscall traces",
        "translator (layer T) for C05: defaultFallbackPushSizeLimit (const), go-digest algorithm table (c05_digest_algs), 17 source facts (c05_srcfact, C05_source_facts), the size guards of LimitedStorage.Push / ReadAll / NewVerifyReader / Verify as Gallina functions (c05_zguard, C05_source_guards), AST anchors of 30 mirrored functions",
        "the in-Coq vm_compute re-evaluation of correspondence cases (ReadAll, CopyBuffer, faulty destination, store / file / proxy histories): about 70 goals in the quick tier, 360 in the thorough tier",
    ],
    "level_text": "Coq theorems for every reader script (arbitrary chunking, 0-byte reads, errors at any offsets, data with EOF/error), every descriptor, every digest function and every fuel above the script weight: ReadAll / FetchAll / any use of VerifyReader / CopyBuffer (any buffer size, also into a failing or short-writing destination) succeed only with exactly the descriptor's bytes and an exhausted reader, and do succeed on every well-behaved reader of the right bytes; malformed or unsupported digest, negative size, short or failing reader, wrong first-Size bytes and trailing bytes are always errors; Push on memory, limited, OCI and file stores (resolveWritePath and the options DisableOverwrite / IgnoreNoName / fallback limit included) stores exactly those bytes or leaves Exists/Fetch/blobs unchanged, over all histories; the caching proxy's cache only ever holds verified content over all fetch histories; three transition systems (OCI, memory/limited, named file pushes) keep everything visible verified under every schedule; refuted witnesses for the pre-fix negative size and for file-name aliasing. Model tied to the code by differential runs (scripted readers x descriptors x push / fetch histories on the real stores and wrappers, listings of blobs/, ingest/ and the working directory, a final sweep of every descriptor), outcome membership of goroutine races in the exhaustively explored (sound + complete) model outcomes, translator-regenerated digest table and source facts, an in-Coq vm_compute sample, and an independent SHA-2 oracle",
    "level_note": "digest function abstract (no SHA-2 model); Go io helpers hand-modelled and tied by correspondence, AST hashes, 17 translator-checked source facts and translator-generated size guards (c05_zguard: the model's guards are proved equal to the translated Go if-conditions); go-digest table regenerated; sizes > 2^30 (oracle only), disk faults, symlinks / unpack / manifests in file.Store and non-closing proxy callers are not modelled; file.Store name aliasing violates the property (known finding file-alias-clobbers-visible; full theorems under no_alias or DisableOverwrite); concurrency theorems are tied to the code by outcome membership of small races, not by syscall traces",
    "technique": "machine-checked proof in Coq (invariants of the VerifyReader state machine over all reader scripts, store invariants over all push histories, transition-system invariant over all interleavings) + translator-regenerated constants/AST anchors + model/implementation correspondence",
    "explanation": "theorems about an executable model of content/reader.go, internal/ioutil/io.go, cas.Memory, LimitedStorage, oci.Storage.Push and file.Store.push whose reader is an arbitrary script; the extracted model and the real code are run on the same generated scripts/descriptors/push histories and their results, Exists/FetchAll observations and directory listings are diffed; an independent oracle recomputes SHA-2 and checks the property statement directly (also under goroutine races and through the caching proxy)",
}
