"""C05 configuration (loaded by bin/props.py; `unhex` is provided)."""


def _c05_case(c):
    # the model line is "<op> <hashes> <rest>"; a replay carries "<op> <rest>"
    p = c.split(" ", 2)
    if len(p) == 3:
        return {"line": p[0] + " " + p[2]}
    return {"raw": c}


CONFIG = {
    "properties_file": "Properties/C05.v",
    "proof_files": ["Base/Prelude.v", "Proofs/Verify.v"],
    "model_files": ["Generated/GC05.v", "Model/Verify.v"],
    "extract": "XC05.v",
    "ml_main": "c05_main.ml",
    "harness": "c05",
    "case_to_replay": _c05_case,
    "assumptions": [],
    "level_text": "",
    "level_note": "",
    "technique": "machine-checked proof in Coq + model/implementation correspondence",
    "explanation": "",
}
