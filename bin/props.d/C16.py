"""C16 configuration (loaded by bin/props.py; `unhex` is provided)."""


def _c16_case(c):
    p = c.split(" ")
    if p[0] == "H":
        return {"op": "H", "hseed": p[1]}
    if p[0] in ("S", "A", "G", "C"):
        return {"op": p[0], "line": c}
    return {"raw": c}



# ---------- in-Coq re-evaluation of a sample of correspondence cases (thorough tier) ----------
_VM_PRELUDE = """From Oras Require Import Base.Prelude Model.Scopes Model.Challenge Model.AuthClient Model.Once Model.CacheSet Model.Redirect.
Definition chproj (h : str) :=
  match parse_challenge h with
  | ChUnjudged => None
  | Ch s p => Some (s, length p, get_param s_realm p, get_param s_service p, get_param s_scope p)
  end.
Inductive psend :=
| PReg (h : N) (a : auth)
| PDist (h : N) (realm service scopes : str) (bb : option secret)
| POAuth (h : N) (realm service scopes : str) (g : secret).
Definition proj_send (s : send) : psend :=
  match s with
  | SReg h a _ => PReg h a
  | SDist h r sv sc bb => PDist h r sv (join [c_space] sc) bb
  | SOAuth h r sv sc g => POAuth h r sv (join [c_space] sc) g
  end.
Definition proj_run (o : list (list event * result)) :=
  map (fun x => (map (fun e => proj_send (fst e)) (fst x), snd x)) o.
"""


def _cstr(h):
    if h == "-":
        return "([] : str)"
    b = bytes.fromhex(h)
    return "([" + "; ".join(str(x) for x in b) + "] : str)"


def _clist(items):
    return "([" + "; ".join(items) + "] : list str)"


def _csecret(t):
    k, rest = t[0], t[1:]
    if k == "I":
        h, i = rest.split(".")
        return "(SIssued %s %s)" % (h, i)
    return "(%s %s)" % ({"B": "SBasicTok", "P": "SUserPass", "F": "SRefresh", "A": "SAccess"}[k], rest)


def _cauth(t):
    if t == "-":
        return "NoAuth"
    return "(%s %s)" % ("ABasic" if t[0] == "b" else "ABearer", _csecret(t[1:]))


class _Toks:
    def __init__(self, l):
        self.l, self.i = l, 0

    def next(self):
        self.i += 1
        return self.l[self.i - 1]

    def strs(self):
        n = int(self.next())
        return [_cstr(self.next()) for _ in range(n)]


def _vm_goal(case, out):
    t = _Toks(case.split(" "))
    k = t.next()
    if out.startswith("UNJUDGED") and k != "C":
        return None
    if k in ("S", "A"):
        f = "clean_scopes" if k == "S" else "clean_actions"
        return "%s %s = %s" % (f, _clist(t.strs()), _clist([_cstr(x) for x in out.split(" ")[1:]]))
    if k == "G":
        a = t.strs()
        b_ = t.strs()
        return "get_all_scopes clean_scopes %s %s = %s" % (_clist(a), _clist(b_), _clist([_cstr(x) for x in out.split(" ")[1:]]))
    if k == "C":
        h = _cstr(t.next())
        if out.startswith("UNJUDGED"):
            return "chproj %s = None" % h
        o = out.split(" ")
        sch = {"unknown": "SchUnknown", "basic": "SchBasic", "bearer": "SchBearer"}[o[1]]
        return "chproj %s = Some (%s, %s%%nat, %s, %s, %s)" % (h, sch, o[2], _cstr(o[3]), _cstr(o[4]), _cstr(o[5]))
    if k == "RD":
        a, c, st = t.next(), t.next(), t.next()
        flags = t.l[t.i:]
        o = out.split(" ")
        goals = []
        if "noauth" not in flags:
            goals.append("keeps_authorization %s %s = %s" % (_cstr(a), _cstr(c), "true" if o[0] == "AUTH-KEPT" else "false"))
        if "nobody" not in flags:
            goals.append("keeps_body %s = %s" % (st, "true" if o[1] == "BODY-KEPT" else "false"))
        return " /\\ ".join(goals) if goals else None
    if k == "O":
        n = int(t.next())
        evs = []
        for _ in range(n):
            e = t.next()
            g, _, v = e[1:].partition(".")
            evs.append({"a": "OAcquire %s", "d": "ODone %s %s", "c": "OCancelF %s", "r": "OReadClosed %s %s", "x": "OCtxDone %s"}[e[0]]
                       % ((g, v) if e[0] in "dr" else (g,)))
        return "once_accepts [%s] = %s" % ("; ".join(evs), "true" if out == "ACCEPT" else "false")
    if k == "KS":
        n = int(t.next())
        tbl = []
        for _ in range(n):
            g, h, sch, key = t.next(), t.next(), t.next(), t.next()
            sch = {"basic": "SchBasic", "bearer": "SchBearer"}.get(sch, "SchUnknown")
            tbl.append("(%s, mkCall (%s, %s, %s) None)" % (g, h, sch, _cstr(key)))
        m = int(t.next())
        evs = []
        for _ in range(m):
            e = t.next()
            g, _, v = e[1:].partition(".")
            c = e[0]
            if c == "L":
                evs.append("(CLoad %s, %s)" % (g, ("Some %s%%nat" % v) if v else "None"))
            elif c == "D":
                evs.append("(CDelete %s, None)" % g)
            else:
                oe = {"a": "OAcquire %s", "d": "ODone %s %s", "c": "OCancelF %s", "r": "OReadClosed %s %s", "x": "OCtxDone %s"}[c] \
                    % ((g, v) if c in "dr" else (g,))
                evs.append("(COnce %s (%s), None)" % (g, oe))
        return "set_accepts [%s] [%s] = %s" % ("; ".join(tbl), "; ".join(evs), "true" if out == "ACCEPT" else "false")
    if k == "H":
        t.next()  # history seed
        fl = {"none": "FNone", "shared": "FShared", "single": "FSingle"}[t.next()]
        oauth2 = "true" if t.next() == "1" else "false"
        creds = []
        for _ in range(int(t.next())):
            h, f = t.next(), t.next()
            creds.append("(%s, mkCred %s)" % (h, " ".join("true" if c == "1" else "false" for c in f)))
        errs = [t.next() for _ in range(int(t.next()))]
        ptable = []
        for _ in range(int(t.next())):
            hdr, sch, realm, service, scope = t.next(), t.next(), t.next(), t.next(), t.next()
            sch = {"basic": "SchBasic", "bearer": "SchBearer"}.get(sch, "SchUnknown")
            ptable.append("(%s, (%s, [(s_realm, %s); (s_service, %s); (s_scope, %s)]))" % (_cstr(hdr), sch, _cstr(realm), _cstr(service), _cstr(scope)))
        hist = []
        for _ in range(int(t.next())):
            h = t.next()
            body = {"none": "BNone", "rewind": "BRewindable", "once": "BOnce", "geterr": "BGetBodyErr"}[t.next()]
            hh = t.strs()
            gh = t.strs()
            script = []
            for _ in range(int(t.next())):
                a = t.next()
                script.append({"K": "AOk", "F": "AFail", "X": "AErr", "Z": "AShareFail"}.get(a[0]) or
                              ("A401 %s" % _cstr(a[1:]) if a[0] == "U" else ("AShare %s" % a[1:] if a[0] == "S" else "ATok %s" % a[1:])))
            hist.append("(mkReq %s %s %s %s, [%s])" % (h, _clist(hh), _clist(gh), body, "; ".join(script)))
        exp = []
        for part in out.split(" | "):
            sends = []
            res = None
            for w in part.split(" "):
                if w.startswith("="):
                    res = {"=401": "RResp true", "=ok": "RResp false", "=nocred": "RErr ENoCred", "=missing": "RErr EMissing",
                           "=fetch": "RErr EFetch", "=rewind": "RErr ERewind", "=transport": "RErr ETransport", "=crederr": "RErr ECred"}[w]
                elif w[0] == "R":
                    h, a = w[1:].split(":", 1)
                    sends.append("PReg %s %s" % (h, _cauth(a)))
                else:
                    h, realm, service, scopes, last = w[1:].split(":")
                    if w[0] == "D":
                        sends.append("PDist %s %s %s %s %s" % (h, _cstr(realm), _cstr(service), _cstr(scopes),
                                                               "None" if last == "-" else "(Some %s)" % _csecret(last)))
                    else:
                        sends.append("POAuth %s %s %s %s %s" % (h, _cstr(realm), _cstr(service), _cstr(scopes), _csecret(last)))
            exp.append("([%s], %s)" % ("; ".join(sends), res))
        return "proj_run (run_model %s %s [%s] [%s] [%s] [%s]) = [%s]" % (fl, oauth2, "; ".join(creds), "; ".join(errs), "; ".join(ptable), "; ".join(hist), "; ".join(exp))
    return None


def _c16_vm_sample(d, tier, coq, build, want=300):
    import os, subprocess, collections
    if tier != "thorough":
        return []
    outs = {}
    with open(os.path.join(d, "model.txt")) as f:
        for l in f:
            i, _, o = l.rstrip("\n").partition(" ")
            outs[i] = o
    quota = {"S": 80, "A": 40, "G": 30, "C": 80, "H": 30, "O": 25, "KS": 25, "RD": 30}
    total = collections.Counter()
    with open(os.path.join(d, "cases.txt")) as f:
        for l in f:
            c = l.split(" ", 2)
            if len(c) > 1 and len(l) <= 4000:
                total[c[1]] += 1
    got, stride, goals = collections.Counter(), collections.Counter(), []
    with open(os.path.join(d, "cases.txt")) as f:
        for l in f:
            i, _, c = l.rstrip("\n").partition(" ")
            k = c.split(" ", 1)[0]
            if k not in quota or got[k] >= quota[k] or len(l) > 4000 or i not in outs:
                continue
            stride[k] += 1
            if (stride[k] - 1) % max(1, total[k] // quota[k]) != 0:
                continue
            g = _vm_goal(c, outs[i])
            if g:
                got[k] += 1
                goals.append((i, g))
    vdir = os.path.join(build, "vm")
    os.makedirs(vdir, exist_ok=True)
    vf = os.path.join(vdir, "C16_cases.v")
    with open(vf, "w") as f:
        f.write(_VM_PRELUDE)
        for i, g in goals:
            f.write("\n(* %s *)\nGoal %s.\nProof. vm_compute. reflexivity. Qed.\n" % (i, g))
    p = subprocess.run(["coqc", "-R", coq, "Oras", "-w", "-notation-overridden", vf], cwd=vdir, timeout=1500,
                       stdout=subprocess.PIPE, stderr=subprocess.STDOUT, text=True)
    with open(os.path.join(d, "vm_sample.txt"), "w") as f:
        f.write("%d goals %s rc=%d\n%s" % (len(goals), dict(got), p.returncode, p.stdout[-3000:]))
    if p.returncode != 0:
        return ["vm_compute re-evaluation of %d sampled cases inside Coq disagrees with the extracted runner (or does not type-check): %s"
                % (len(goals), p.stdout[-1200:])]
    if len(goals) < want // 2:
        return ["vm_compute sample too small: %d goals" % len(goals)]
    return []


CONFIG = {
    "properties_file": "Properties/C16.v",
    "proof_files": ["Base/Prelude.v", "Proofs/Scopes.v", "Proofs/ScopesIdem.v", "Proofs/AuthClient.v", "Proofs/AuthHistory.v", "Proofs/Once.v", "Proofs/CacheSet.v", "Proofs/OnceSlot.v", "Proofs/AuthConc.v", "Proofs/Redirect.v", "Proofs/AuthOrder.v"],
    "model_files": ["Generated/GC16.v", "Model/Scopes.v", "Model/Challenge.v", "Model/AuthClient.v", "Model/Once.v", "Model/CacheSet.v", "Model/OnceSlot.v", "Model/AuthConc.v", "Model/Redirect.v"],
    "extract": "XC16.v",
    "ml_main": "c16_main.ml",
    "harness": "c16",
    "case_to_replay": _c16_case,
    "post_model": _c16_vm_sample,
    "assumptions": [
        "Credential(ctx, hostport) returns the credential OF hostport (the model's SBasicTok/SUserPass/SRefresh/SAccess h are tainted with the host they were asked for); a CredentialFunc that ignores its argument is outside the theorems; a CredentialFunc that returns an ERROR is modelled (cf_cred_err, outcome ECred), generated and compared",
        "ONE host per request: the model's host is http.Request.Host, which Client.Do uses for credentials, cache and scope hints; the wire destination is Request.URL.Host. The theorems say nothing about a caller that sets Host to one registry and URL.Host to ANOTHER (the credentials of Host then travel to URL.Host: caller inconsistency, outside the property's quantifier). The harness generates Host != URL.Host only as another address (alias) of the same registry, with credentials configured for the name only; correspondence and oracle cover it",
        "the servers are unconstrained: theorems quantify over every answer script (status, Www-Authenticate header bytes, token endpoint outcome, no response) AND over every total challenge parser (parse is a parameter of do_request; no theorem depends on Model/Challenge.v); a token returned by the token endpoint during a request to h is by definition h's token (SIssued h id)",
        "Model/Challenge.v (used by the runner only) models strconv.QuotedPrefix/Unquote for quoted strings without bytes >= 0x80 and with the escapes backslash-backslash and backslash-quote; for other headers the history case line carries what the real parseChallenge returned (parse_with) and the oracle compares that with the parameters the header was rendered from (challenge-params), so the flow after such a header is still compared; pure C cases outside the subset are UNJUDGED by the model and judged by the same ground truth",
        "a Bearer challenge without realm, or with an unparsable/relative realm: the model emits the token request (realm = empty string is trivially 'advertised'), Go fails before sending; harmless over-approximation, not generated",
        "scope hints are caller input: a hint that is empty or contains a space is outside the property (the protocol cannot express it; C16_cache_key_space_refuted shows that it aliases the cache key of another scope set); such hints ARE generated and compared with the model, the clause 'reused only for the same canonical scope set' is claimed for key-safe scopes (C16_cache_key_injective) and for the shared cache only: the single-context cache ignores scopes by design (C16_single_context_cache)",
        "requests that already carry an Authorization header are passed through unmodified (first lines of Client.Do): not a model request; generated, judged by the oracle (exactly one send, header unchanged) and by the following requests of the history (the cache must not have learned anything)",
        "net/http's redirect policy (is the Authorization header kept, is the body kept) is modelled in Model/Redirect.v and compared with net/http on every followed redirect (RD cases: other registry, same host name other port, alias address, sub-domain; 302/307/308); C16_redirect_other_port_refuted / C16_redirect_token_post_refuted are the witnesses of the two known findings. Redirects are followed by net/http below auth.Client, not by the modelled Client.Do: the harness answers 3xx (registry -> other registry / same host name other port / alias; token realm -> other host), scans the follow-up requests and reports the two known findings redirect-other-port-keeps-authorization and redirect-token-request-resent by mechanism (request created by a redirect + same host name resp. re-sent token request); a 401 from a redirect target is not generated (the model would treat it as the registry's own answer)",
        "a send that gets no response (transport error of the underlying http.Client, or the request context cancelled at that moment) is the answer AErr of the model; cancellation while WAITING on another request's in-flight fetch is covered by the Once/CacheSet systems and the concurrent mixes, not by the sequential model",
        "thorough tier: about 310 sampled correspondence cases (all case kinds) are re-evaluated inside Coq with vm_compute against the extracted runner's output (post_model hook)",
        "encoding/json, encoding/base64, net/url query/form encoding of the token requests are observed by the harness (decoded on the fake token server) but not modelled; the 'for which host' component of a token-request event is supplied by the harness (the request being served), not observed on the wire: realm, service, scopes and grant are observations",
        "syncutil.Once, slot bookkeeping: Model/OnceSlot.v is a slot machine whose per-caller program is the list of control paths of Once.Do after the receive, extracted from once.go by the translator kind c16_oncepaths (a statement it does not understand is UNTRANSLATABLE); C16_once_paths_release checks by computation that every path holding the slot hands it back or publishes, C16_once_slot_never_lost proves for every interleaving (callers with dead contexts included) that the slot is free, closed or owned by a caller that will release it; the recorded Once executions are replayed on it and the final slot state is compared with the hook Once.VerifSlotFree (OS cases). The deferred recover of Once.Do (what happens when the function argument panics) is extracted too (once_paths_panic) and is an event of the machine (SPanicF); panicking functions are generated in the Once cases (plan 5) and in the concurrent Set cases (accepted by Model/CacheSet.v as a hand-over); a panic anywhere else in Do is not modelled",
        "syncutil.Once: the Go select/channel semantics are the LTS of Model/Once.v (buffered-1 channel holding true / empty / closed); runtime scheduling is quantified over as arbitrary interleavings of the visible events; a panic inside f is a hand-over like a cancellation for the channel LTS (the slot machine of Model/OnceSlot.v has the precise path)",
        "CONCURRENCY: Model/AuthConc.v is Client.Do with its three cache reads as oracles and its cache write as an output (do_request is the special case, C16_sequential_is_special_case) and the system of any number of calls over one shared cache whose atomic steps are 'call j looks at the cache' and 'call j finishes'; C16_concurrent_no_cross_host holds for every interleaving. Atomicity assumption: sync.Map operations are atomic and concurrentCache.store is one atomic write (its intermediate state is a cache in which the lookup fails, which the oracle form allows). The budget (<= 3 sends, <= 1 fetch) is per call and independent of the cache, so it holds verbatim for concurrent calls (C16_budget is stated on do_request; do_request_rd has the same send structure). In concurrent mixes every call is replayed on do_request_rd with what the cache told it and what the servers answered (J cases, incl. the token of another call's in-flight fetch as answer AShare); a call that received another call's fetch ERROR is the model answer AShareFail (outcome EShared), judged as well. budget, outcome classification and valid => non-401 are proved on do_request_rd for arbitrary oracle answers (C16_concurrent_budget, C16_concurrent_valid_credentials_succeed); C16_store_intermediate_state: the state between the two map operations of concurrentCache.store is a host-tainted cache too",
        "concurrentCache.Set under concurrency is the transition system of Model/CacheSet.v (status map, Once instances, results; status.Delete over-approximated). Recorded executions of Set (direct and inside concurrent Client.Do mixes) are accepted by the extracted system: fetch start/end, delivered results and the identity of the in-flight entry (hook VerifInFlight, which recomputes the status key with a copy of the formula) are observed; LoadOrStore/Delete are hidden and PLACED by the harness at the latest point the observations allow, so acceptance means 'a consistent linearisation exists', not 'this was the order' (harness/cmd/c16/settrace.go)",
        "executions in which a delivered token/error cannot be attributed to exactly one fetch (Basic tokens, static access tokens, sentinel errors -- i.e. the long-lived secrets) are not judged by the Set trace acceptor (counted as settrace/*/unjudged; the harness fails if they exceed a quarter of the mixes); for them only the oracle applies",
        "C16_valid_credentials_succeed states 'valid credentials' on the outcome trace (no refused token request, no failed send, no 401 on a fresh send, no missing credential): it is the completeness of the outcome classification of C16_budget, not a statement about a server model",
    ],
    "level_text": "Coq theorems: CleanScopes is sorted, duplicate-free, idempotent, depends only on the set of its input (order/duplication/map-iteration-order insensitive) and '*' absorbs, for all byte strings; over every history of Client.Do calls with any cache flavour, credential table and server behaviour every send goes to the request's host or to a realm that host advertised and carries only that host's secrets, a Basic header reaches a host only after its Basic challenge, the cache stays host-tainted; <= 3 registry sends and <= 1 token fetch per call with a complete classification of non-success outcomes (valid credentials => the registry's non-401 answer); cache-key laws for the shared and the single-context cache; syncutil.Once as an LTS: one published result shared by all receivers, one fetch in flight, hand-over on cancellation",
    "level_note": "every harness case runs under a watchdog (3 s, re-confirmed or proven from the slot state; a stream with two wedges is abandoned), a wedge is an ORACLE FAIL (once-wedged / once-slot-lost / set-wedged / do-wedged / no-progress); clause 'cached token only for the same scope set': shared cache + key-safe scopes only (single-context cache ignores scopes by design; hints with spaces alias, refuted witness); concurrent Client.Do: no-cross-host proved for every interleaving of cache reads/completions (atomic cache operations assumed), each call of a mix replayed on the oracle-read model; budget and valid => non-401 proved per call for arbitrary cache answers; redirects: two known findings of net/http's policy below the auth client; five defects fixed (two in CleanScopes, two in the single-context cache's Set) (duplicates of unparsable scopes; single-scope fast path disagreeing with the general path); concurrent Set executions are accepted by the CacheSet transition system (hidden map operations placed by the harness); the Go runtime is exercised, not proved; strconv.Unquote escapes are outside the challenge model",
    "technique": "machine-checked proof in Coq (invariants over histories, trace-acceptor LTS for Once, canonical-form algebra for scope sets) + translator-regenerated anchors/constants + model/implementation correspondence + independent oracle",
    "explanation": "theorems about executable models of scope.go, challenge.go, client.go, cache.go and syncutil/once.go; the extracted models are run against the real code on generated scope lists, challenge headers, request histories over 2-4 in-process registries/token servers with marker secrets, and Once traces; an independent oracle scans every outgoing request for foreign secrets and checks budget, validity, algebraic laws of CleanScopes and result sharing",
}
