"""C16 configuration (loaded by bin/props.py; `unhex` is provided)."""


def _c16_case(c):
    p = c.split(" ")
    if p[0] == "H":
        return {"op": "H", "hseed": p[1]}
    if p[0] in ("S", "A", "G", "C"):
        return {"op": p[0], "line": c}
    return {"raw": c}


CONFIG = {
    "properties_file": "Properties/C16.v",
    "proof_files": ["Base/Prelude.v", "Proofs/Scopes.v", "Proofs/AuthClient.v", "Proofs/Once.v"],
    "model_files": ["Generated/GC16.v", "Model/Scopes.v", "Model/Challenge.v", "Model/AuthClient.v", "Model/Once.v"],
    "extract": "XC16.v",
    "ml_main": "c16_main.ml",
    "harness": "c16",
    "case_to_replay": _c16_case,
    "assumptions": [],
    "level_text": "",
    "level_note": "",
    "technique": "machine-checked proof in Coq + model/implementation correspondence + independent oracle",
    "explanation": "",
}
