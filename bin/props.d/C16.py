"""C16 configuration (loaded by bin/props.py; `unhex` is provided)."""


def _c16_case(c):
    p = c.split(" ")
    if p[0] == "H":
        return {"op": "H", "hseed": p[1]}
    if p[0] in ("S", "A", "G", "C"):
        return {"op": p[0], "line": c}
    return {"raw": c}


CONFIG = {
    "properties_file": "Properties/C16.v",
    "proof_files": ["Base/Prelude.v", "Proofs/Scopes.v", "Proofs/ScopesIdem.v", "Proofs/AuthClient.v", "Proofs/AuthHistory.v", "Proofs/Once.v", "Proofs/CacheSet.v"],
    "model_files": ["Generated/GC16.v", "Model/Scopes.v", "Model/Challenge.v", "Model/AuthClient.v", "Model/Once.v", "Model/CacheSet.v"],
    "extract": "XC16.v",
    "ml_main": "c16_main.ml",
    "harness": "c16",
    "case_to_replay": _c16_case,
    "assumptions": [
        "Credential(ctx, hostport) returns the credential OF hostport (the model's SBasicTok/SUserPass/SRefresh/SAccess h are tainted with the host they were asked for); a CredentialFunc that ignores its argument is a configuration outside the theorems",
        "the servers are unconstrained: theorems quantify over every answer script (status, Www-Authenticate header bytes, token endpoint outcome); a token returned by the token endpoint during a request to h is by definition h's token (SIssued h id)",
        "requests that already carry an Authorization header are passed through unmodified (first lines of Client.Do) and are not modelled",
        "transport errors of the underlying http.Client, context cancellation inside Client.Do and net/http redirect handling (header stripping on cross-host redirects) are not modelled",
        "strconv.QuotedPrefix/Unquote is modelled for quoted strings without backslash and without bytes >= 0x80 (other headers are UNJUDGED in the correspondence and outside C16_no_cross_host only through parse_challenge, which the theorems treat as an arbitrary function of the header)",
        "encoding/json, encoding/base64, net/url query/form encoding of the token requests are observed by the harness (decoded on the fake token server) but not modelled",
        "syncutil.Once: the Go select/channel semantics are the LTS of Model/Once.v (buffered-1 channel holding true / empty / closed); runtime scheduling is quantified over as arbitrary interleavings of the visible events; panics inside f are not modelled",
        "concurrentCache.Set under concurrency is the transition system of Model/CacheSet.v (status map, Once instances, results; status.Delete over-approximated). Recorded executions of Set (direct and inside concurrent Client.Do mixes) are accepted by the extracted system: fetch start/end, delivered results and the identity of the in-flight entry (hook VerifInFlight) are observed; LoadOrStore/Delete are hidden and placed by the harness at the latest point the observations allow (documented in harness/cmd/c16/settrace.go)",
        "executions in which a delivered token/error cannot be attributed to exactly one fetch (Basic tokens, static access tokens, sentinel errors) are not judged by the Set trace acceptor (counted as settrace/*/unjudged)",
    ],
    "level_text": "Coq theorems: CleanScopes is sorted, duplicate-free, idempotent, depends only on the set of its input (order/duplication/map-iteration-order insensitive) and '*' absorbs, for all byte strings; over every history of Client.Do calls with any cache flavour, credential table and server behaviour every send goes to the request's host or to a realm that host advertised and carries only that host's secrets, a Basic header reaches a host only after its Basic challenge, the cache stays host-tainted; <= 3 registry sends and <= 1 token fetch per call with a complete classification of non-success outcomes (valid credentials => the registry's non-401 answer); cache-key laws for the shared and the single-context cache; syncutil.Once as an LTS: one published result shared by all receivers, one fetch in flight, hand-over on cancellation",
    "level_note": "four defects fixed (two in CleanScopes, two in the single-context cache's Set) (duplicates of unparsable scopes; single-scope fast path disagreeing with the general path); concurrent Set executions are accepted by the CacheSet transition system (hidden map operations placed by the harness); the Go runtime is exercised, not proved; strconv.Unquote escapes are outside the challenge model",
    "technique": "machine-checked proof in Coq (invariants over histories, trace-acceptor LTS for Once, canonical-form algebra for scope sets) + translator-regenerated anchors/constants + model/implementation correspondence + independent oracle",
    "explanation": "theorems about executable models of scope.go, challenge.go, client.go, cache.go and syncutil/once.go; the extracted models are run against the real code on generated scope lists, challenge headers, request histories over 2-4 in-process registries/token servers with marker secrets, and Once traces; an independent oracle scans every outgoing request for foreign secrets and checks budget, validity, algebraic laws of CleanScopes and result sharing",
}
