"""C07 configuration (loaded by bin/props.py)."""


def _c07_case(c):
    # model case line: <nuniv> <content-table> <ops>; re-runnable by the harness as a raw graph.Memory history
    # model case line: <nuniv> <content-table> <ops> <origin>; origin = <part>-seed-<n> re-generates the case
    p = c.split(" ")
    if len(p) == 4 and "-seed-" in p[3]:
        part, _, seed = p[3].partition("-seed-")
        return {"kind": "seed", "part": part, "seed": seed}
    return {"raw": c}


CONFIG = {
    "properties_file": "Properties/C07.v",
    "proof_files": ["Proofs/GraphMem.v"],
    "model_files": ["Model/GraphMem.v"],
    "extract": "XC07.v",
    "ml_main": "c07_main.ml",
    "harness": "c07",
    "case_to_replay": _c07_case,
    "timeout_quick": 600,
    "timeout_thorough": 3000,
    "assumptions": [],
    "level_text": "",
    "level_note": "",
    "technique": "machine-checked proof in Coq + model/implementation correspondence",
    "explanation": "",
}
