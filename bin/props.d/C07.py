"""C07 configuration (loaded by bin/props.py)."""


def _c07_case(c):
    # model case line: <nuniv> <content-table> <ops>; re-runnable by the harness as a raw graph.Memory history
    # model case line: <nuniv> <content-table> <ops> <origin>; origin = <part>-seed-<n> re-generates the case
    p = c.split(" ")
    if len(p) in (4, 6) and "-seed-" in p[-1]:
        part, _, seed = p[-1].partition("-seed-")
        part = part.split("-")[-1]
        return {"kind": "seed", "part": part, "seed": seed}
    return {"raw": c}


CONFIG = {
    "properties_file": "Properties/C07.v",
    "proof_files": ["Proofs/GraphMem.v", "Proofs/GraphStore.v"],
    "model_files": ["Generated/GC07.v", "Model/GraphMem.v", "Model/GraphStore.v"],
    "extract": "XC07.v",
    "ml_main": "c07_main.ml",
    "harness": "c07",
    "case_to_replay": _c07_case,
    "timeout_quick": 600,
    "timeout_thorough": 3000,
    "assumptions": [
        "content.Successors is a function of the descriptor key (media type, digest, size): `content` is a universally quantified parameter of every theorem; nothing is assumed about SHA-2 or encoding/json (the differential run exercises the real content.Successors on real manifests)",
        "`sok n` (content.Successors succeeds for n) is a universally quantified parameter; the only failure modelled is errdef.ErrNotFound (IndexAll skips it); undecodable manifest bytes are outside the generator's universe",
        "sync.RWMutex makes index / Remove / Predecessors atomic: concurrency is modelled as an arbitrary interleaving (permutation) of atomic operations; IndexAll's concurrent traversal (syncutil.Go + status.Tracker) is modelled by a sequential work-list whose final graph is proved to depend only on the set of reachable fetchable nodes",
        "IndexAll/load theorems have the hypothesis `ok = true` (fuel not exhausted); C07_reload_terminates proves a sufficient fuel exists for every finite closed universe; the extracted runner uses fuel 100000 and prints FUEL otherwise",
        "OCI store level (Model/GraphStore.v): blobs, by-digest/tagged resolver entries (= root list of index.json) and graph.Memory; one descriptor key per digest (no same-bytes-two-media-types twins in a store); only manifest media types have successors; which referrers gcIndex keeps (subject walk, map order) is a universally quantified argument of the GC step; index.json is assumed to be saved (AutoSaveIndex default) before a reopen; resolver tag names, saveIndex encoding and GC errors/hangs (F1/F2) are outside this model (C08/C09)",
        "OCI GC that does not return (defect F1, property C09) or returns an error (index.json naming swept blobs after an earlier GC, defect F2, properties C08/C09) is not judged by C07; the harness avoids histories whose GC outcome depends on Go map order",
    ],
    "level_text": "Coq theorems over all histories: the three invariants of graph.Memory hold after every sequence of Index/Remove/IndexAll/fresh-graph operations with content appearing and disappearing; under the invariant Predecessors(n) is exactly (NoDup, iff) the nodes in memory whose successors contain n, present or not; Remove returns exactly the nodes that lost their last predecessor, for every map iteration order; every permutation of a push list gives the same predecessor sets; the graph rebuilt by loadIndex/gcIndex holds exactly the nodes reachable from the roots and answers like the live graph when every stored manifest is a root; at the OCI store level (blobs, index roots, graph) Predecessors equals the stored referencing nodes after every Push/Tag/Delete/GC/reopen history and a reopen changes no answer (repaired gcIndex; refuted with a witness for the code before the repair). The model is tied to internal/graph/memory.go by a differential run through a build-tagged hook and to the memory/OCI/file stores by end-to-end histories (push orders, concurrent pushes, Delete with and without AutoGC, Tag, GC, reopen via oci.New / NewFromFS / NewFromTar) judged by an independent oracle",
    "level_note": "content.Successors and its success predicate are parameters; the OCI store-level invariant (stored manifests = graph manifests = roots of index.json) is proved for the repaired gcIndex over all Push/Tag/Delete/GC/reopen histories and refuted for the pre-fix code; memory and file stores only push (C07_push_delete_exact); GC hangs/errors caused by F1/F2 are not judged here; undecodable manifests not modelled",
    "technique": "machine-checked proof in Coq (invariant over all operation histories, exactness, order independence, reachability characterisation of the IndexAll work-list) + model/implementation correspondence through a hook on graph.Memory + end-to-end oracle on the three stores",
    "explanation": "theorems over all histories about the executable model of graph.Memory (index, Remove with danglings, IndexAll, Predecessors); the extracted model and the real graph.Memory are run on the same random histories and every output compared; memory, OCI and file stores are driven through the public API in random push orders (sequential and concurrent) followed by Delete/Tag/GC/re-push/reopen histories, every node queried after every step and compared with the generator's inverse edge list restricted to stored parents, and with the model",
}
