"""C07 configuration (loaded by bin/props.py)."""


def _c07_case(c):
    # model case line: <nuniv> <content-table> <ops>; re-runnable by the harness as a raw graph.Memory history
    # model case line: <nuniv> <content-table> <ops> <origin>; origin = <part>-seed-<n> re-generates the case
    p = c.split(" ")
    if len(p) in (4, 6, 8) and "-seed-" in p[-1]:
        part, _, seed = p[-1].partition("-seed-")
        part = part.split("-")[-1]
        return {"kind": "seed", "part": part, "seed": seed}
    return {"raw": c}

# ---- in-Coq re-evaluation (vm_compute) of a sample of the correspondence cases: cross-checks the
# extraction and the OCaml driver against the Gallina definitions the theorems are about ----
_VM_PRELUDE = """From Coq Require Import List NArith Bool.
Import ListNotations.
From Oras Require Import Model.GraphMem Model.GraphStore.
Fixpoint vm_ins (x : N) (l : list N) : list N :=
  match l with [] => [x] | y :: r => if N.leb x y then x :: l else y :: vm_ins x r end.
Definition vm_srt (l : list N) : list N := fold_right vm_ins [] l.
Inductive vm_tok := TOk | TNf | TFuel | TD (l : list N) | TP (l : list N) (unknown : nat) | TB (v : bool) | TBl (l : list N).
Definition vm_known (l : list (option N)) : list N :=
  vm_srt (flat_map (fun o => match o with Some k => [k] | None => [] end) l).
Definition vm_unk (l : list (option N)) : nat :=
  length (filter (fun o => match o with None => true | _ => false end) l).
Definition vm_tok_of (o : out) : list vm_tok :=
  match o with
  | RNone => [] | ROk => [TOk] | RNotFound => [TNf] | RFuel => [TFuel]
  | RDang d => [TD (vm_srt d)] | RPreds p => [TP (vm_known p) (vm_unk p)] | RBool v => [TB v]
  end.
Fixpoint vm_toks (flags : list bool) (outs : list out) : list vm_tok :=
  match flags, outs with
  | f :: fr, o :: r => (if f then vm_tok_of o else []) ++ vm_toks fr r
  | _, _ => []
  end.
Definition vm_fuel : nat := (1000 * 100)%nat.
Definition vm_graph (ct : amap) (ops : list op) (flags : list bool) : list vm_tok :=
  vm_toks flags (snd (run ct vm_fuel init_state ops)).
Fixpoint vm_store (content : node -> list node) (isman : node -> bool) (univ : list N) (a : astore)
         (names : list (N * node)) (ops : list (option nop)) : list vm_tok * bool :=
  match ops with
  | [] => ([], true)
  | None :: r =>
      let (t, ok) := vm_store content isman univ a names r in
      let s := a_s a in
      (TBl (vm_srt (o_blobs s)) ::
       map (fun i => TP (vm_known (predecessors_raw (o_graph s) i)) (vm_unk (predecessors_raw (o_graph s) i))) univ ++ t, ok)
  | Some o :: r =>
      let (names', l) := ntrans1 names o in
      let (a', ok1) := arun content isman vm_fuel a l in
      let (t, ok2) := vm_store content isman univ a' names' r in (t, ok1 && ok2)
  end.
Definition vm_store_case (ct : amap) (mans univ : list N) (ops : list (option nop)) : list vm_tok * bool :=
  vm_store (ctab ct) (fun x => smem x mans) univ empty_astore [] ops.
"""


def _vm_list(xs):
    return "[" + "; ".join(xs) + "]"


def _vm_ct(cts):
    if cts == "-":
        return "[]"
    es = []
    for e in cts.split(";"):
        if not e:
            continue
        k, _, v = e.partition(":")
        es.append("(%s, %s)" % (k, _vm_list([x for x in v.split(",") if x])))
    return _vm_list(es)


def _vm_ptok(t):
    body = t[2:]
    items = [x for x in body.split(",") if x]
    known = [x for x in items if x != "?"]
    return "TP %s %d" % (_vm_list(known), len(items) - len(known))


def _vm_expect(toks):
    out = []
    for t in toks:
        if t == "ok":
            out.append("TOk")
        elif t == "nf":
            out.append("TNf")
        elif t == "FUEL":
            out.append("TFuel")
        elif t == "t":
            out.append("TB true")
        elif t == "f":
            out.append("TB false")
        elif t.startswith("d:"):
            out.append("TD " + _vm_list([x for x in t[2:].split(",") if x]))
        elif t.startswith("p:"):
            out.append(_vm_ptok(t))
        elif t.startswith("b:"):
            out.append("TBl " + _vm_list([x for x in t[2:].split(",") if x]))
        else:
            return None
    return _vm_list(out)


def _vm_goal(case, out):
    p = case.split(" ")
    toks = [t for t in out.split(" ") if t]
    exp = _vm_expect(toks)
    if exp is None:
        return None
    if p[0] == "S" and len(p) == 6:
        nu, cts, mans, opss = int(p[1]), p[2], p[3], p[4]
        ops = []
        for t in ([] if opss == "-" else opss.split(",")):
            k, a = t[0], t[1:]
            if k == "S":
                ops.append("None")
            elif k == "P":
                ops.append("Some (NOp (AOp (PPush %s)))" % a)
            elif k == "T":
                ops.append("Some (NOp (AOp (PTag %s)))" % a)
            elif k == "U":
                ops.append("Some (NOp (AOp (PUntag %s)))" % a)
            elif k == "X":
                ops.append("Some (NOp (AOp (PDelete %s)))" % a)
            elif k == "G":
                ops.append("Some (NOp (AOp (PGC %s)))" % _vm_list([x for x in a.split(".") if x]))
            elif k == "N":
                x, _, r = a.partition("=")
                ops.append("Some (NTag %s %s)" % (x, r))
            elif k == "M":
                ops.append("Some (NUntag %s)" % a)
            elif k == "s":
                return None
            elif k == "O":
                ops.append("Some (NOp (AOp PReopen))")
            elif k == "F":
                ops.append("Some (NOp (AOp (PForeign %s)))" % _vm_list([x for x in a.split(".") if x]))
            elif k == "Y":
                ops.append("Some (NOp (ASetAuto %s))" % ("true" if a == "1" else "false"))
            elif k == "W":
                ops.append("Some (NOp ASaveIndex)")
            elif k == "K":
                ops.append("Some (NOp (ABadPush %s))" % a)
            else:
                return None
        return ("vm_store_case (%s)%%N (%s)%%N (%s)%%N (%s)%%N\n  = ((%s)%%N, true)"
                % (_vm_ct(cts), _vm_list([] if mans == "-" else mans.split(",")),
                   _vm_list([str(i) for i in range(nu)]), _vm_list(ops), exp))
    if len(p) == 4:
        cts, opss = p[1], p[2]
        ops, flags = [], []
        names = {"I": "OIndex", "R": "ORemove", "D": "ORemove", "A": "OIndexAll", "Q": "OQuery", "E": "OExists"}
        for t in ([] if opss == "-" else opss.split(",")):
            k, a = t[0], t[1:]
            if k in names:
                ops.append("%s %s" % (names[k], a))
                flags.append("false" if k == "D" else "true")
            elif k == "+":
                ops.append("OSok %s true" % a)
                flags.append("false")
            elif k == "-":
                ops.append("OSok %s false" % a)
                flags.append("false")
            elif k == "Z":
                ops.append("OReset")
                flags.append("false")
            else:
                return None
        return "vm_graph (%s)%%N (%s)%%N %s\n  = (%s)%%N" % (_vm_ct(cts), _vm_list(ops), _vm_list(flags), exp)
    return None


def _c07_vm_sample(d, tier, coq, build):
    import os, subprocess
    want = {"G": 200, "S": 100} if tier == "thorough" else {"G": 16, "S": 8}
    maxlen = 1800
    outs = {}
    with open(os.path.join(d, "model.txt")) as f:
        for l in f:
            i, _, o = l.rstrip("\n").partition(" ")
            outs[i] = o
    cand = {"G": [], "S": []}
    with open(os.path.join(d, "cases.txt")) as f:
        for l in f:
            if len(l) > maxlen:
                continue
            i, _, c = l.rstrip("\n").partition(" ")
            if i in outs and len(outs[i]) <= maxlen:
                cand["S" if c.startswith("S ") else "G"].append((i, c))
    goals, got = [], {}
    for k, lst in cand.items():
        stride = max(1, len(lst) // want[k])
        n = 0
        for i, c in lst[::stride]:
            if n >= want[k]:
                break
            g = _vm_goal(c, outs[i])
            if g:
                goals.append((i, g))
                n += 1
        got[k] = n
    vdir = os.path.join(build, "vm")
    os.makedirs(vdir, exist_ok=True)
    vf = os.path.join(vdir, "C07_cases.v")
    with open(vf, "w") as f:
        f.write(_VM_PRELUDE)
        for i, g in goals:
            f.write("\n(* %s *)\nGoal %s.\nProof. vm_compute. reflexivity. Qed.\n" % (i, g))
    p = subprocess.run(["coqc", "-R", coq, "Oras", "-w", "-notation-overridden,-abstract-large-number", vf], cwd=vdir,
                       timeout=1500, stdout=subprocess.PIPE, stderr=subprocess.STDOUT, text=True)
    with open(os.path.join(d, "vm_sample.txt"), "w") as f:
        f.write("%d goals %s rc=%d\n%s" % (len(goals), got, p.returncode, p.stdout[-3000:]))
    if p.returncode != 0:
        return ["vm_compute re-evaluation of %d sampled cases inside Coq disagrees with the extracted runner (or does not type-check): %s"
                % (len(goals), p.stdout[-1200:])]
    if len(goals) < sum(want.values()) // 2:
        return ["vm_compute sample too small: %d goals %s" % (len(goals), got)]
    return []


CONFIG = {
    "properties_file": "Properties/C07.v",
    "proof_files": ["Proofs/GraphMem.v", "Proofs/GraphStore.v", "Proofs/IndexLTS.v", "Proofs/StoreLTS.v", "Proofs/IndexAllLTS.v", "Proofs/Links.v"],
    "model_files": ["Generated/GC07.v", "Model/GraphMem.v", "Model/GraphStore.v", "Model/IndexLTS.v", "Model/StoreLTS.v", "Model/IndexAllLTS.v", "Model/GraphMemSrc.v", "Model/Links.v"],
    "extract": "XC07.v",
    "ml_main": "c07_main.ml",
    "harness": "c07",
    "case_to_replay": _c07_case,
    "post_model": _c07_vm_sample,
    "timeout_quick": 600,
    "timeout_thorough": 3000,
    "assumptions": [
        "content.Successors is a function of the descriptor key (media type, digest, size): `content` is a universally quantified parameter of every theorem; nothing is assumed about SHA-2 or encoding/json (the differential run exercises the real content.Successors on real manifests)",
        "`sok n` (content.Successors succeeds for n) is a universally quantified parameter; the only failure modelled is errdef.ErrNotFound (IndexAll skips it); undecodable manifest bytes are outside the generator's universe",
        "sync.RWMutex makes index / Remove / Predecessors atomic: concurrency is modelled as an arbitrary interleaving of atomic operations; IndexAll's concurrent traversal (syncutil.Go + status.Tracker) is modelled as an LTS with two atomic actions per task (tracker commit; index + start successor tasks) and every complete schedule is proved equivalent to the sequential work-list the reload theorems use (C07_indexall_every_schedule); the two actions and their order are re-read from memory.go (callseq calls_indexAll); errgroup waiting/cancellation is not modelled",
        "concurrent OCI operations (Model/StoreLTS.v): Push = storage.Push, graph.Index, tag by digest, saveIndex; Tag = Exists, tag by digest, tag by name, saveIndex; Untag = untag, saveIndex, each step atomic (storage rename, graph lock, sync.Map store, indexLock); Delete/GC/reopen exclusive (Store.sync.Lock); the step order is re-read from oci.go (callseq calls_ociPush/TagInner/Tag/Untag); the LTS itself is not executed against the code (no scheduler control inside oci.Store): the tie is the quiescent state (burst stream vs sequential model) and the any-time oracle run inside the concurrent blocks",
        "tag names (translate/ntrans1): the reference -> node map of resolver.Memory is kept by the model; Tag overwrites, the node that had the name loses it, Delete drops every name of the node; the harness issues the name-level step only for a Tag/Untag that succeeded (a failing Tag of absent content / Untag of an unknown name has no effect in the code and is not sent)",
        "AutoSaveIndex/SaveIndex (astep): with the flag off no operation writes index.json, SaveIndex does; a reopen of an index that was not saved is reported by the model (ok=false) and excluded by the theorem's hypothesis; the harness, like a well-behaved caller, saves before every reopen and when it switches the flag back on",
        "IndexAll/load theorems have the hypothesis `ok = true` (fuel not exhausted); C07_reload_terminates proves a sufficient fuel exists for every finite closed universe; the extracted runner uses fuel 100000 and prints FUEL otherwise",
        "OCI store level (Model/GraphStore.v): blobs, by-digest/tagged resolver entries (= root list of index.json) and graph.Memory; one descriptor key per digest (no same-bytes-two-media-types twins in a store); only manifest media types have successors; which referrers gcIndex keeps (subject walk, map order) is a universally quantified argument of the GC step; index.json is part of the state (written by every manifest Push, Tag, Untag, by a delete that untagged something and by GC; AutoSaveIndex default), a reopen reloads resolver and graph from the file as last written; whether Store.GC writes it after restoring the digest references of reachable manifests is re-read from content/oci/oci.go on every run (callseq -> Generated/GC07.calls_GC -> gc_save_after_restore); resolver tag names, saveIndex encoding and GC errors/hangs (F1/F2) are outside this model (C08/C09)",
        "index persistence under concurrency (Model/IndexLTS.v): Push/Tag/Untag = storage+graph step, one resolver update (sync.Map operation, atomic), saveIndex; whether saveIndex takes its snapshot of the resolver map inside the indexLock section that writes the file is re-read from content/oci/oci.go on every run (translator kind callseq -> Generated/GC07.calls_saveIndex -> save_index_atomic); the rename in writeFileAtomic is atomic (C10); Delete and GC are exclusive (sync.Lock) and not part of the LTS; resolver entries are abstract numbers, the projection written to index.json is C08's matter",
        "scope (audit F3): histories consist of operations that complete; an operation aborted by the environment half-way (OCI Delete whose unlink fails with EPERM / an open handle after Untag, graph.Remove and saveIndex were done; a Push whose index.json write fails) is outside the quantifier of C07 and the statement is false there (C07_store_delete_error_refuted); no fault injection in the harness. A file-store Push that fails AFTER storing (restoring a duplicate under an unwritable name) IS covered (C07_file_history_exact_src, stream ftitle)",
        "file store (Model/GraphStore.v fstore): Push = store step (may refuse/discard), graph.Index, restore step (may fail), outcomes chosen by the environment; names, ForceCAS, IgnoreNoName, DisableOverwrite only matter through those outcomes; the order index-before-restore is re-read from file.go (callseq calls_filePush)",
        "OCI initial state (audit F2): a layout not written by this Store is covered as PForeign = index.json replaced by one that lists only tagged/top-level manifests and accounts for every stored manifest (listed, tagged or child of a stored manifest), then reopened; blobs still enter through Push. Stored manifests that the foreign index does not reach at all are unlisted garbage of that layout and outside. The store theorems assume content addressing as a rank function decreasing along successors (no cycles)",
        "content.Successors (audit F4): Model/Links.v interprets the successor schema that the translator (kind linkschema) re-reads from the switch in content.Successors on every run (per media type the ordered document members: F, F*, F?); C07_links_exact is proved about that generated schema; compared with the real function on every run (stream links: documents carrying all of subject/config/layers/manifests/blobs); sha384/sha512-addressed nodes are generated in the chain stream only; parent descriptors whose size/media type differ from the child's push descriptor (twins inside a store) are not generated",
        "not generated (audit F7): Untag by digest, Tag with a Resolve()d octet-stream descriptor, undecodable manifests are modelled and generated for the OCI store only (ABadPush: Push fails and leaves nothing; stream chain); on the memory and file stores such content stays stored and un-indexed - it references nothing, so Predecessors is unaffected - and is not generated",
        "callseq ties (audit F6) see the source ORDER of the watched calls only (saveIndex: Lock, deferred Unlock, Map, writeIndexFile; Store.GC: gcIndex, graph.Exists, Resolve, Tag, saveIndex, ReadDir; delete: Remove, Tag, saveIndex, storage.Delete; file Push: push, Index, restoreDuplicates); conditions such as `if s.AutoSaveIndex` are not re-read; a changed anchor hash is recorded, not fatal; the dynamic streams (burst, chain, foreign, ftitle) are the second line",
        "OCI GC that does not return (defect F1, property C09) or returns an error (index.json naming swept blobs after an earlier GC, defect F2, properties C08/C09) is not judged by C07; the harness avoids histories whose GC outcome depends on Go map order",
    ],
    "level_text": "Coq theorems over all histories: the three invariants of graph.Memory hold after every sequence of Index/Remove/IndexAll/fresh-graph operations with content appearing and disappearing; under the invariant Predecessors(n) is exactly (NoDup, iff) the nodes in memory whose successors contain n, present or not; Remove returns exactly the nodes that lost their last predecessor, for every map iteration order; every permutation of a push list gives the same predecessor sets; the graph rebuilt by loadIndex/gcIndex holds exactly the nodes reachable from the roots and answers like the live graph when every stored manifest is a root; at the OCI store level (blobs, index roots, graph) Predecessors equals the stored referencing nodes after every Push/Tag/Delete/GC/reopen history and a reopen changes no answer (repaired gcIndex; refuted with a witness for the code before the repair); the same for every interleaving of the atomic steps of concurrent Push/Tag/Untag with exclusive Delete/GC/reopen (exact at quiescence, reopen-stable, and at every intermediate state no extra answer and nothing missing except a Push between its storage and index steps); for AutoSaveIndex=false histories whose reopens happen on a saved index; every schedule of the concurrent IndexAll equals the sequential one; whole histories terminate for sufficient fuel; the iteration order of Go's map in Remove is quantified over whole histories (C07_history_any_map_order: every output equal up to the order inside sets); the statement order of graph.Memory.index/Remove/Predecessors is re-read from memory.go (C07_graphmem_source_shape_src); over the full operation language with tag names the store refines the abstract specification spec_preds (answer computed from the stored set alone); for every interleaving of concurrent Push/Tag/Untag that runs to completion the index.json on disk equals the final resolver map when saveIndex snapshots under indexLock (as re-read from the source), hence reopen = live; refuted with a witness trace for the snapshot-outside-the-lock variant. The model is tied to internal/graph/memory.go by a differential run through a build-tagged hook and to the memory/OCI/file stores by end-to-end histories (push orders, concurrent pushes, Delete with and without AutoGC, Tag, GC, reopen via oci.New / NewFromFS / NewFromTar) judged by an independent oracle",
    "level_note": "content.Successors and its success predicate are parameters; the OCI store-level invariant (stored manifests = graph manifests = roots of index.json) is proved for the repaired gcIndex over all Push/Tag/Delete/GC/reopen histories and refuted for the pre-fix code; memory store only pushes (C07_push_delete_exact); file store: Push modelled as store/index/restore steps with environment-chosen outcomes (C07_file_history_exact_src); operations aborted half-way by I/O faults are out of scope (witness C07_store_delete_error_refuted); 'config, layers, blobs, manifests or subject' = C07_links_exact over the hand model of content.Successors, tied by the links stream; theorems ignore the fuel flag (an out-of-fuel GC/reopen is a no-op in the model) but C07_store_history_terminates shows sufficient fuel exists for whole histories; the concurrency LTSs (StoreLTS, IndexAllLTS, IndexLTS) are proved, not executed against the code: their tie is call-order translation + quiescent-state correspondence + the any-time oracle inside concurrent blocks; GC hangs/errors caused by F1/F2 are not judged here; undecodable manifests not modelled",
    "technique": "machine-checked proof in Coq (invariant over all operation histories, exactness, order independence, reachability characterisation of the IndexAll work-list) + model/implementation correspondence through a hook on graph.Memory + end-to-end oracle on the three stores",
    "explanation": "theorems over all histories about the executable model of graph.Memory (index, Remove with danglings, IndexAll, Predecessors); the extracted model and the real graph.Memory are run on the same random histories and every output compared; memory, OCI and file stores are driven through the public API in random push orders (sequential and concurrent) followed by Delete/Tag/GC/re-push/reopen histories, every node queried after every step and compared with the generator's inverse edge list restricted to stored parents, and with the model; a chain stream runs push tower -> Tag(root) -> GC -> reopen -> Delete(parents) -> reopen sequences (what each step leaves in index.json is all the next reopen sees); a dedicated burst stream pushes 16-32 distinct manifests sharing children from as many goroutines (optionally with concurrent Tag/Untag) into one OCI store and immediately reopens it via NewFromFS, NewFromTar and oci.New, judging every node against the blobs on disk; the index.json on disk (listed / named entries) is compared with the model's file component after every step; AutoSaveIndex off/on and SaveIndex are generated; while a concurrent block runs a reader checks every Predecessors answer (no extras/duplicates, earlier content and completed pushes present); sha512/sha384-addressed nodes go through NewFromTar (long names); every case runs under a watchdog (a wedge becomes an oracle failure after confirmation in a fresh process); a sample of the correspondence cases is re-evaluated inside Coq with vm_compute (post_model hook)",
}
