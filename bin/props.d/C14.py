"""C14 configuration (loaded by bin/props.py)."""


def _c14_case(c):
    p = c.split(" ")
    if p[0] in ("A", "R", "F"):
        return {"kind": "A", "line": c}
    return {"raw": c}


CONFIG = {
    "properties_file": "Properties/C14.v",
    "proof_files": ["Base/Prelude.v", "Proofs/Referrers.v", "Proofs/Merge.v", "Proofs/MergeLin.v", "Proofs/MergeThm.v"],
    "model_files": ["Model/Referrers.v", "Model/Merge.v"],
    "extract": "XC14.v",
    "ml_main": "c14_main.ml",
    "harness": "c14",
    "harness_test": True,
    "case_to_replay": _c14_case,
    "assumptions": [],
    "level_text": "",
    "level_note": "",
    "technique": "machine-checked proof in Coq + model/implementation correspondence",
    "explanation": "",
}
