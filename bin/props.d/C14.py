"""C14 configuration (loaded by bin/props.py)."""
import json as _json


def _c14_case(c):
    p = c.split(" ")
    if p[0] in ("A", "R", "F", "T"):
        return {"kind": "A", "line": c}
    if p[0] == "M":
        # M <n> <events...>: re-run the schedule on the real Merge
        return {"kind": "M", "case": {"n": int(p[1]), "script": p[2:], "seed": 1}}
    if p[0] == "X" and p[-1].startswith("J"):
        # projected line of an end-to-end run: the last token is the whole case with its schedule
        return {"kind": "E", "case": _json.loads(bytes.fromhex(p[-1][1:]).decode("utf-8"))}
    if p[0] == "K":
        return {"kind": "M", "case": {"caps": [ch == "1" for ch in p[1]]}}
    if p[0] == "P":
        return {"kind": "P", "ops": " ".join(p[1:])}
    return {"raw": c}


# ---------------------------------------------------------------------------
# Thorough tier: a sample of the correspondence cases is re-evaluated INSIDE Coq with
# vm_compute and compared with what the extracted OCaml runner printed (model.txt).
# This cross-checks the extraction and the OCaml driver, not the implementation.

_VM_PRELUDE = """From Oras Require Import Base.Prelude Model.Referrers Model.Merge Model.Live.
Definition y_in (k : N) (l : list N) : bool := existsb (N.eqb k) l.
Definition y_filt (live busy taint zs : list N) : list N :=
  filter (fun k => negb (y_in k zs) && negb (y_in k (busy ++ taint))) live.
Definition y_seteq (a b : list N) : bool := forallb (fun k => y_in k b) a && forallb (fun k => y_in k a) b.
Fixpoint y_dedup (l : list N) : list N :=
  match l with [] => [] | x :: t => if y_in x t then y_dedup t else x :: y_dedup t end.
Definition y_b (busy taint zs : list N) : nat :=
  length (y_dedup (filter (fun k => negb (y_in k zs)) (busy ++ taint))).
Definition batches (log : list obs) : list (nat * list nat) :=
  flat_map (fun o => match o with OBatch m ms => [(m, ms)] | _ => [] end) log.
Definition puts (log : list obs) : list (list N) :=
  flat_map (fun o => match o with OPut _ nw => [map dkey nw] | _ => [] end) log.
"""


def _vm_lst(xs, ty):
    return "(@nil %s)" % ty if not xs else "[" + "; ".join(xs) + "]"


def _vm_desc(t):
    k, a, p = t.split(":")
    return "(mkDesc %s %s %s)" % (k, a, p)


def _vm_descs(tok):
    return _vm_lst([] if tok == "-" else [_vm_desc(t) for t in tok.split(",")], "desc")


def _vm_changes(tok):
    return _vm_lst([] if tok == "-" else [("Add " if t[0] == "+" else "Remove ") + _vm_desc(t[1:]) for t in tok.split(",")], "change")


def _vm_vis(evs):
    out = []
    for e in evs:
        if e[0] == "J":
            continue
        if e[0] == "E":
            out.append("VX")
        elif e[0] == "G":
            out.append("VG %s%%nat" % e[1:])
        else:
            t, f = e[1:].split(":")
            if e[0] in "UD" and f == "2":
                out.append("V%s %s%%nat" % ("L" if e[0] == "U" else "K", t))
                continue
            out.append("V%s %s%%nat %s" % (e[0], t, "true" if f == "1" else "false"))
    return _vm_lst(out, "vis")


def _vm_lvis(evs):
    out = []
    for e in evs:
        if e[0] in "MNQ":
            out.append("V%s %s%%nat" % (e[0], e[1:]))
        else:
            one = _vm_vis([e])
            out.append("LV (%s)" % one[1:-1])
    return _vm_lst(out, "lvis")


def _vm_results(tok):
    m = {"ok": "Some ROk", "idxdel": "Some RIdxDel", "err": "Some RErr", "pending": "None"}
    return _vm_lst([m[x.split("=")[1]] for x in tok.split(",")], "(option result)")


def _vm_nats(tok):
    return _vm_lst([] if tok in ("-", "") else ["%s%%nat" % x for x in tok.split(",")], "nat")


def _vm_ns(tok):
    return _vm_lst([] if tok in ("-", "") else tok.split(","), "N")


def _vm_goal(case, out):
    p = case.split(" ")
    o = out.split(" ")
    try:
        if p[0] == "A":
            rhs = "NoUpdate" if o[0] == "NOUPDATE" else "Updated " + _vm_descs(o[1])
            return "apply_changes %s %s = %s" % (_vm_descs(p[1]), _vm_changes(p[2]), rhs)
        if p[0] == "R":
            return "remove_empty %s %s%%nat = %s" % (_vm_descs(p[2]), p[1], _vm_descs(o[1]))
        if p[0] == "F":
            return "filter_referrers %s %s = %s" % (_vm_descs(p[2]), p[1], _vm_descs(o[1]))
        if p[0] == "L":
            r = "None" if p[2] == "none" else "(Some %s)" % _vm_descs(p[2])
            return "map dkey (list_referrers %s %s) = %s" % (r, p[1], _vm_ns(o[1]))
        if p[0] == "T":
            ds = ["(mkSubj %s %s %s)" % (x.split(":")[1], x.split(":")[0], x.split(":")[2]) for x in p[1].split(",")]
            return "tag_classes %s = %s" % (_vm_lst(ds, "subject"), _vm_nats(o[1]))
        if p[0] == "K":
            caps = {"0": "CapUnknown", "1": "CapSupported", "2": "CapUnsupported"}
            exp = ["(%s, %s)" % (caps[x.split("/")[0]], "true" if x.split("/")[1] == "1" else "false") for x in o[1].split(",")]
            return "set_caps CapUnknown %s = %s" % (_vm_lst(["true" if b == "1" else "false" for b in p[1]], "bool"), _vm_lst(exp, "(cap * bool)"))
        if p[0] == "D":
            kind = {"artifact": "KArtifact", "index": "KIndex"}.get(p[1], "KImage")
            return "referrer_art %s %s %s = %s" % (kind, p[2], p[3], o[1])
        if p[0] == "P":
            if "X" in o[1]:
                return None
            return "pool_trace None %s = %s" % (_vm_lst(["true" if x[0] == "g" else "false" for x in p[1:]], "bool"),
                                                _vm_lst(["true" if ch == "N" else "false" for ch in o[1]], "bool"))
        if p[0] == "Y":
            # Y <sg> <init0> <live0> <changes> <z> <ev>...  ->  Y L <l> B <b>
            r0 = "None" if p[2] == "none" else "(Some %s)" % _vm_lst([] if p[2] == "-" else ["(mkDesc %s 0 0)" % k for k in p[2].split(",")], "desc")
            call = "lvis_summary %s %s %s %s %s" % ("true" if p[1] == "1" else "false", r0, _vm_ns(p[3]), _vm_changes(p[4]), _vm_lvis(p[6:]))
            if o[0] == "REJECT":
                return call + " = None"
            return ("match %s with Some (live, busy, taint) => (y_seteq (y_filt live busy taint %s) %s, y_b busy taint %s) = (true, %s%%nat) | None => False end"
                    % (call, _vm_ns(p[5]), _vm_ns(o[2]), _vm_ns(p[5]), o[4]))
        if p[0] == "M":
            n = int(p[1])
            changes = _vm_lst(["Add (mkDesc %d 0 0)" % (t + 1) for t in range(n)], "change")
            call = "vis_summary false None %s %s" % (changes, _vm_vis(p[2:]))
            if o[0] == "REJECT":
                return call + " = None"
            # ACC B <b> R <r> I <i>
            b = [] if o[2] == "-" else ["(%s%%nat, %s)" % (x.split(":")[0], _vm_nats(x.split(":")[1])) for x in o[2].split(";")]
            return ("match %s with Some (rs, _, log, _) => (rs, batches log) = (%s, %s) | None => False end"
                    % (call, _vm_results(o[4]), _vm_lst(b, "(nat * list nat)")))
        if p[0] == "X":
            if "*" in out:
                return None
            r0 = "None" if p[2] == "none" else "(Some %s)" % _vm_lst([] if p[2] == "-" else ["(mkDesc %s 0 0)" % k for k in p[2].split(",")], "desc")
            call = "vis_summary %s %s %s %s" % ("true" if p[1][0] == "1" else "false", r0, _vm_changes(p[3]), _vm_vis(p[4:]))
            if o[0] == "REJECT":
                return call + " = None"
            # ACC R <r> I <i> U <u>
            idx = "None" if o[4] == "none" else "(Some %s)" % _vm_ns(o[4])
            us = [] if o[6] == "-" else [_vm_ns("" if x == "e" else x) for x in o[6].split(";")]
            return ("match %s with Some (rs, idx, log, _) => (map (option_map seen) rs, idx, puts log) = (%s, %s, %s) | None => False end"
                    % (call, _vm_results(o[2]), idx, _vm_lst(us, "(list N)")))
    except Exception:
        return None
    return None


def _c14_vm_sample(d, tier, coq, build, want=300):
    import os, re, subprocess, collections
    if tier != "thorough":
        return []
    outs = {}
    with open(os.path.join(d, "model.txt")) as f:
        for l in f:
            i, _, o = l.rstrip("\n").partition(" ")
            outs[i] = o
    quota = {"A": 90, "R": 20, "F": 20, "T": 20, "K": 10, "D": 20, "M": 70, "X": 70, "L": 20, "XL": 25, "P": 15, "Y": 40}

    def kind(c):
        k = c.split(" ", 1)[0]
        # XL: projected end-to-end lines with a LOST RESPONSE of the index PUT (EPutLost)
        return "XL" if k == "X" and re.search(r" [UD]\d+:2( |$)", c) else k

    total = collections.Counter()
    with open(os.path.join(d, "cases.txt")) as f:
        for l in f:
            c = l.rstrip("\n").partition(" ")[2]
            if c:
                total[kind(c)] += 1
    got, stride, goals = collections.Counter(), collections.Counter(), []
    with open(os.path.join(d, "cases.txt")) as f:
        for l in f:
            i, _, c = l.rstrip("\n").partition(" ")
            k = kind(c)
            if k not in quota or got[k] >= quota[k] or i not in outs:
                continue
            stride[k] += 1
            if (stride[k] - 1) % max(1, total[k] // quota[k]) != 0:
                continue
            g = _vm_goal(c, outs[i])
            if g:
                got[k] += 1
                goals.append((i, g))
    vdir = os.path.join(build, "vm")
    os.makedirs(vdir, exist_ok=True)
    vf = os.path.join(vdir, "C14_cases.v")
    with open(vf, "w") as f:
        f.write(_VM_PRELUDE)
        for i, g in goals:
            f.write("\n(* %s *)\nGoal %s.\nProof. vm_compute. reflexivity. Qed.\n" % (i, g))
    p = subprocess.run(["coqc", "-R", coq, "Oras", "-w", "-notation-overridden", vf], cwd=vdir, timeout=1500,
                       stdout=subprocess.PIPE, stderr=subprocess.STDOUT, text=True)
    with open(os.path.join(d, "vm_sample.txt"), "w") as f:
        f.write("%d goals %s rc=%d\n%s" % (len(goals), dict(got), p.returncode, p.stdout[-3000:]))
    if p.returncode != 0:
        return ["vm_compute re-evaluation of %d sampled cases inside Coq disagrees with the extracted runner (or does not type-check): %s"
                % (len(goals), p.stdout[-1200:])]
    if len(goals) < want // 2:
        return ["vm_compute sample too small: %d goals" % len(goals)]
    return []


CONFIG = {
    "properties_file": "Properties/C14.v",
    "proof_files": ["Base/Prelude.v", "Proofs/Referrers.v", "Proofs/MergeBase.v", "Proofs/MergeSA.v", "Proofs/MergeSB.v", "Proofs/MergeSC.v", "Proofs/Merge.v", "Proofs/MergeLin.v", "Proofs/MergeThm.v", "Proofs/Delivery.v", "Proofs/Live.v", "Proofs/MergeFine.v", "Proofs/MergeFineGet.v", "Proofs/MergeFineMain.v", "Proofs/MergeFineAssign.v", "Proofs/MergeFineWake.v", "Proofs/MergeFineRecv.v", "Proofs/MergeFineNotify.v", "Proofs/MergeFineSwap.v", "Proofs/MergeFine2.v", "Proofs/MergeFine3.v", "Proofs/MergeFineProg.v"],
    "model_files": ["Generated/GC14.v", "Model/Referrers.v", "Model/Merge.v", "Model/Delivery.v", "Model/Live.v", "Model/MergeFine.v"],
    "extract": "XC14.v",
    "ml_main": "c14_main.ml",
    "harness": "c14",
    "harness_test": True,
    "case_to_replay": _c14_case,
    "post_model": _c14_vm_sample,
    "timeout_quick": 900,
    "timeout_thorough": 3000,
    "assumptions": [
        "a descriptor is abstracted to its key (descriptor.FromOCI: media type x digest x size, interned injectively by the harness, 0 = all-zero), its artifact type and the rest of its payload; changes name non-zero descriptors (pushWithIndexing/deleteWithIndexing only index the three manifest media types) - hypothesis changes_nonempty / guard of EGet",
        "Merge: Model/Merge.v hands a batch result to its members in one step (EComplete). Model/MergeFine.v is the same system at CHANNEL granularity (buffered-1 status channels per generation, main status in the buffer, close / blocking sends in complete(), late receivers, the swap as its own lock region); C14_fine_simulated proves that every run of the channel-level system is simulated by a run of Model/Merge.v, so every theorem about reachable states of Model/Merge.v transfers (C14_fine_no_lost_update, C14_fine_structure); both models replay every M / X schedule and must agree with each other and with the implementation; Model/Delivery.v (isolated delivery step: exactly once, boundedness) is kept. Pool.Get / release = the reference count pool_get / pool_put of the model (C14_pool_is_refcount, C14_pool_shared), tied by the P lines: identity of the pooled Merge per Get in lock order, sequential sequences and one FORCED race (a release waiting for the pool lock while a Get of the same key overtakes it; forced through Pool.New of another key, goroutine states from runtime.Stack). Not modelled: a caller is identified with one call; goroutine scheduling inside a lock region",
        "one referrers tag = one copy of the transition system; different tags touch disjoint Pool keys and Merge objects (C14_tags_independent is about the product, by construction). Index manifests are content-addressed: an index without a single referrer (the empty index, zero descriptors only) can be ONE manifest under several tags; its deletion by another tag's update is the environment event EExtDrop of the per-tag system (the tag is dropped; as a set nothing changes) or a 404 on this tag's own DELETE (EDel fail); both are generated (pre-existing indexes are byte-identical across subjects unless DistinctPre) and replayed by the model",
        "registry: a failed index exchange (EPrepare/EPut/EDel fail) leaves the registry cell unchanged; a LOST RESPONSE of the index PUT or of the index DELETE (takes effect, answered 500) is a model event of its own (EPutLost / EDelLost; ghost result RLost, seen by the callers as the plain error; a lost DELETE after a PUT yields the index-delete error): C14_lost_response (nil / index-delete error => took effect; plain error => took effect iff the response was lost) and C14_plain_error_no_effect (truthful registry: plain error <=> no effect); the projected X / Y lines of runs with lost responses are judged (results, index, PUT bodies, dangling count: the old index stays); lost responses of the manifest exchanges are model events of Model/Live.v too (manifest PUT took effect, push returns the error: LPutLost - live, unlisted, nothing claimed about that key; manifest DELETE took effect, delete returns the error: LDel - gone and unlisted, judged), covered by C14_listing_is_live, generated, explored and replayed on the Y lines (tokens Q<t> / M<t>); DELETE of a manifest by digest also drops tags pointing at it",
        "Go runtime scheduling / memory model, sync.Mutex, channels, sync/atomic CompareAndSwap, encoding/json and net/http are modelled, not verified; interleavings of the visible events (lock regions, HTTP exchanges) are quantified over",
        "pingReferrers / Referrers() fallback / checkOCISubjectHeader: only SetReferrersCapability's compare-and-swap is modelled (C14_capability_monotone is about that CAS); 'the detected capability never flips' for the detection paths is sampled end-to-end after every exchange, starting from Unknown, with pings never concurrent (one exchange released at a time) - oracle only",
        "OUT OF SCOPE (not in the quantifier, not generated): pre-existing index entries that describe a live referrer with another size / media type (same digest: a different key for applyReferrerChanges, so the referrer is listed twice by digest after a push), entries with a wrong artifact type / annotations (an existing key keeps its OLD payload on Add), stale entries of deleted manifests and entries of other subjects: these are indexes no conforming client produces; the quantifier names duplicates and empty entries; subjects with a sha512 digest (buildReferrersTag yields a 135-character tag, the reference grammar allows 128: every tag-schema path fails with an invalid-reference error before any request is sent - a loud, deterministic failure of the call, no index is touched, nothing is lost; a conformance question of the tag construction (distribution-spec: truncate), not of C14's statement; reported by b-C20, subjects here are sha256)",
        "KNOWN FINDING same-manifest-race (C14_listing_is_live_refuted): Push(A) || Delete(A). For every interleaving in which operations on the SAME manifest do not overlap (Model/Live.v: manifest PUT before / manifest DELETE after the index update, any number of concurrent operations on different manifests, failures of the index exchanges, failed manifest DELETE) 'listing = exactly the live manifests' IS a theorem: C14_listing_is_live (a manifest no operation is working on and no failed operation has touched is listed iff it is in the registry); tied by the Y lines (live set predicted by the model vs registry store)",
    ],
    "level_text": "Coq theorems: applyReferrerChanges (position map, tombstones, hint; transcribed loop by loop) = set semantics over the de-duplicated non-empty old list, NoDup, order of survivors, errNoReferrerUpdate iff nothing changes; for the Merge/Pool/updateReferrersIndex transition system, over every trace (any number of callers, every interleaving of lock regions and HTTP exchanges, any pre-existing index, injected failures of index GET/PUT/DELETE): at most one caller between prepare and complete, Pool entry dropped only when unreferenced, batches linearise (the calls that returned nil or a referrers-index-delete error - exactly those - took effect once, in order, and the index is the fold of their changes), index-delete error only after the update took effect, superseded indexes deleted unless skipped/failed, capability state never flips, tags independent; tied to the code by differential runs of the extracted models (apply/removeEmpty/filter; real Merge+Pool under synctest; end-to-end push/delete through one Repository against a fake tag-schema registry with gate-controlled exchange order, projected per tag onto the transition system) and an independent oracle (live set, Referrers-API registry, dangling indexes, capability samples)",
    "level_note": "clause by clause: listing = fold of the accepted changes, each key once, no empty entry, filter (C14_listing + C14_no_lost_update: theorems over every trace); 'exactly the LIVE manifests' = C14_listing_is_live for every interleaving without same-manifest overlap (+ Y correspondence) and known finding same-manifest-race with refuted witness for the overlap; artifact type / annotations: C14_entries_origin + C14_equals_api (type rule only), rest oracle (decoration, api-mismatch vs the fake's own Referrers API); superseded indexes: C14_gc / C14_gc_clean / C14_gc_count + per-tag dangling count compared with the implementation; capability: CAS theorem + C14_capability_all_paths (translator: the field has no other writer) + e2e samples; channel-level interleavings: safety proved (C14_fine_simulated), deadlock freedom, bounded completion and termination proved at channel granularity (C14_fine_no_deadlock with the counting invariant InvP, C14_fine_bounded_completion, C14_fine_terminates: some run without new calls reaches a quiescent state) and exercised by the free-running stress stream; Merge's channel hand-off is one model step (see assumptions); referrers listing by the Referrers API profile is the fake registry's own implementation of the distribution spec (C14_equals_api is about the artifact-type rule); manifests whose push/delete returned a plain error are 'uncertain' for the oracle (may or may not be listed), as the property allows; three defects of oras-go found by this check were repaired in fix: commits (known_findings.d/C14.json)",
    "technique": "machine-checked proof in Coq (invariants over all traces of a transition system; refinement of the position-map algorithm to set semantics) + extracted-model/implementation correspondence under testing/synctest + independent oracle",
    "explanation": "theorems over all interleavings/histories about the model of applyReferrerChanges and of the Merge/Pool/updateReferrersIndex protocol; the extracted model replays the schedules observed on the real code (random + all schedules of small cases) and must predict batches, per-call results and the final index; the oracle compares Referrers()/Predecessors() after quiescence with the generator's live set and with a Referrers-API registry",
}
