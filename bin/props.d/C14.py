"""C14 configuration (loaded by bin/props.py)."""
import json as _json


def _c14_case(c):
    p = c.split(" ")
    if p[0] in ("A", "R", "F", "T"):
        return {"kind": "A", "line": c}
    if p[0] == "M":
        # M <n> <events...>: re-run the schedule on the real Merge
        return {"kind": "M", "case": {"n": int(p[1]), "script": p[2:], "seed": 1}}
    if p[0] == "X" and p[-1].startswith("J"):
        # projected line of an end-to-end run: the last token is the whole case with its schedule
        return {"kind": "E", "case": _json.loads(bytes.fromhex(p[-1][1:]).decode("utf-8"))}
    if p[0] == "K":
        return {"kind": "M", "case": {"caps": [ch == "1" for ch in p[1]]}}
    return {"raw": c}


CONFIG = {
    "properties_file": "Properties/C14.v",
    "proof_files": ["Base/Prelude.v", "Proofs/Referrers.v", "Proofs/Merge.v", "Proofs/MergeLin.v", "Proofs/MergeThm.v"],
    "model_files": ["Generated/GC14.v", "Model/Referrers.v", "Model/Merge.v"],
    "extract": "XC14.v",
    "ml_main": "c14_main.ml",
    "harness": "c14",
    "harness_test": True,
    "case_to_replay": _c14_case,
    "timeout_quick": 900,
    "timeout_thorough": 3000,
    "assumptions": [
        "a descriptor is abstracted to its key (descriptor.FromOCI: media type x digest x size, interned injectively by the harness, 0 = all-zero), its artifact type and the rest of its payload; changes name non-zero descriptors (pushWithIndexing/deleteWithIndexing only index the three manifest media types) - hypothesis changes_nonempty / guard of EGet",
        "Merge: the delivery of a batch result to its members (close of the status channel / len(items)-1 buffered sends, received later by each waiter) is one step EComplete of the transition system; which waiter receives the buffered main status is an event parameter (ERecvMain t); the real channel mechanics are exercised by the M runs under testing/synctest, all schedules of up to 3 (thorough: 5) callers enumerated",
        "one referrers tag = one copy of the transition system; different tags touch disjoint Pool keys, Merge objects and registry tags (theorem C14_tags_independent is about the product); index manifests of different tags are distinct objects",
        "registry: a failed HTTP exchange has no effect; DELETE of a manifest by digest also drops tags pointing at it; index manifests are content-addressed (modelled by list equality)",
        "Go runtime scheduling / memory model, sync.Mutex, channels, sync/atomic CompareAndSwap, encoding/json and net/http are modelled, not verified; interleavings of the visible events (lock regions, HTTP exchanges) are quantified over",
        "pingReferrers / Referrers-API detection on the delete path is exercised end-to-end (capability sampled after every exchange) but only SetReferrersCapability's compare-and-swap is modelled",
    ],
    "level_text": "Coq theorems: applyReferrerChanges (position map, tombstones, hint; transcribed loop by loop) = set semantics over the de-duplicated non-empty old list, NoDup, order of survivors, errNoReferrerUpdate iff nothing changes; for the Merge/Pool/updateReferrersIndex transition system, over every trace (any number of callers, every interleaving of lock regions and HTTP exchanges, any pre-existing index, injected failures of index GET/PUT/DELETE): at most one caller between prepare and complete, Pool entry dropped only when unreferenced, batches linearise (the calls that returned nil or a referrers-index-delete error - exactly those - took effect once, in order, and the index is the fold of their changes), index-delete error only after the update took effect, superseded indexes deleted unless skipped/failed, capability state never flips, tags independent; tied to the code by differential runs of the extracted models (apply/removeEmpty/filter; real Merge+Pool under synctest; end-to-end push/delete through one Repository against a fake tag-schema registry with gate-controlled exchange order, projected per tag onto the transition system) and an independent oracle (live set, Referrers-API registry, dangling indexes, capability samples)",
    "level_note": "Merge's channel hand-off is one model step (see assumptions); referrers listing by the Referrers API profile is the fake registry's own implementation of the distribution spec (C14_equals_api is about the artifact-type rule); manifests whose push/delete returned a plain error are 'uncertain' for the oracle (may or may not be listed), as the property allows; three defects of oras-go found by this check were repaired in fix: commits (known_findings.d/C14.json)",
    "technique": "machine-checked proof in Coq (invariants over all traces of a transition system; refinement of the position-map algorithm to set semantics) + extracted-model/implementation correspondence under testing/synctest + independent oracle",
    "explanation": "theorems over all interleavings/histories about the model of applyReferrerChanges and of the Merge/Pool/updateReferrersIndex protocol; the extracted model replays the schedules observed on the real code (random + all schedules of small cases) and must predict batches, per-call results and the final index; the oracle compares Referrers()/Predecessors() after quiescence with the generator's live set and with a Referrers-API registry",
}
