"""C08 configuration (loaded by bin/props.py)."""


def _c08_case(c):
    # "H <seed.tier.index> ..." : the history is regenerated from its own PRNG stream
    p = c.split(" ")
    if len(p) > 1 and p[0] == "H" and p[1] != "-":
        return {"meta": p[1]}
    return {"raw": c}


CONFIG = {
    "properties_file": "Properties/C08.v",
    "proof_files": ["Proofs/OciIndex.v"],
    "model_files": ["Model/OciIndex.v"],
    "extract": "XC08.v",
    "ml_main": "c08_main.ml",
    "harness": "c08",
    "case_to_replay": _c08_case,
    "timeout_quick": 600,
    "timeout_search": 240,
    "timeout_thorough": 3000,
    "assumptions": [
        "descriptor-consistent inputs: each digest is used under one media type and size (nodes of the model are digests); a tag name is never the digest string of another node (wf_history; C08_inconsistent_reference_example shows why); reference names are valid UTF-8 (encoding/json replaces invalid bytes)",
        "content.Successors / manifestutil.Subject / descriptor.IsManifest are parameters of the theorems (succs, subj, mf with succs k = [] for non-manifests); manifests in the universe are well-formed JSON; SHA-2 and the verification of pushed bytes (C05) are not modelled: a blob file is identified with its node",
        "graph.Memory is represented by its node set, Predecessors derived as {p in nodes | n in succs p} (graph.Memory's representation invariant, C07); IndexAll's per-call tracker is modelled as 'skip nodes already in the graph'; its goroutines are not modelled",
        "Go map iteration orders (saveIndex two passes, gcIndex two passes, per Delete queue iteration the Referrers and Remove sets) are explicit choice lists and the theorems quantify over all of them; the untag loop of delete() is order-independent by construction (each step filters one key). The correspondence run uses identity orders (Go's order is not controllable), so it only generates histories whose compared observables do not depend on the order: AutoGC histories without referrers, without never-stored children and without tags moved between nodes; GC only when every untagged referrer's subject is in the tagged closure",
        "encoding/json round trip of index.json, os file operations, archive/tar framing and internal/fs/tarfs (pos - blockSize arithmetic, PAX headers of sha512 blob names) are exercised by the harness on real directories and tars, not proved",
        "the GC hang (F1, C09) is modelled as result RHang with the state unchanged and never generated; Store.GC errors of os.ReadDir/os.Remove and stray files under blobs/ are not modelled",
    ],
    "level_text": "Coq theorems over all histories of Push/Tag/Untag/Delete/GC/SaveIndex/read-write reopen, all universes (DAG, media types), both AutoGC settings and all Go map iteration orders: with AutoSaveIndex (or after SaveIndex) the store reloaded from index.json + blobs answers exactly like the running store (tag list, tag->descriptor up to the ref-name annotation, Resolve by digest, Exists/Fetch, Predecessors) and every index.json entry points to a stored blob; proved as a store invariant + 'index.json is an order-independent projection of the resolver map' + load-after-save identity, about an executable model that is extracted and run against content/oci on random histories over real directories reopened three ways (oci.New, NewFromFS(os.DirFS), NewFromTar), with an independent reopen/layout/predecessor oracle",
    "level_note": "full for the repaired GC (two fix: commits: GC saves index.json; GC keeps digest references of kept content); the pre-fix code is refuted by C08_reopen_equiv_refuted_gc and C08_reopen_equiv_refuted_gc_digest_ref; tar framing, JSON and the file system are exercised, not proved; the three reopen paths share loadIndex in the model",
    "technique": "machine-checked proof in Coq (store state machine, invariant over all histories and map iteration orders, load-after-save observational identity) + model/implementation correspondence on random histories + independent reopen/layout oracle",
    "explanation": "invariant (every stored manifest is referenced by digest and indexed; every reference points to stored content; index.json is a projection of the resolver map) proved for every history and map order; reopen = loadIndex of that projection proved observationally equal; model extracted and compared with content/oci on random histories with three-way reopening; independent oracle compares original and reopened stores, checks predecessors against the generator's edges and validates the raw directory",
}
