"""C08 configuration (loaded by bin/props.py)."""


def _c08_case(c):
    # "H <seed.tier.index> ..." : the history is regenerated from its own PRNG stream
    p = c.split(" ")
    if len(p) > 1 and p[0] == "H" and p[1] != "-":
        return {"meta": p[1]}
    if p[0] == "F":
        return {"tarfs": c}
    return {"raw": c}


# ---- thorough tier: a sample of the correspondence cases is re-evaluated inside Coq with
# vm_compute (same pseudo-random map orders as ml/c08_main.ml) and compared with what the
# extracted runner printed: a cross-check of the extraction and of the OCaml driver.
_VM_PRELUDE = """From Coq Require Import List Arith Bool.
Import ListNotations.
From Oras Require Import Model.OciIndex.
Definition nodeT := (bool * bool * bool * list nat * option nat)%type.
Definition u_get (u : list nodeT) (k : nat) : nodeT := nth k u (false, false, false, [], None).
Definition u_mf u k := match u_get u k with (a, _, _, _, _) => a end.
Definition u_dflt u k := match u_get u k with (_, a, _, _, _) => a end.
Definition u_sk u k := match u_get u k with (_, _, a, _, _) => a end.
Definition u_succs u k := match u_get u k with (_, _, _, a, _) => a end.
Definition u_subj u k := match u_get u k with (_, _, _, _, a) => a end.
Definition obs_all (u : list nodeT) (T : nat) (froms : list nat) (s : store) :=
  (obs_tags T s, map (fun f => obs_tags_from T f s) froms, map (obs_resolve_tag s) (seq 0 T),
   map (fun k => (obs_resolve_dig (u_dflt u) s k, obs_exists s k, obs_preds (length u) (u_succs u) s k))
       (seq 0 (length u))).
Definition vm_case (u : list nodeT) (badl : list nat) (T : nat) (froms : list nat) (cfg : config) (h : list (op * orders)) :=
  let N := length u in
  let sr3 := fold_left (fun acc oo =>
              let c := fst (fst acc) in let s := snd (fst acc) in
              let r := step N (u_mf u) (u_succs u) (u_subj u) (u_sk u) (fun k => mem k badl) true true true true true c s oo in
              (next_cfg c (fst oo), fst r, snd acc ++ [snd r])) h (cfg, store_empty, []) in
  let sr := (snd (fst sr3), snd sr3) in
  let s := fst sr in
  (snd sr, obs_all u T froms s, obs_all u T froms (reopen N (u_mf u) (u_succs u) s), disk_valid s).
"""


def _vm_nats(xs):
    return "[" + ";".join(str(x) for x in xs) + "]"


class _Lcg:
    def __init__(self, cid):
        try:
            n = int(cid[1:])
        except ValueError:
            n = 0
        self.s = n * 7919 + 17

    def rnd(self):
        self.s = (self.s * 1103515245 + 12345) & 0x3fffffff
        return (self.s >> 8) & 0xffff

    def rlist(self, k):
        return [self.rnd() % 13 for _ in range(k)]

    def orders(self):
        a, b, c = self.rlist(10), self.rlist(10), self.rlist(10)
        d = [self.rlist(10) for _ in range(6)]
        e = []
        for _ in range(8):
            x = self.rlist(5)
            y = self.rlist(5)
            e.append((x, y))
        return "(mkOrd %s %s %s [%s] [%s])" % (
            _vm_nats(a), _vm_nats(b), _vm_nats(c), ";".join(_vm_nats(x) for x in d),
            ";".join("(%s,%s)" % (_vm_nats(x), _vm_nats(y)) for x, y in e))


def _vm_ref(t):
    return "None" if t == "-" else "(Some (%s %s))" % ("RTag" if t[0] == "t" else "RDig", t[1:])


def _vm_obs(txt, n, T, froms):
    """Parse one observation string of ml/c08_main.ml into the Coq value of obs_all."""
    tags, tf, rt, nodes = [], {}, {}, {}
    for f in txt.split(";"):
        k, _, v = f.partition("=")
        if k == "tags":
            tags = [int(x) for x in v.split(",") if x]
        elif k.startswith("tf"):
            tf[int(k[2:])] = [int(x) for x in v.split(",") if x]
        elif k.startswith("rt"):
            a = v.split(".")
            rt[int(k[2:])] = "(Some (mkDesc %s %s %s))" % (a[0], a[1], _vm_ref(a[2]))
        elif k.startswith("k"):
            rd, e, p = v.split(",")
            i = int(k[1:])
            if rd not in ("D", "B", "N"):
                return None
            rdv = {"D": "(DPlain %d)" % i, "B": "(DBlob %d)" % i, "N": "DNotFound"}[rd]
            nodes[i] = "(%s, %s, %s)" % (rdv, "true" if e == "e1" else "false",
                                         _vm_nats([int(x) for x in p[1:].split(".") if x]))
    return "(%s, [%s], [%s], [%s])" % (
        _vm_nats(tags), ";".join(_vm_nats(tf.get(f, [])) for f in froms),
        ";".join(rt.get(t, "None") for t in range(T)), ";".join(nodes[i] for i in range(n)))


def _vm_goal(cid, case, out):
    p = case.split(" ")
    if p[0] != "H":
        return None
    cfg = "(mkCfg %s %s)" % ("true" if p[2] == "1" else "false", "true" if p[3] == "1" else "false")
    n, T = int(p[4]), int(p[5])
    froms = [int(x) for x in p[6].split(",")]
    nodes, badl = [], []
    for tok in p[7:7 + n]:
        fl, su, sb = tok.split(":")
        if len(fl) > 3 and fl[3] == "x":
            badl.append(len(nodes))
        nodes.append("(%s, %s, %s, %s, %s)" % (
            "true" if fl[0] == "m" else "false", "true" if fl[1] == "d" else "false",
            "true" if fl[2] == "s" else "false",
            _vm_nats([] if su == "-" else su.split(",")), "None" if sb == "-" else "(Some %s)" % sb))
    ops = p[7 + n:]
    res = out.split(" ")
    if len(ops) != len(res) or not ops or ops[-1] != "C":
        return None
    lcg = _Lcg(cid)
    hist, results = [], []
    rmap = {"ok": "ROk", "exists": "RAlreadyExists", "notfound": "RNotFound",
            "invalidref": "RInvalidReference", "hang": "RHang", "fuel": "ROutOfFuel",
            "badcontent": "RBadContent"}
    for op, r in zip(ops, res):
        a = op[1:]
        if op[0] == "&":
            return None
        if op[0] in "CX":
            continue
        if op[0] == "P":
            t = "OPush %s" % a
        elif op[0] == "Q":
            k, x, an = a.split(":")
            x = "0" if x == "6" else x
            t = "OPushX (mkDesc %s %s %s)" % (k, x, "None" if an == "-" else "(Some (RTag %s))" % an)
        elif op[0] == "T":
            k, x, an, rf = a.split(":")
            x = "0" if x == "6" else x
            if rf == "B":
                rf = "D%d" % (n + 7)
            t = "OTag (mkDesc %s %s %s) %s" % (k, x, "None" if an == "-" else "(Some (RTag %s))" % an,
                                               "(RDig %s)" % k if rf == "d" else
                                               "(RDig %s)" % rf[1:] if rf[0] == "D" else "(RTag %s)" % rf)
        elif op[0] == "U":
            t = "OUntag (RTag %s)" % a
        elif op[0] == "V":
            t = "OUntag (RDig %s)" % a
        elif op[0] == "D":
            t = "ODelete %s" % a
        elif op[0] == "G":
            t = "OGC"
        elif op[0] == "S":
            t = "OSave"
        elif op[0] == "R":
            t = "OReopen"
        elif op[0] == "I":
            t = "OInject %s" % a
        elif op[0] == "A":
            t = "OSetAutoGC %s" % ("true" if a == "1" else "false")
        else:
            return None
        if r not in rmap:
            return None
        hist.append("(%s, %s)" % (t, lcg.orders()))
        results.append(rmap[r])
    last = res[-1]
    if not (last.startswith("C[") and last.endswith("]")):
        return None
    f = last[2:-1].split("|")

    o1, o2 = _vm_obs(f[0], n, T, froms), _vm_obs(f[1], n, T, froms)
    if o1 is None or o2 is None or f[1] != f[2] or f[1] != f[3] or f[1] != f[4]:
        return None
    return "vm_case [%s] %s %d %s %s [%s] = ([%s], %s, %s, %s)" % (
        ";".join(nodes), _vm_nats(badl), T, _vm_nats(froms), cfg, ";\n  ".join(hist), ";".join(results), o1, o2,
        "true" if f[5] == "v1" else "false")


def _c08_vm_sample(d, tier, coq, build, want=200):
    import os, subprocess
    if tier != "thorough":
        return []
    outs = {}
    with open(os.path.join(d, "model.txt")) as f:
        for l in f:
            i, _, o = l.rstrip("\n").partition(" ")
            outs[i] = o
    cands = []
    with open(os.path.join(d, "cases.txt")) as f:
        for l in f:
            if len(l) <= 3000:
                i, _, c = l.rstrip("\n").partition(" ")
                if i in outs and c.startswith("H "):
                    cands.append((i, c))
    # histories with concurrent batches are accepted by linearisation in the runner, not re-evaluated here
    cands = [(i, c) for i, c in cands if "&" not in c]
    step = max(1, len(cands) // want)
    goals = []
    for off in range(step):          # a spread first, then the rest until the sample is full
        for i, c in cands[off::step]:
            if len(goals) >= want:
                break
            g = _vm_goal(i, c, outs[i])
            if g:
                goals.append((i, g))
    vdir = os.path.join(build, "vm")
    os.makedirs(vdir, exist_ok=True)
    vf = os.path.join(vdir, "C08_cases.v")
    with open(vf, "w") as f:
        f.write(_VM_PRELUDE)
        for i, g in goals:
            f.write("\n(* %s *)\nGoal %s.\nProof. vm_compute. reflexivity. Qed.\n" % (i, g))
    p = subprocess.run(["coqc", "-R", coq, "Oras", "-w", "-notation-overridden", vf], cwd=vdir, timeout=1500,
                       stdout=subprocess.PIPE, stderr=subprocess.STDOUT, text=True)
    with open(os.path.join(d, "vm_sample.txt"), "w") as f:
        f.write("%d goals rc=%d\n%s" % (len(goals), p.returncode, p.stdout[-3000:]))
    if p.returncode != 0:
        return ["vm_compute re-evaluation of %d sampled histories inside Coq disagrees with the extracted runner "
                "(or does not type-check): %s" % (len(goals), p.stdout[-1200:])]
    if len(goals) < want // 2:
        return ["vm_compute sample too small: %d goals" % len(goals)]
    return []


CONFIG = {
    "properties_file": "Properties/C08.v",
    "proof_files": ["Base/Prelude.v", "Base/Regex.v", "Proofs/OciIndex.v", "Proofs/TarFS.v", "Proofs/OciConc.v", "Proofs/OciFuel.v", "Proofs/OciLocks.v"],
    "model_files": ["Generated/GC08.v", "Model/OciIndex.v", "Model/TarFS.v", "Model/OciConc.v", "Model/OciLocks.v"],
    "extract": "XC08.v",
    "ml_main": "c08_main.ml",
    "harness": "c08",
    "case_to_replay": _c08_case,
    "post_model": _c08_vm_sample,
    "timeout_quick": 600,
    "timeout_search": 240,
    "timeout_thorough": 3000,
    "assumptions": [
        "OUTSIDE the property's quantifier (caller inconsistency, generated but not judged): a descriptor passed to Tag/Delete that does not describe the stored content - wrong size (Store.Tag only checks that the blob path exists, so index.json then records the size that was passed: the clause 'blob of the recorded size' holds for the size given to Tag) or another media type (loadIndex indexes the tagged media type, so predecessors can differ after reopening). Nodes of the model are digests with ONE media type and size",
        "reference names: any non-empty valid-UTF-8 string that is not the digest of other content; the repaired Tag refuses the rest (ErrInvalidReference), so the theorems need no hypothesis on names; the model's RDig k stands for 'the digest string of node k' and, for k outside the universe, for any reference Tag refuses for every descriptor (digest of nothing, invalid UTF-8)",
        "content.Successors / manifestutil.Subject / descriptor.IsManifest are parameters of the theorems (succs, subj, mf with succs k = [] for non-manifests, bad k = undecodable manifest bytes: Push refuses them and, repaired, leaves no blob); SHA-2, the verification of pushed bytes (C05) and file contents are not modelled: a blob file is identified with its node, so 'Exists/Fetch equal after reopen' is true by construction in the model for the directory (same files) and rests on Model/TarFS.v + the harness for archives",
        "graph.Memory is represented by its node set, Predecessors derived as {p in nodes | n in succs p} (graph.Memory's representation invariant, C07); IndexAll's per-call tracker is modelled as 'skip nodes already in the graph'; obs_equiv is a snapshot equivalence of the listed observables, not a bisimulation (the running graph keeps unreferenced pushed blobs as nodes, invisible to them)",
        "totalisation: IndexAll, the subject-chain walk, Delete's queue and the GC rounds run on fuel derived from the universe bound N, Predecessors enumerates 0..N-1; the reopen theorems hold for every N; C08_fuel_* prove that on universes whose links point to smaller ids and whose ids stay below N (what the harness generates) IndexAll, the subject walk and Delete's queue loop never exhaust their fuel; and the rounds of GC's referrer pass never exhaust S |refMap| (C08_fuel_gc_rounds_sufficient)",
        "concurrency (Model/OciConc.v: two small systems; Model/OciLocks.v: Tag/Untag/SaveIndex/Push/Delete together under both locks, safety for every program accepted by the lock-discipline checker [check], the real programs assembled from the generated call sequences; GC is the program lock / gcIndex / saveIndex / sweep with an arbitrary kept node set per call; C08_gc_effect shows that the sequential gcIndex + sweep is such a step with the rebuilt graph as kept set (blobs exactly; references: none outside the graph, no tag and no digest reference of a kept node lost); Delete with AutoGC is the cascade program: one exclusive lock around delete() for the target, its referrers and danglings, any queue; which nodes the queue holds is the sequential model's business; that the graph knows a dangling manifest as stored content is an Exists step there): operations are interleaved at the level of resolver calls (each atomic under resolver.Memory's lock), indexLock and the store RWMutex; sync.Mutex / sync.RWMutex are modelled as 'enabled when free' (no fairness, no writer preference); Delete/GC are one exclusive block in system 1 and a four-step program on ONE blob in system 2; that a concurrent batch of whole operations behaves like SOME sequential order is not a theorem: the extracted sequential model must accept every batch the harness runs (results + live + reopened state); two concurrent Push of the same content and SaveIndex racing a Tag with AutoSaveIndex off are not generated (both succeed / write an intermediate state; neither violates C08)",
        "Go map iteration orders (saveIndex two passes, gcIndex tagged pass and every round of the referrer pass, per Delete queue iteration the Referrers and Remove sets) are explicit choice lists and the theorems quantify over all of them. That the STATES reached by Delete cascades and the GC referrer pass do not depend on the order is C09's theorem, not restated here: the correspondence evaluates the model under two unrelated order streams per history and reports a difference between them (or with Go's own random order) as a failure",
        "AutoSaveIndex is fixed per history (AutoGC may be toggled: OSetAutoGC); with AutoSaveIndex off index.json is only claimed valid/current right after SaveIndex - between saves it may name deleted blobs, as the property's parenthesis allows",
        "encoding/json round trip of index.json / oci-layout and os file operations are exercised by the harness on real directories, not proved; internal/fs/tarfs is modelled at the level of cleaned names and entry kinds (Model/TarFS.v: last entry of a cleaned name wins, regular and sparse members open to their content, other kinds unsupported) and tied by unit cases through a verifhooks re-export; path.Clean is a parameter; archive/tar framing is exercised on eleven archive styles (six written with archive/tar, GNU tar default / PAX sparse 1.0 / PAX sparse 0.1 / old GNU sparse, bsdtar), members of 8 GiB and more are not generated",
        "the model follows Delete / gcIndex / Tag / resolver.Memory.Tag of the frozen /repo main: C09's fixes (queue-once, pending/held referrers counted by links, referrer pass with subject-manifest test), C07's digest reference for a manifest that loses its last predecessor, C10's removal of references by digest, Tag indexing a manifest before tagging it; the referrer pass as found (GC hang, F1) is kept behind fixF1=false with result RHang (C08_gc_hang_prefix); os.ReadDir/os.Remove errors of GC's sweep are not modelled; files under blobs/ that are no content are modelled by kind (gc_sweeps_stray) outside the store record; blob files written behind the store's back (OInject) are restricted to non-manifest content in the theorems; Push always passes the bare node descriptor (annotations on the pushed descriptor are not generated)",
    ],
    "level_text": "Coq theorems over all histories of Push/Tag/Untag/Delete/GC/SaveIndex/read-write reopen/AutoGC assignment, all universes (DAG, media types, undecodable manifests), all reference names the store accepts and all Go map iteration orders: with AutoSaveIndex (at every quiescent point) or right after SaveIndex the store reloaded from index.json + blobs answers exactly like the running store (tag list incl. Tags(last), tag->descriptor up to the ref-name annotation, Resolve by digest, Exists/Fetch, Predecessors) and every index.json entry points to a stored blob; proved as a store invariant + 'index.json is an order-independent projection of the resolver map' + load-after-save identity, plus 'an archive of the directory gives the os.DirFS view' for tarfs; about executable models that are extracted and run against content/oci and internal/fs/tarfs on random histories over real directories reopened four ways (oci.New, NewFromFS(os.DirFS), NewFromFS(fstest.MapFS), NewFromTar of archives in eleven styles incl. GNU tar / bsdtar sparse members), with an independent reopen/layout/predecessor oracle",
    "level_note": "full for the repaired code (six fix: commits of this property: GC saves index.json; GC keeps digest references; tarfs reads data in place and decodes sparse members; Push leaves no blob it cannot index; Tag refuses digests of other content and invalid UTF-8) plus C09's Delete/gcIndex/resolver fixes; each pre-fix behaviour has a refuted witness or a corpus replay. ORACLE-ONLY clauses (no theorem, the model has no bytes/sizes/JSON): 'oci-layout and index.json parse', 'every blob file is named by the digest of its bytes', 'of the recorded size' (conditional on the size passed to Tag, see assumptions), Fetch returning the bytes, no leftover temporary files, opening does not rewrite index.json. Exists/Fetch equality is by construction in the store model; the tar clause rests on C08_tar_view (abstract names and kinds) + the harness. The three ways of reopening are one model function (loadIndex over an fs.FS): oci.New only adds file creation on a missing layout, NewFromTar adds tarfs. Concurrency: every schedule of index-saving operations leaves index.json current at quiescence and every schedule of Tag/Delete/Push leaves only references to existing content, for the lock placement the translator reads from the sources (moving a lock call breaks C08_locks_as_in_the_sources; changing the condition under which the index is saved, the digest entry is registered or a manifest is indexed breaks C08_guards_as_in_the_sources); the harness runs concurrent batches with a watchdog. Thorough tier re-evaluates 200 sampled histories inside Coq (vm_compute) against the extracted runner",
    "technique": "machine-checked proof in Coq (store state machine, invariant over all histories and map iteration orders, load-after-save observational identity) + model/implementation correspondence on random histories + independent reopen/layout oracle",
    "explanation": "invariant (every stored manifest is referenced by digest and indexed; every reference points to stored content; index.json is a projection of the resolver map) proved for every history and map order; reopen = loadIndex of that projection proved observationally equal; model extracted and compared with content/oci on random histories with three-way reopening; independent oracle compares original and reopened stores, checks predecessors against the generator's edges and validates the raw directory",
}
