"""C08 configuration (loaded by bin/props.py)."""


def _c08_case(c):
    # "H <seed.tier.index> ..." : the history is regenerated from its own PRNG stream
    p = c.split(" ")
    if len(p) > 1 and p[0] == "H" and p[1] != "-":
        return {"meta": p[1]}
    return {"raw": c}


CONFIG = {
    "properties_file": "Properties/C08.v",
    "proof_files": ["Proofs/OciIndex.v"],
    "model_files": ["Model/OciIndex.v"],
    "extract": "XC08.v",
    "ml_main": "c08_main.ml",
    "harness": "c08",
    "case_to_replay": _c08_case,
    "timeout_quick": 600,
    "timeout_thorough": 3000,
    "assumptions": [],
    "level_text": "",
    "level_note": "",
    "technique": "machine-checked proof in Coq (store state machine, invariant over all histories and map iteration orders, load-after-save observational identity) + model/implementation correspondence on random histories + independent reopen/layout oracle",
    "explanation": "",
}
