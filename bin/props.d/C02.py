"""C02 configuration: part 0 = the *protocol part* (syncutil.Go / LimitedRegion / Tracker, Model/CopyImpl.v).
The spec-level part of C02 (CopySpec: link-closure at every instant, retry) is added by another builder
as an entry of CONFIG["parts"]."""
import base64 as _b64


def _c02_case(c):
    tok = c.split(" ", 1)[0]
    if tok.startswith("J"):
        pad = "=" * (-len(tok[1:]) % 4)
        return {"case": _b64.urlsafe_b64decode(tok[1:] + pad).decode("utf-8")}
    return {"raw": c}


CONFIG = {
    "name": "C02",
    "properties_file": "Properties/C02_protocol.v",
    "proof_files": ["Proofs/CopyImplBase.v", "Proofs/CopyImplInv.v", "Proofs/CopyImplInv2.v", "Proofs/CopyImplLive.v",
                    "Proofs/CopyImplDeadlock.v", "Proofs/CopyImplFault.v", "Proofs/CopyImplTerm.v", "Proofs/CopyImplSucc.v", "Proofs/CopyImplSucc2.v"],
    "model_files": ["Model/CopyImpl.v"],
    "extract": "XCopyImpl.v",
    "ml_main": "goimpl_main.ml",
    "harness": "goimpl",
    "case_to_replay": _c02_case,
    "timeout_quick": 900,
    "timeout_thorough": 3600,
    "assumptions": [
        "PROTOCOL PART ONLY: the theorems are about the LTS Model/CopyImpl.v (tasks, frames, permits, tracker); the spec-level part of C02 (link-closure of the destination at every instant, retry completes) is a separate part of this check",
        "golang.org/x/sync semaphore.Weighted (acquire blocks until a permit is free or ctx is done; FIFO order abstracted to 'any waiter'), errgroup (Wait returns after all goroutines; first error cancels) and context.WithCancelCause/Cause (cancellation is propagated synchronously to derived contexts) are modelled by hand, not verified; their protocol is exercised on every run by driving the real syncutil.Go / LimitedRegion / Tracker and checking trace acceptance",
        "atomicity abstractions of the model (each merges non-blocking operations that can only enable other tasks' steps): Acquire+eg.Go; return of fn + deferred close(done) + cancel(err) + deferred End; eg.Wait + return of Go + the caller's `if err != nil {return err}`",
        "storage steps (Exists, FindSuccessors/fetch, copyNode incl. callbacks and mounting) are single labels whose outcome (present / absent / failure) is an unconstrained choice; successors = content.Successors minus foreign layers is the Section variable succ with the hypothesis that it strictly decreases a rank (node ids assigned bottom-up)",
        "Go scheduler, memory model and wall-clock time are not modelled: 'bounded time' is proved as a bound on the number of protocol steps (bound = f(graph), independent of K) and observed on the real code with a 20 s watchdog",
        "the recorded event order is conservative (acquisitions logged after, releases/closes/failures logged before they take effect); the value returned by syncutil.Go is read before it can be logged: a trace in which that race is visible and cannot be repaired by moving the event is left UNJUDGED by the model (counted in model_unjudged) and judged by the oracle only",
    ],
    "level_text": "PROTOCOL PART of C02/C04 (syncutil.Go, LimitedRegion.Start/End, status.Tracker, the skeleton of copyGraph.fn and of ExtendedCopyGraph's outer closure). Coq theorems over every interleaving, every fault placement and every cancellation point of a small-step LTS with explicit program counters, cancel-cause context tree, permits and done channels: permits conserved and End/Start idempotent (C04_permits_conserved, C04_*_idempotent), at most K tasks in a storage step (C04_inflight_bounded), every reachable non-final state has an enabled protocol step (C02_no_deadlock), a nat measure decreases on every step so every execution has at most bound(graph) steps (C02_terminates*), a fault or cancellation before completion makes the top-level call return an error (C02_fault_surfaces_protocol), and on success every root is Done, copied nodes have Done successors, nothing stays InProgress (C02_success_protocol). Tied to the code by driving the REAL syncutil.Go/LimitedRegion/Tracker with a scripted copy of copyGraph.fn on random OCI DAGs x K x fault plans x cancellation x latencies (recorded trace must be a run of the extracted LTS), by comparing the skeleton's storage-event multiset with the real oras.CopyGraph/ExtendedCopyGraph, and by an independent oracle on both (returns within the watchdog, error iff a fault/cancel fired, in-flight gauge <= K, no goroutine leak, no push before successors, closure present on success)",
    "level_note": "protocol part only; the spec-level part (CopySpec: destination link-closed at every instant, retry) is added by another builder. semaphore/errgroup/context are hand-modelled; wall-clock boundedness is observed (20 s watchdog), the theorem bounds the number of protocol steps; the trace acceptor infers the unobservable steps inside syncutil.Go (dispatch, skip) from the events around them",
    "technique": "machine-checked proof in Coq (invariants over a labelled transition system: permit conservation, context/ frame tree structure, failure propagation, ownership of in-progress nodes; rank-induction for deadlock freedom; potential function for termination) + trace acceptance of the real syncutil/tracker against the extracted model + differential run of the real CopyGraph + independent oracle",
    "explanation": "theorems about all interleavings/fault placements of the protocol LTS; the extracted LTS must accept the event traces of the real syncutil.Go/LimitedRegion/Tracker driven by a scripted copyGraph.fn; the real CopyGraph/ExtendedCopyGraph runs on the same cases under an independent oracle",
}
