"""C02 configuration: part 0 = the *protocol part* (syncutil.Go / LimitedRegion / Tracker, Model/CopyImpl.v).
The spec-level part of C02 (CopySpec: link-closure at every instant, retry) is added by another builder
as an entry of CONFIG["parts"]."""
import base64 as _b64


def _c02_case(c):
    tok = c.split(" ", 1)[0]
    if tok.startswith("J"):
        pad = "=" * (-len(tok[1:]) % 4)
        return {"case": _b64.urlsafe_b64decode(tok[1:] + pad).decode("utf-8")}
    return {"raw": c}


CONFIG = {
    "name": "C02",
    "properties_file": "Properties/C02_protocol.v",
    "proof_files": ["Proofs/CopyImplBase.v", "Proofs/CopyImplInv.v", "Proofs/CopyImplInv2.v", "Proofs/CopyImplLive.v",
                    "Proofs/CopyImplDeadlock.v", "Proofs/CopyImplFault.v", "Proofs/CopyImplTerm.v", "Proofs/CopyImplSucc.v", "Proofs/CopyImplSucc2.v"],
    "model_files": ["Model/CopyImpl.v"],
    "extract": "XCopyImpl.v",
    "ml_main": "goimpl_main.ml",
    "harness": "goimpl",
    "case_to_replay": _c02_case,
    "timeout_quick": 900,
    "timeout_thorough": 3600,
    "assumptions": [],
    "level_text": "",
    "level_note": "",
    "technique": "",
    "explanation": "",
}
